SPECIFICATION TSpec
CONSTANTS
  Reflective = {"component", "field", "field_paged", "field_missing"}
INVARIANT OneHandler
CONSTRAINT Mark
POSTCONDITION TraceAccepted
CHECK_DEADLOCK FALSE
