SPECIFICATION TSpec
CONSTANTS
  Reflective = {"component", "field"}
INVARIANT OneHandler
CONSTRAINT Mark
POSTCONDITION TraceAccepted
CHECK_DEADLOCK FALSE
