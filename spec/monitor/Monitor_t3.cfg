SPECIFICATION Spec
CONSTANTS
  NEvents = 2
  Clients = {"c1", "c2", "c3"}
  MaxReq = 1
  Endpoints = {"pause", "continue", "state", "now", "tick", "component", "field", "buffers", "progress"}
  PauseWaits = TRUE
  HoldCtl = TRUE
  EarlyWalk = {}
  Atomic = FALSE
  Record = FALSE
INVARIANT TypeOK
INVARIANT MutexOK
INVARIANT PauseMirror
INVARIANT WindowOK
INVARIANT RunningOK
INVARIANT InspectUnderFlag
INVARIANT DispatchLockOK
INVARIANT InspectionHeld
INVARIANT NoConcurrentAccessUnderPause
PROPERTY Termination
