\* classification of every endpoint class on the design as it is (CASE lines)
SPECIFICATION Spec
CONSTANTS
  NEvents = 2
  Clients = {"c1"}
  MaxReq = 2
  Endpoints = {"pause", "continue", "state", "now", "tick", "component", "field", "field_paged", "field_missing", "buffers", "progress"}
  PauseWaits = TRUE
  HoldCtl = TRUE
  EarlyWalk = {}
  Atomic = FALSE
  Record = FALSE
INVARIANT TypeOK
INVARIANT MutexOK
INVARIANT PauseMirror
INVARIANT WindowOK
INVARIANT RunningOK
INVARIANT InspectUnderFlag
INVARIANT DispatchLockOK
INVARIANT InspectionHeld
INVARIANT NoConcurrentAccessUnderPause
ACTION_CONSTRAINT DetectAct
