SPECIFICATION Spec
CONSTANTS
  NEvents = 3
  Clients = {"c1", "c2"}
  MaxReq = 2
  Endpoints = {"pause", "continue", "state", "now", "tick", "component", "field", "field_paged", "field_missing", "buffers", "progress"}
  PauseWaits = TRUE
  HoldCtl = TRUE
  EarlyWalk = {}
  Atomic = FALSE
  Record = FALSE
INVARIANT TypeOK
INVARIANT MutexOK
INVARIANT PauseMirror
INVARIANT WindowOK
INVARIANT RunningOK
INVARIANT InspectUnderFlag
INVARIANT DispatchLockOK
INVARIANT InspectionHeld
INVARIANT NoConcurrentAccessUnderPause
PROPERTY Termination
