\* NEGATIVE CONTROL (old engine, flag-only Pause): TLC must refute the invariant
SPECIFICATION Spec
CONSTANTS
  NEvents = 2
  Clients = {"c1"}
  MaxReq = 2
  Endpoints = {"pause", "continue", "state", "now", "tick", "component", "field", "buffers", "progress"}
  PauseWaits = FALSE
  HoldCtl = TRUE
  EarlyWalk = {}
  Atomic = FALSE
  Record = FALSE
INVARIANT NoConcurrentAccessUnderPause
