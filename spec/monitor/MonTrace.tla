------------------------------ MODULE MonTrace ------------------------------
(* B2/B3 judge for C40: a log recorded from a real monitoring2.Monitor serving HTTP on
   loopback next to a real SerialEngine run.  Every record was appended under one mutex,
   so the order of the log is the order in which the steps happened:
     run / ret            engine.Run called / returned
     start id / end id    an event handler began / is about to return
     req r ep / rsp r ep  the controller issued request r of endpoint class ep / got its
                          complete response (at most one request is open at a time)
     epause / econt       engine.Pause() returned to the monitor / engine.Continue() called
     acc what             the monitor called into simulation state during the open request
                          (engine time, TickLater, a buffer's level) -- observed at the call
   The abstract rule of C40: an access of simulation state by a request must not happen
   while a handler is executing.  Two ways of knowing that it did:
     observed_call            an acc record while a handler is running;
     request_within_handler   a request of an endpoint class that reads component state by
                              reflection (no call to observe) began and completed while one
                              and the same handler execution was in progress.
   (/api/progress is not in Reflective: the counters it reads are guarded by the bar's own
   mutex by design, so an overlap alone is not a conflict -- the race detector judges it.)
   Conflicts do not stop the validation: each is printed as a CASE (endpoint, class,
   symptom, scenario) and judged by the check against the known findings; a malformed
   log is rejected (REJECTED line).                                                *)
EXTENDS Integers, FiniteSets, Sequences, TLC, TraceCommon
CONSTANTS Reflective          \* endpoint classes whose access cannot be observed at a call
VARIABLES running, open, held, scn, l
tvars == <<running, open, held, scn, l>>
Ev == Trace[l]
None == [r |-> -1]

TInit == running = {} /\ open = None /\ held = FALSE /\ scn = 0 /\ l = 1 /\ TraceMarkInit

Class(h) == IF h THEN "relies_on_nonblocking_pause" ELSE "no_pause_at_all"
Conflict(ep, h, how, what) ==
    PrintT(<<"CASE", ToJson([endpoint |-> ep, class |-> Class(h), symptom |-> "access_while_handler_running",
                             how |-> how, what |-> what, scn |-> scn, line |-> l])>>)

TRun   == Ev.e = "run" /\ running = {} /\ UNCHANGED <<running, open, held, scn>>
TRet   == Ev.e = "ret" /\ running = {} /\ UNCHANGED <<running, open, held, scn>>
TStart == /\ Ev.e = "start" /\ running = {}
          /\ running' = {Ev.id}
          /\ open' = (IF open = None THEN open ELSE [open EXCEPT !.cover = FALSE])
          /\ UNCHANGED <<held, scn>>
TEnd   == /\ Ev.e = "end" /\ running = {Ev.id}
          /\ running' = {}
          /\ open' = (IF open = None THEN open ELSE [open EXCEPT !.cover = FALSE])
          /\ UNCHANGED <<held, scn>>
TReq   == /\ Ev.e = "req" /\ open = None
          /\ open' = [r |-> Ev.r, ep |-> Ev.ep, cover |-> running # {}, paused |-> held]
          /\ UNCHANGED <<running, held, scn>>
TEPause == /\ Ev.e = "epause" /\ open # None
           /\ held' = TRUE /\ open' = [open EXCEPT !.paused = TRUE]
           /\ UNCHANGED <<running, scn>>
TECont == /\ Ev.e = "econt" /\ open # None
          /\ held' = FALSE
          /\ UNCHANGED <<running, open, scn>>
TAcc   == /\ Ev.e = "acc" /\ open # None
          /\ UNCHANGED <<running, open, held, scn>>
          /\ running # {} => Conflict(open.ep, held, "observed_call", Ev.what)
TRsp   == /\ Ev.e = "rsp" /\ open # None /\ open.r = Ev.r /\ open.ep = Ev.ep
          /\ open' = None
          /\ UNCHANGED <<running, held, scn>>
          /\ (open.ep \in Reflective /\ open.cover /\ running # {}) =>
                 Conflict(open.ep, open.paused, "request_within_handler", "reflection")
TReset == /\ Ev.e = "reset" /\ open = None
          /\ running' = {} /\ open' = None /\ held' = FALSE /\ scn' = Ev.scn
TNext == l <= TraceLen /\ l' = l + 1 /\ (TRun \/ TRet \/ TStart \/ TEnd \/ TReq \/ TEPause \/ TECont \/ TAcc \/ TRsp \/ TReset)
TSpec == TInit /\ [][TNext]_tvars
Mark == TraceMark(l)
OneHandler == Cardinality(running) <= 1
=============================================================================
