------------------------------ MODULE MonTrace ------------------------------
(* B2/B3 judge for C40: a log recorded from a real monitoring2.Monitor serving HTTP on
   loopback next to a real SerialEngine run.  Every record was appended under one mutex,
   so the order of the log is the order in which the steps happened:
     run / ret            engine.Run called / returned
     start id / end id    an event handler began / is about to return
     req r ep / rsp r ep  the controller issued request r of endpoint class ep / got its
                          complete response (at most one request is open at a time)
     epause / econt       engine.Pause() returned to the monitor / engine.Continue() called
     acc what             the monitor called into simulation state during the open request
                          (engine time, TickLater, a buffer's level) -- observed at the call
     breq r ep / bwin r / bclose r / brsp r
                          a second, OVERLAPPING request: an inspection whose response is tens of
                          megabytes and whose client stops reading after the first byte (bwin)
                          until bclose, so that its handler stays inside the inspection, blocked
                          on the socket (the driver keeps bwin/bclose only when more bytes than
                          the kernel can buffer arrived after bclose)
   The abstract rule of C40: an access of simulation state by a request must not happen
   while a handler is executing.  Two ways of knowing that it did:
     observed_call            an acc record while a handler is running;
     request_within_handler   a request of an endpoint class that reads component state by
                              reflection (no call to observe) began and completed while one
                              and the same handler execution was in progress;
     window_of_stalled_request  a handler started (or was running) between bwin and bclose of
                              an overlapping inspection: the engine did not stay held until
                              the last inspection finished.
     content_not_at_pause_point  the state the handlers write is versioned: `set ver` is logged by the handler
                              whenever it rewrites it (event K writes a TRANSIENT version, parks at its gate,
                              then writes the version it leaves behind).  A response whose content identifies a
                              version (rsp .. ver; -1 = no version at all, a mixture) must show a version that
                              was current at a PAUSE POINT inside the request (no handler executing: at the req
                              record if none was running, or at an end record while the request was open) --
                              never a transient version, never a version older than the request.
   Endpoint classes of /api/field: field (plain), field_paged (slice_offset / slice_limit), field_missing (the
   path does not exist: the 404 is the result of a walk over component state) are Reflective; field_badparams
   (malformed paging parameters: the 400 follows from the parameter syntax alone) is not.
   (/api/progress is not in Reflective: the counters it reads are guarded by the bar's own
   mutex by design, so an overlap alone is not a conflict -- the race detector judges it.)
   Conflicts do not stop the validation: each is printed as a CASE (endpoint, class,
   symptom, scenario) and judged by the check against the known findings; a malformed
   log is rejected (REJECTED line).                                                *)
EXTENDS Integers, FiniteSets, Sequences, TLC, TraceCommon
CONSTANTS Reflective          \* endpoint classes whose access cannot be observed at a call
VARIABLES running, open, bg, held, scn, ver, l
tvars == <<running, open, bg, held, scn, ver, l>>
Ev == Trace[l]
None == [r |-> -1]

TInit == running = {} /\ open = None /\ bg = None /\ held = FALSE /\ scn = 0 /\ ver = 0 /\ l = 1 /\ TraceMarkInit

Class(h) == IF h THEN "relies_on_nonblocking_pause" ELSE "no_pause_at_all"
ConflictS(ep, h, sym, how, what) ==
    PrintT(<<"CASE", ToJson([endpoint |-> ep, class |-> Class(h), symptom |-> sym,
                             how |-> how, what |-> what, scn |-> scn, line |-> l])>>)
Conflict(ep, h, how, what) == ConflictS(ep, h, "access_while_handler_running", how, what)
InWindow == bg # None /\ bg.win
(* the engine was not kept held until the end of an overlapping inspection *)
ConflictW(ep, sym) ==
    PrintT(<<"CASE", ToJson([endpoint |-> ep, class |-> IF held THEN "relies_on_nonblocking_pause" ELSE "pause_released_under_inspection",
                             symptom |-> sym, how |-> "window_of_stalled_request", what |-> "reflection", scn |-> scn, line |-> l])>>)

TRun   == Ev.e = "run" /\ running = {} /\ UNCHANGED <<running, open, bg, held, scn, ver>>
TRet   == Ev.e = "ret" /\ running = {} /\ UNCHANGED <<running, open, bg, held, scn, ver>>
TStart == /\ Ev.e = "start" /\ running = {}
          /\ running' = {Ev.id}
          /\ open' = (IF open = None THEN open ELSE [open EXCEPT !.cover = FALSE])
          /\ UNCHANGED <<bg, held, scn, ver>>
          /\ InWindow => ConflictW(bg.ep, "handler_started_during_access")
TEnd   == /\ Ev.e = "end" /\ running = {Ev.id}
          /\ running' = {}
          /\ open' = (IF open = None THEN open ELSE [open EXCEPT !.cover = FALSE, !.pp = @ \cup {ver}])
          /\ UNCHANGED <<bg, held, scn, ver>>
TSet   == /\ Ev.e = "set" /\ running # {}
          /\ ver' = Ev.ver
          /\ UNCHANGED <<running, open, bg, scn, held>>
TReq   == /\ Ev.e = "req" /\ open = None
          /\ open' = [r |-> Ev.r, ep |-> Ev.ep, cover |-> running # {}, paused |-> held,
                     pp |-> IF running = {} THEN {ver} ELSE {}]
          /\ UNCHANGED <<running, bg, held, scn, ver>>
TEPause == /\ Ev.e = "epause" /\ (open # None \/ bg # None)
           /\ held' = TRUE /\ open' = (IF open = None THEN open ELSE [open EXCEPT !.paused = TRUE])
           /\ UNCHANGED <<running, bg, scn, ver>>
TECont == /\ Ev.e = "econt" /\ (open # None \/ bg # None)
          /\ held' = FALSE
          /\ UNCHANGED <<running, open, bg, scn, ver>>
TAcc   == /\ Ev.e = "acc" /\ (open # None \/ bg # None)
          /\ UNCHANGED <<running, open, bg, held, scn, ver>>
          /\ running # {} => Conflict(IF open # None THEN open.ep ELSE bg.ep, held, "observed_call", Ev.what)
TRsp   == /\ Ev.e = "rsp" /\ open # None /\ open.r = Ev.r /\ open.ep = Ev.ep
          /\ open' = None
          /\ UNCHANGED <<running, bg, held, scn, ver>>
          /\ (open.ep \in Reflective /\ open.cover /\ running # {}) =>
                 Conflict(open.ep, open.paused, "request_within_handler", "reflection")
          /\ ("ver" \in DOMAIN Ev /\ Ev.ver \notin open.pp) =>
                 ConflictS(open.ep, open.paused, "content_not_at_pause_point", "response_content", "reflection")
TBReq   == Ev.e = "breq" /\ bg = None /\ bg' = [r |-> Ev.r, ep |-> Ev.ep, win |-> FALSE] /\ UNCHANGED <<running, open, held, scn, ver>>
TBWin   == /\ Ev.e = "bwin" /\ bg # None /\ bg.r = Ev.r /\ ~bg.win
           /\ bg' = [bg EXCEPT !.win = TRUE] /\ UNCHANGED <<running, open, held, scn, ver>>
           /\ running # {} => ConflictW(bg.ep, "access_while_handler_running")
TBClose == Ev.e = "bclose" /\ bg # None /\ bg.r = Ev.r /\ bg.win /\ bg' = [bg EXCEPT !.win = FALSE] /\ UNCHANGED <<running, open, held, scn, ver>>
TBRsp   == Ev.e = "brsp" /\ bg # None /\ bg.r = Ev.r /\ ~bg.win /\ bg' = None /\ UNCHANGED <<running, open, held, scn, ver>>
TReset == /\ Ev.e = "reset" /\ open = None /\ bg = None
          /\ running' = {} /\ open' = None /\ bg' = None /\ held' = FALSE /\ scn' = Ev.scn /\ ver' = 0
TNext == l <= TraceLen /\ l' = l + 1 /\ (TRun \/ TRet \/ TStart \/ TEnd \/ TSet \/ TReq \/ TEPause \/ TECont \/ TAcc \/ TRsp \/ TBReq \/ TBWin \/ TBClose \/ TBRsp \/ TReset)
TSpec == TInit /\ [][TNext]_tvars
Mark == TraceMark(l)
OneHandler == Cardinality(running) <= 1
=============================================================================
