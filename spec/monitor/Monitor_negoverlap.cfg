\* NEGATIVE CONTROL (engineControlMu not kept across the inspection): two overlapping requests; TLC must refute the invariant
SPECIFICATION Spec
CONSTANTS
  NEvents = 2
  Clients = {"c1", "c2"}
  MaxReq = 1
  Endpoints = {"pause", "continue", "component", "field"}
  PauseWaits = TRUE
  HoldCtl = FALSE
  EarlyWalk = {}
  Atomic = FALSE
  Record = FALSE
INVARIANT InspectionHeld
