SPECIFICATION Spec
CONSTANTS
  NEvents = 2
  Clients = {"c1", "c2"}
  MaxReq = 1
  Endpoints = {"pause", "continue", "state", "component", "field"}
  PauseWaits = TRUE
  Atomic = FALSE
  Record = FALSE
INVARIANT TypeOK
INVARIANT MutexOK
INVARIANT PauseMirror
INVARIANT WindowOK
INVARIANT RunningOK
INVARIANT InspectUnderFlag
INVARIANT DispatchLockOK
INVARIANT NoConcurrentAccess
PROPERTY Termination
PROPERTY NoQueueReadDuringWrite
