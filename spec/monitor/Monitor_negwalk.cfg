\* negative control: /api/field validates (walks the component) before pauseForInspection; TLC must refute NoConcurrentAccess (a handler executes during the walk)
SPECIFICATION Spec
CONSTANTS
  NEvents = 2
  Clients = {"c1"}
  MaxReq = 1
  Endpoints = {"field", "field_paged", "field_missing"}
  PauseWaits = TRUE
  HoldCtl = TRUE
  EarlyWalk = {"field_paged", "field_missing"}
  Atomic = FALSE
  Record = FALSE
INVARIANT NoConcurrentAccess
