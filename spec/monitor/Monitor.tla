------------------------------ MODULE Monitor ------------------------------
(* C40 -- live-monitor HTTP requests against a running serial simulation.

   The run loop is the one of timing/serialengine.go (as in SerialPause.tla):
       chk (noMoreEvent) -> load (atomic load of `paused`) -> [wait (cond.Wait until
       paused = 0)] -> hstart (pop, time := t, handler begins) -> hend (handler
       returns) -> chk
   composed with HTTP handler goroutines of monitoring2/monitor.go.  A client issues
   requests of any endpoint class; each class has the access pattern found in the code:

     pause      ctl mutex; if ~enginePaused: engine.Pause(); enginePaused := TRUE
     continue   ctl mutex; if enginePaused: engine.Continue(); enginePaused := FALSE
     state      ctl mutex; reads enginePaused only (monitor state, not simulation state)
     component  pauseForInspection: ctl mutex; if enginePaused then read else
     field        engine.Pause(); read (reflection over the component); engine.Continue()
     field_paged    /api/field with slice_offset / slice_limit: the monitor's own reflective walk to the
     field_missing  entry point and the page (or the 404 when the walk finds no such path) -- as the code
                    is, the same pattern as field: the walk and the answer lie inside the pause.  A 404
                    for a path that does not exist is the RESULT of a walk over component state, so it
                    is an access like any other.  (Malformed paging parameters are answered 400 from the
                    parameter syntax alone: no simulation state, not an endpoint class here.)
                    EarlyWalk (a negative control, Monitor_negwalk.cfg; {} for the monitor as it is): the
                    classes whose walk runs BEFORE pauseForInspection ("a bad path must not cost a
                    pause"): the walk is an access window with no pause requested, field_missing
                    answers without ever pausing, field_paged pauses afterwards for the page.
     now        reads the engine time, no mutex, no pause
     buffers    reads buffer levels of every registered buffer, no mutex, no pause
     progress   reads the progress counters the handlers update, no pause
     tick       component.TickLater(): reads engine time, pushes an event into the
                engine's (unsynchronised) queue -- a WRITE, no mutex, no pause

   engine.Pause() (PauseWaits = TRUE, the engine as it is since W11 was repaired): the
   loop holds a dispatch lock from its re-check of the flag to the end of the handler
   and Pause waits for that lock after raising the flag.  PauseWaits = FALSE is the old
   engine (Pause = one step, paused := 1); it is kept only as a negative control that
   TLC must refute (Monitor_hyp.cfg).
   HoldCtl = TRUE: pauseForInspection keeps engineControlMu from the pause to the
   Continue, so inspections exclude each other and /api/pause, /api/continue wait for
   them -- the engine stays held until the LAST overlapping inspection has finished.
   HoldCtl = FALSE is a second negative control (Monitor_negoverlap.cfg): the mutex only
   guards the decision to pause and to resume (resume continues unless the user paused);
   with two overlapping inspections the first to finish resumes the engine under the
   other, and a /api/continue during the inspection of a user-paused engine does too.

   Conflict relation (what the statement of C40 demands): an access window of a request
   (read or write of simulation state) must not overlap the execution of an event
   handler, which may write any component state; a write access (tick) must also not
   overlap the loop's own reads of the event queue.  NoConcurrentAccess states it; the
   DetectAct action constraint prints one CASE per (endpoint, class, symptom) instead of
   stopping at the first, so one TLC run classifies every endpoint class.             *)
EXTENDS Naturals, Sequences, FiniteSets, TLC, Json

CONSTANTS NEvents,     \* events the simulation handles
          Clients,     \* HTTP client/handler goroutines
          MaxReq,      \* requests per client
          Endpoints,   \* endpoint classes a client may request
          PauseWaits,  \* TRUE: Pause waits for the dispatch in flight (the engine as it is); FALSE: old engine
          HoldCtl,     \* TRUE: an inspection keeps engineControlMu until it has continued (the monitor as it is)
          EarlyWalk,   \* endpoint classes that walk the component before pausing (negative control; {} = as it is)
          Atomic,      \* TRUE: schedules a sequential controller can realise (B3 emission)
          Record       \* TRUE: keep the schedule in hist and emit BEHAVIOUR lines

VARIABLES lpc, left, flag, dmu, running,    \* run loop, engine pause flag, dispatch lock
          mtx, mPaused,                     \* monitor: engineControlMu holder, enginePaused
          cpc, cep, cown, cleft, acc,       \* per client: pc, endpoint, own pause, budget, window open
          hist
vars == <<lpc, left, flag, dmu, running, mtx, mPaused, cpc, cep, cown, cleft, acc, hist>>

AllEndpoints == {"pause", "continue", "state", "now", "tick", "component", "field", "field_paged", "field_missing",
                 "buffers", "progress"}
Kind(ep) == CASE ep \in {"pause", "continue", "state"} -> "none"
              [] ep = "tick" -> "write"
              [] OTHER -> "read"
UsesCtl(ep)  == ep \in {"pause", "continue", "state", "component", "field", "field_paged", "field_missing"}
Inspects(ep) == ep \in {"component", "field", "field_paged", "field_missing"}

ASSUME Endpoints \subseteq AllEndpoints /\ EarlyWalk \subseteq {"field_paged", "field_missing"}

(* schedule entries: <<"go">> the controller lets the loop pass its gate; <<"req", ep>> a request
   is issued; <<"acc", ep, handler running, pause held>> the model's prediction for that request *)
H(k, ep, run, held) == IF ~Record THEN hist
                       ELSE Append(hist, CASE k = "go" -> <<k>> [] k = "req" -> <<k, ep>> [] OTHER -> <<k, ep, run, held>>)

Init == /\ lpc = "chk" /\ left = NEvents /\ flag = 0 /\ dmu = FALSE /\ running = FALSE
        /\ mtx = "none" /\ mPaused = FALSE
        /\ cpc = [c \in Clients |-> "idle"] /\ cep = [c \in Clients |-> "-"]
        /\ cown = [c \in Clients |-> FALSE] /\ cleft = [c \in Clients |-> MaxReq]
        /\ acc = [c \in Clients |-> FALSE]
        /\ hist = <<>>

InFlight(c) == cpc[c] # "idle"
Blocked(c)  == \/ cpc[c] \in {"acq", "racq"} /\ mtx # "none"
               \/ cpc[c] = "ewait" /\ dmu
(* the loop is parked at a gate the controller owns (or cannot move by itself) *)
LoopAtStop == \/ lpc \in {"chk", "hstart", "hend", "done"}
              \/ lpc = "wait" /\ flag = 1
GoAllowed == Atomic => \A c \in Clients : InFlight(c) => Blocked(c)

(* ---------------- run loop ---------------- *)
Chk    == /\ lpc = "chk" /\ GoAllowed
          /\ lpc' = (IF left = 0 THEN "done" ELSE "load")
          /\ hist' = H("go", "-", FALSE, FALSE)
          /\ UNCHANGED <<left, flag, dmu, running, mtx, mPaused, cpc, cep, cown, cleft, acc>>
Load   == /\ lpc = "load"
          /\ lpc' = (IF flag = 1 THEN "wait" ELSE IF PauseWaits THEN "lockd" ELSE "hstart")
          /\ UNCHANGED <<left, flag, dmu, running, mtx, mPaused, cpc, cep, cown, cleft, acc, hist>>
WaitR  == /\ lpc = "wait" /\ flag = 0
          /\ lpc' = (IF PauseWaits THEN "lockd" ELSE "hstart")
          /\ UNCHANGED <<left, flag, dmu, running, mtx, mPaused, cpc, cep, cown, cleft, acc, hist>>
(* repaired design only: take the dispatch lock, look at the flag again under it *)
LockD  == /\ lpc = "lockd" /\ ~dmu
          /\ IF flag = 1 THEN lpc' = "chk" /\ dmu' = dmu
                         ELSE lpc' = "hstart" /\ dmu' = TRUE
          /\ UNCHANGED <<left, flag, running, mtx, mPaused, cpc, cep, cown, cleft, acc, hist>>
HStart == /\ lpc = "hstart" /\ GoAllowed
          /\ running' = TRUE /\ lpc' = "hend"
          /\ hist' = H("go", "-", FALSE, FALSE)
          /\ UNCHANGED <<left, flag, dmu, mtx, mPaused, cpc, cep, cown, cleft, acc>>
HEnd   == /\ lpc = "hend" /\ GoAllowed
          /\ running' = FALSE /\ left' = left - 1 /\ dmu' = FALSE /\ lpc' = "chk"
          /\ hist' = H("go", "-", FALSE, FALSE)
          /\ UNCHANGED <<flag, mtx, mPaused, cpc, cep, cown, cleft, acc>>
Loop == Chk \/ Load \/ WaitR \/ LockD \/ HStart \/ HEnd

(* ---------------- HTTP handlers ---------------- *)
ReqStart(c, ep) ==
    /\ cpc[c] = "idle" /\ cleft[c] > 0
    /\ Atomic => (LoopAtStop /\ \A d \in Clients : ~InFlight(d))
    /\ cleft' = [cleft EXCEPT ![c] = @ - 1]
    /\ cep' = [cep EXCEPT ![c] = ep]
    /\ cown' = [cown EXCEPT ![c] = FALSE]
    /\ cpc' = [cpc EXCEPT ![c] = IF ep \in EarlyWalk THEN "walk" ELSE IF UsesCtl(ep) THEN "acq" ELSE "acc"]
    /\ hist' = H("req", ep, FALSE, FALSE)
    /\ UNCHANGED <<lpc, left, flag, dmu, running, mtx, mPaused, acc>>

Acquire(c) ==
    /\ cpc[c] = "acq" /\ mtx = "none"
    /\ mtx' = (IF ~HoldCtl /\ Inspects(cep[c]) /\ mPaused THEN "none" ELSE c)   \* lock; look; unlock at once
    /\ cpc' = [cpc EXCEPT ![c] =
                 CASE cep[c] = "pause"    -> IF mPaused THEN "rel" ELSE "epause"
                   [] cep[c] = "continue" -> IF mPaused THEN "econt" ELSE "rel"
                   [] cep[c] = "state"    -> "rel"
                   [] OTHER               -> IF mPaused THEN "acc" ELSE "epause"]
    /\ UNCHANGED <<lpc, left, flag, dmu, running, mPaused, cep, cown, cleft, acc, hist>>

(* what follows the return of engine.Pause() *)
PauseReturned(c) ==
    IF cep[c] = "pause"
      THEN /\ mPaused' = TRUE /\ cpc' = [cpc EXCEPT ![c] = "rel"] /\ cown' = cown /\ mtx' = mtx
      ELSE /\ mPaused' = mPaused /\ cpc' = [cpc EXCEPT ![c] = "acc"] /\ cown' = [cown EXCEPT ![c] = TRUE]
           /\ mtx' = (IF HoldCtl THEN mtx ELSE "none")

EPause(c) ==
    /\ cpc[c] = "epause"
    /\ flag' = 1
    /\ IF PauseWaits THEN cpc' = [cpc EXCEPT ![c] = "ewait"] /\ UNCHANGED <<mPaused, cown, mtx>>
                     ELSE PauseReturned(c)
    /\ UNCHANGED <<lpc, left, dmu, running, cep, cleft, acc, hist>>

EWait(c) ==
    /\ cpc[c] = "ewait" /\ ~dmu
    /\ PauseReturned(c)
    /\ UNCHANGED <<lpc, left, flag, dmu, running, cep, cleft, acc, hist>>

Held(c) == cown[c] \/ mPaused

(* EarlyWalk only: the reflective walk to the entry point before any pause is requested *)
Walk(c) ==
    /\ cpc[c] = "walk"
    /\ acc' = [acc EXCEPT ![c] = TRUE]
    /\ cpc' = [cpc EXCEPT ![c] = "walkEnd"]
    /\ hist' = H("acc", cep[c], running, Held(c))
    /\ UNCHANGED <<lpc, left, flag, dmu, running, mtx, mPaused, cep, cown, cleft>>
WalkEnd(c) ==
    /\ cpc[c] = "walkEnd"
    /\ acc' = [acc EXCEPT ![c] = FALSE]
    /\ IF cep[c] = "field_missing"
         THEN cpc' = [cpc EXCEPT ![c] = "idle"] /\ cep' = [cep EXCEPT ![c] = "-"]      \* 404, never paused
         ELSE cpc' = [cpc EXCEPT ![c] = "acq"] /\ cep' = cep                           \* pause now, page afterwards
    /\ UNCHANGED <<lpc, left, flag, dmu, running, mtx, mPaused, cown, cleft, hist>>

AccBegin(c) ==
    /\ cpc[c] = "acc"
    /\ acc' = [acc EXCEPT ![c] = TRUE]
    /\ cpc' = [cpc EXCEPT ![c] = "accEnd"]
    /\ hist' = H("acc", cep[c], running, Held(c))
    /\ UNCHANGED <<lpc, left, flag, dmu, running, mtx, mPaused, cep, cown, cleft>>

AccEnd(c) ==
    /\ cpc[c] = "accEnd"
    /\ acc' = [acc EXCEPT ![c] = FALSE]
    /\ IF Inspects(cep[c]) /\ (HoldCtl \/ cown[c])
         THEN cpc' = [cpc EXCEPT ![c] = IF ~HoldCtl THEN "racq" ELSE IF cown[c] THEN "econt" ELSE "rel"] /\ cep' = cep
         ELSE cpc' = [cpc EXCEPT ![c] = "idle"] /\ cep' = [cep EXCEPT ![c] = "-"]
    /\ UNCHANGED <<lpc, left, flag, dmu, running, mtx, mPaused, cown, cleft, hist>>

EContinue(c) ==
    /\ cpc[c] = "econt"
    /\ flag' = 0
    /\ mPaused' = (IF cep[c] = "continue" THEN FALSE ELSE mPaused)
    /\ cown' = [cown EXCEPT ![c] = FALSE]
    /\ cpc' = [cpc EXCEPT ![c] = "rel"]
    /\ UNCHANGED <<lpc, left, dmu, running, mtx, cep, cleft, acc, hist>>

(* HoldCtl = FALSE only: the resume closure locks again and continues unless the user paused *)
RAcq(c) ==
    /\ cpc[c] = "racq" /\ mtx = "none"
    /\ mtx' = c
    /\ cown' = [cown EXCEPT ![c] = FALSE]
    /\ cpc' = [cpc EXCEPT ![c] = IF mPaused THEN "rel" ELSE "econt"]
    /\ UNCHANGED <<lpc, left, flag, dmu, running, mPaused, cep, cleft, acc, hist>>

Release(c) ==
    /\ cpc[c] = "rel" /\ mtx = c
    /\ mtx' = "none"
    /\ cpc' = [cpc EXCEPT ![c] = "idle"] /\ cep' = [cep EXCEPT ![c] = "-"]
    /\ UNCHANGED <<lpc, left, flag, dmu, running, mPaused, cown, cleft, acc, hist>>

Client(c) == \/ \E ep \in Endpoints : ReqStart(c, ep)
             \/ Walk(c) \/ WalkEnd(c) \/ Acquire(c) \/ EPause(c) \/ EWait(c) \/ AccBegin(c) \/ AccEnd(c) \/ EContinue(c) \/ RAcq(c) \/ Release(c)
ClientStep(c) == Walk(c) \/ WalkEnd(c) \/ Acquire(c) \/ EPause(c) \/ EWait(c) \/ AccBegin(c) \/ AccEnd(c) \/ EContinue(c) \/ RAcq(c) \/ Release(c)

Quiet == /\ \A c \in Clients : cpc[c] = "idle" /\ cleft[c] = 0
         /\ lpc = "done" \/ (lpc = "wait" /\ flag = 1)
Next == Loop \/ (\E c \in Clients : Client(c)) \/ (Quiet /\ UNCHANGED vars)
Spec == Init /\ [][Next]_vars /\ WF_vars(Loop) /\ \A c \in Clients : WF_vars(ClientStep(c))

(* ---------------- properties of the design ---------------- *)
TypeOK == /\ lpc \in {"chk", "load", "wait", "lockd", "hstart", "hend", "done"}
          /\ left \in 0..NEvents /\ flag \in {0, 1} /\ dmu \in BOOLEAN /\ running \in BOOLEAN
          /\ mtx \in Clients \cup {"none"} /\ mPaused \in BOOLEAN
          /\ \A c \in Clients : /\ cpc[c] \in {"idle", "walk", "walkEnd", "acq", "epause", "ewait", "acc", "accEnd", "racq", "econt", "rel"}
                                /\ cep[c] \in Endpoints \cup {"-"} /\ cleft[c] \in 0..MaxReq
InCS(c) == cpc[c] \in {"epause", "ewait", "econt", "rel"} \/ (cpc[c] \in {"acc", "accEnd"} /\ UsesCtl(cep[c]) /\ HoldCtl)
(* engineControlMu: at most one control/inspection request in its critical section *)
MutexOK == \A c \in Clients : InCS(c) => mtx = c
(* the monitor's enginePaused mirrors the engine flag whenever no control request is in
   its critical section (pauseForInspection restores what it found) *)
PauseMirror == mtx = "none" => (flag = 1 <=> mPaused)
(* a window is open only inside a request that accesses simulation state *)
WindowOK == \A c \in Clients : acc[c] => (cpc[c] \in {"accEnd", "walkEnd"} /\ Kind(cep[c]) # "none")
RunningOK == running <=> lpc = "hend"
DispatchLockOK == PauseWaits => (dmu <=> lpc \in {"hstart", "hend"})
(* an inspection never reads without a pause requested (its own or the user's) *)
InspectUnderFlag == \A c \in Clients : (acc[c] /\ Inspects(cep[c])) => flag = 1

(* the engine stays held, and no handler executes, until the LAST overlapping inspection
   has finished (also when /api/continue or another inspection arrives meanwhile) *)
InspectionHeld == \A c \in Clients : (acc[c] /\ Inspects(cep[c])) => (flag = 1 /\ ~running)

(* what C40 demands *)
NoConcurrentAccess == \A c \in Clients : acc[c] => ~running
NoConcurrentAccessUnderPause == \A c \in Clients : (acc[c] /\ Held(c)) => ~running
NoQueueReadDuringWrite ==
    [][~(lpc = "chk" /\ lpc' # "chk" /\ \E c \in Clients : acc[c] /\ Kind(cep[c]) = "write")]_vars

(* left running, the simulation finishes: every event handled *)
Termination == (<>[](~mPaused /\ \A c \in Clients : cpc[c] = "idle" /\ cleft[c] = 0)) => <>(lpc = "done" /\ left = 0)

(* ---------------- classification / emission ---------------- *)
Class(c) == IF cown'[c] \/ mPaused' THEN "relies_on_nonblocking_pause" ELSE "no_pause_at_all"
Case(c, sym) == PrintT(<<"CASE", ToJson([endpoint |-> cep'[c], class |-> Class(c), symptom |-> sym])>>)
DetectAct ==
    /\ \A c \in Clients :
         /\ (acc'[c] /\ running' /\ ~acc[c]) => Case(c, "access_while_handler_running")
         /\ (acc'[c] /\ running' /\ acc[c] /\ ~running) => Case(c, "handler_started_during_access")
         /\ (acc[c] /\ acc'[c] /\ Kind(cep[c]) = "write" /\ lpc = "chk" /\ lpc' # "chk") => Case(c, "queue_read_during_write")
EmitInv == (Record /\ Quiet) => PrintT(<<"BEHAVIOUR", ToJson(hist)>>)
=============================================================================
