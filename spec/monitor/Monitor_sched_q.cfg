SPECIFICATION Spec
CONSTANTS
  NEvents = 2
  Clients = {"c1"}
  MaxReq = 2
  Endpoints = {"pause", "continue", "state", "now", "tick", "component", "field", "buffers", "progress"}
  PauseWaits = TRUE
  HoldCtl = TRUE
  Atomic = TRUE
  Record = TRUE
INVARIANT EmitInv
