SPECIFICATION Spec
CONSTANTS
  NEvents = 2
  Clients = {"c1"}
  MaxReq = 2
  Endpoints = {"pause", "continue", "state", "now", "tick", "component", "field", "field_paged", "field_missing", "buffers", "progress"}
  PauseWaits = TRUE
  HoldCtl = TRUE
  EarlyWalk = {}
  Atomic = TRUE
  Record = TRUE
INVARIANT EmitInv
