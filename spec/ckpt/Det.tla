--------------------------------- MODULE Det ---------------------------------
(* C03 / C33 — self-composition: two observation streams of the same simulation
   (same configuration and inputs, different process / GOMAXPROCS / tracer set) must
   be equal record by record.  Stream A is the expected behaviour, stream B is
   validated against it; the first divergence is reported.                      *)
EXTENDS Naturals, Sequences, TLC, Json, IOUtils
A == ndJsonDeserialize(IOEnv.TRACE_A)
B == ndJsonDeserialize(IOEnv.TRACE_B)
VARIABLE i
Init == i = 1
Step == i <= Len(A) /\ i <= Len(B) /\ A[i] = B[i] /\ i' = i + 1
Spec == Init /\ [][Step]_i
Same == IF i = Len(A) + 1 /\ Len(A) = Len(B) THEN TRUE
        ELSE /\ PrintT(<<"REJECTED", ToJson([matched |-> i - 1, lenA |-> Len(A), lenB |-> Len(B),
                          a |-> IF i <= Len(A) THEN A[i] ELSE [e |-> "eof"],
                          b |-> IF i <= Len(B) THEN B[i] ELSE [e |-> "eof"]])>>)
             /\ FALSE
Done == i = Len(A) + 1 \/ i = Len(B) + 1 \/ A[i] # B[i]
Accept == Done => Same
==============================================================================
