SPECIFICATION CSpec
CONSTANTS
  TopoId = 2
  MaxSends = 2
  MaxWakes = 1
  Horizon = 3
  Repaired = TRUE
  WakeDelays = {0, 1}
  RestoreMode = "noseq"
INVARIANTS BufferBounds TickDiscipline RestoredGuardSound NoLostAfterCut SeqFresh
PROPERTY CutInvisible
CHECK_DEADLOCK FALSE
