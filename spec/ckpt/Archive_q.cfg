SPECIFICATION Spec
CONSTANT Pairs = FALSE
INVARIANT NeverAcceptsMismatch
