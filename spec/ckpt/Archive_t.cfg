SPECIFICATION Spec
CONSTANT Pairs = TRUE
INVARIANT NeverAcceptsMismatch
