SPECIFICATION Spec
CONSTANTS
  MaxDev = 2
VIEW View
INVARIANT Lemmas
CHECK_DEADLOCK FALSE
