---------------------------- MODULE JsonVectors ----------------------------
(* C08 — value-class vectors for the library's message, event and State types.
   Those types are built from a small set of field kinds; a vector gives one value
   class to every kind (all fields of that kind take it).  A state is a vector; a
   step moves one coordinate away from its base class, at most MaxDev coordinates
   (MaxDev = 2: every pair of deviations; 3: every triple).  For each vector the
   model (JsonSem!RT on LibShape, a struct with one field per kind, an omitempty
   collection and an encapsulated container) says which kinds do not come back
   equal; TLC checks that this is exactly {string: invalid UTF-8} and {omitempty
   collections: empty but not nil}, and prints the vector as a CASE for replay on
   the real port / engine / component checkpoints.                               *)
(* container classes: zero value; empty / part / full built by filling only;
   "interrupted" = internal cursors away from their freshly-filled position (Buffer
   after pops and UpdateFront, Pipeline with items in flight at several stages and
   dwell counts left, LRU set after Evict handed out ways not visited again);
   "drained" = emptied through the container's own operations.                    *)
EXTENDS JsonSem, TLC, Json

CONSTANT MaxDev
VARIABLES vec, dev
vars == <<vec, dev>>

Coords == {"int", "uint", "string", "bytes", "slice", "map", "bool", "container"}
Classes(c) == CASE c = "int"       -> {"zero", "one", "max", "min"}
                [] c = "uint"      -> {"zero", "one", "max"}
                [] c = "string"    -> {"empty", "ascii", "unicode", "nonutf8"}
                [] c = "bytes"     -> {"nil", "empty", "one", "many"}
                [] c = "slice"     -> {"nil", "empty", "one", "two"}
                [] c = "map"       -> {"nil", "empty", "one", "two"}
                [] c = "bool"      -> {"false", "true"}
                [] c = "container" -> {"zero", "empty", "part", "full", "interrupted", "drained"}
BaseVec == [c \in Coords |-> CASE c = "string" -> "ascii" [] c = "bool" -> "true" [] c = "container" -> "part" [] OTHER -> "one"]

Init == vec = BaseVec /\ dev = 0
Next == /\ dev < MaxDev
        /\ \E c \in Coords : /\ vec[c] = BaseVec[c]
                             /\ \E k \in Classes(c) \ {BaseVec[c]} : vec' = [vec EXCEPT ![c] = k]
        /\ dev' = dev + 1
Spec == Init /\ [][Next]_vars
View == vec

(* one field per kind: A int64, B uint64, C string, D []byte, E []struct{A int64},
   F map[int64]int64, G []byte `omitempty`, H container (custom JSON pair), I bool,
   J []struct{A int64} `omitempty` *)
Item == Struct(<<Fd("exp", Prim("int64"))>>)
LibShape == Struct(<<Fd("exp", Prim("int64")), Fd("exp", Prim("uint64")), Fd("exp", Prim("string")),
                     Fd("exp", Slice(Prim("uint8"))), Fd("exp", Slice(Item)), Fd("exp", MapOf("int64", Prim("int64"))),
                     Fd("omit", Slice(Prim("uint8"))), Fd("exp", Custom("both")), Fd("exp", Prim("bool")),
                     Fd("omit", Slice(Item))>>)
FieldKind == <<"int", "uint", "string", "bytes", "slice", "map", "bytes_omitempty", "container", "bool", "slice_omitempty">>

P(c) == V(c, <<>>)
Coll(c, one) == CASE c = "nil" -> Nil
                  [] c = "empty" -> V("seq", <<>>)
                  [] c \in {"two", "many"} -> V("seq", <<one, one>>)
                  [] OTHER -> V("seq", <<one>>)
MapVal(c) == CASE c = "nil" -> Nil
               [] c = "empty" -> V("map", <<>>)
               [] c = "two" -> V("map", <<V("max", <<P("one")>>), V("min", <<P("one")>>)>>)
               [] OTHER -> V("map", <<V("max", <<P("one")>>)>>)
ValueOf(v) == V("st", <<P(v["int"]), P(v["uint"]), P(IF v["string"] = "nonutf8" THEN "bad" ELSE v["string"]),
                        Coll(v["bytes"], P("max")), Coll(v["slice"], V("st", <<P(v["int"])>>)), MapVal(v["map"]),
                        Coll(v["bytes"], P("max")), P(IF v["container"] = "zero" THEN "c0" ELSE "c1"), P(v["bool"]),
                        Coll(v["slice"], V("st", <<P(v["int"])>>))>>)

Loss(v) == LET x == ValueOf(v)
               y == RT(LibShape, x, FALSE)
           IN IF y = ERR THEN {"ERR"} ELSE {FieldKind[i] : i \in {j \in 1..10 : y.x[j] # x.x[j]}}

Expected(v) == (IF v["string"] = "nonutf8" THEN {"string"} ELSE {})
               \cup (IF v["bytes"] = "empty" THEN {"bytes_omitempty"} ELSE {})
               \cup (IF v["slice"] = "empty" THEN {"slice_omitempty"} ELSE {})

Lemmas == /\ Assert(Loss(vec) = Expected(vec), <<"Loss differs from Expected", vec, Loss(vec)>>)
          /\ Assert(dev = Cardinality({c \in Coords : vec[c] # BaseVec[c]}), <<"deviation count", vec, dev>>)
          /\ Assert(\A c \in Coords : vec[c] \in Classes(c), <<"class out of range", vec>>)
          /\ PrintT(<<"CASE", ToJson([vec |-> vec, dev |-> dev, loss |-> Loss(vec)])>>)
=============================================================================
