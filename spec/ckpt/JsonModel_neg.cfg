SPECIFICATION Spec
CONSTANTS
  MaxDepth = 2
  Sibs <- SibsQ
INVARIANT NegUnsound
CHECK_DEADLOCK FALSE
