SPECIFICATION Spec
INVARIANT Accept
CHECK_DEADLOCK FALSE
