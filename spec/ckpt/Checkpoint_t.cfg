SPECIFICATION CSpec
CONSTANTS
  TopoId = 1
  MaxSends = 3
  MaxWakes = 1
  Horizon = 3
  Repaired = TRUE
  WakeDelays = {0, 1}
  RestoreMode = "poporder"
INVARIANTS BufferBounds TickDiscipline RestoredGuardSound NoLostAfterCut SeqFresh
PROPERTY CutInvisible
CHECK_DEADLOCK FALSE
