SPECIFICATION Spec
CONSTANTS
  MaxDepth = 4
  Sibs <- SibsT
INVARIANT Lemmas
PROPERTY Monotone
PROPERTY PlainWrapKeeps
CHECK_DEADLOCK FALSE
