------------------------------- MODULE Archive -------------------------------
(* C07 — a checkpoint archive against a rebuilt simulation.
   An archive is a build identity plus one payload per entity; a rebuilt simulation
   is a build identity plus the entity set with each entity's shape (spec hash, port
   capacities, storage shape, registered handlers / message / event types).
   Mutations are applied to the archive or to the rebuilt configuration; the
   statement's rule (Outcome) says a load succeeds only when nothing differs and
   nothing is malformed — and then a second save reproduces the archive byte for byte.
   TLC enumerates every single mutation and every unordered pair and emits them with
   the expected outcome; the harness applies each to real archives of real runs.   *)
EXTENDS Naturals, FiniteSets, Sequences, TLC, Json
CONSTANT Pairs        \* TRUE: singles and pairs; FALSE: singles only

ConfigMutations == {"build_id", "port_cap", "spec", "drop_entity", "add_entity", "storage_cap", "conn_freq"}
ArchiveMutations == {"drop_entry", "add_entry", "dup_entry", "nonregular_entry", "empty_build_id", "missing_build_id",
                     "unexpected_path", "truncate_payload", "retype_payload", "unknown_handler", "unknown_event_type",
                     "unknown_msg_type", "overfill_buffer", "huge_count", "storage_short", "gz_truncated",
                     "huge_entry_size", "entry_size_beyond_data"}
Mutations == ConfigMutations \cup ArchiveMutations

VARIABLES applied, done
vars == <<applied, done>>
Init == applied = {} /\ done = FALSE
Apply(m) == ~done /\ m \notin applied /\ Cardinality(applied) < (IF Pairs THEN 2 ELSE 1)
            /\ applied' = applied \cup {m} /\ UNCHANGED done
Outcome(ms) == IF ms = {} THEN "identical" ELSE "error"      \* never "panic", never "accepted"
Finish == ~done /\ done' = TRUE /\ UNCHANGED applied
          /\ PrintT(<<"CASE", ToJson([mutations |-> applied, expect |-> Outcome(applied)])>>)
Next == (\E m \in Mutations : Apply(m)) \/ Finish \/ (done /\ UNCHANGED vars)
Spec == Init /\ [][Next]_vars
NeverAcceptsMismatch == done => (Outcome(applied) = "identical" <=> applied = {})
==============================================================================
