------------------------------ MODULE JsonSem ------------------------------
(* C43 / C08 — an abstract model of Go types, of their values, and of what a
   round trip through encoding/json (the checkpoint encoding of component
   State, port buffers and the engine queue) does to a value.

   This module has no variables: it defines
     - the type grammar                (Prim, Slice, Array, MapOf, Ptr, Iface, Custom, Struct)
     - boundary value classes per type (Vals)
     - the round-trip image of a value (RT)   -- written from the documented
       behaviour of encoding/json: unexported / `json:"-"` fields are not
       encoded, omitempty drops empty values, field-name resolution follows the
       "dominant field" rule (shallowest wins, then the single tagged one, else
       nobody), interface values lose their dynamic type, invalid UTF-8 is
       replaced, NaN/Inf cannot be encoded, a map key must be a string or an
       integer, pointer-receiver marshalers are used only on addressable values.
     - Lossless / SLossless            (semantic: every value class round-trips)
     - Reasons                          (syntactic: which features lose data)
     - Accepts                          (the STATEMENT's acceptance rule: "types that
       would silently drop data are rejected at construction")
   JsonModel.tla enumerates type trees and checks the lemmas relating these
   definitions; JsonVectors.tla enumerates value-class vectors for C08.

   Uniform shapes (TLC cannot compare a string with a record):
     type  = [k : kind, a : attribute, fs : Seq([fl : flag, t : type])]
     value = [c : class, x : Seq(value)]                                       *)
EXTENDS Naturals, Sequences, FiniteSets

Ty(k, a, fs) == [k |-> k, a |-> a, fs |-> fs]
Fd(fl, t)    == [fl |-> fl, t |-> t]
Prim(p)      == Ty("prim", p, <<>>)
Slice(e)     == Ty("slice", "", <<Fd("", e)>>)
Array(e)     == Ty("array", "", <<Fd("", e)>>)      \* [1]T
MapOf(kk, e) == Ty("map", kk, <<Fd("", e)>>)         \* kk in {"string","int64","bool"}
Ptr(e)       == Ty("ptr", "", <<Fd("", e)>>)
Iface        == Ty("iface", "", <<>>)
(* custom JSON, an opaque struct whose state is unexported:
     "both"   MarshalJSON (value receiver) + UnmarshalJSON, a faithful pair
     "monly"  MarshalJSON only          "uonly"  UnmarshalJSON only
     "ptr"    a faithful pair, both on the pointer receiver, only unexported fields
     "ptrmix" the same with one exported and one unexported field             *)
Custom(c)    == Ty("custom", c, <<>>)
(* plain struct; field flags: "exp" exported, "unexp" unexported, "dash" `json:"-"`,
   "omit" `json:",omitempty"`, "emb" embedded (anonymous) struct, "tagA" exported
   with `json:"A"`. The Go name of the i-th field is FName(i).                 *)
Struct(fs)   == Ty("struct", "", fs)
Elem(t)      == t.fs[1].t
FName(i)     == <<"A", "B", "C", "D", "E", "F", "G", "H", "I", "J">>[i]

V(c, x) == [c |-> c, x |-> x]
Nil     == V("nil", <<>>)
ERR     == V("ERR", <<>>)          \* save or load fails

IsBytes(t) == t.k = "slice" /\ Elem(t).k = "prim" /\ Elem(t).a = "uint8"
IsPlainStruct(t) == t.k = "struct"

---------------------------------------------------------------------------
(* value classes *)
ZeroClass(p) == CASE p = "bool" -> "false" [] p = "string" -> "empty" [] OTHER -> "zero"
BaseClass(p) == CASE p = "bool" -> "true" [] p = "string" -> "ascii" [] p = "float64" -> "fin" [] OTHER -> "max"
PrimClasses(p, wf) ==
  CASE p = "bool"    -> {"false", "true"}
    [] p = "int64"   -> {"zero", "max", "min"}
    [] p = "uint8"   -> {"zero", "max"}
    [] p = "uint64"  -> {"zero", "max"}
    [] p = "float64" -> IF wf THEN {"zero", "fin"} ELSE {"zero", "fin", "nan", "inf"}
    [] p = "string"  -> IF wf THEN {"empty", "ascii"} ELSE {"empty", "ascii", "bad"}
KeyClasses(kk, wf) == CASE kk = "string" -> (IF wf THEN {"ascii"} ELSE {"ascii", "bad"})
                        [] kk = "int64" -> {"max"}
                        [] OTHER -> {"true"}
BaseKey(kk) == CASE kk = "string" -> "ascii" [] kk = "int64" -> "max" [] OTHER -> "true"

RECURSIVE Zero(_)
Zero(t) == CASE t.k = "prim" -> V(ZeroClass(t.a), <<>>)
             [] t.k \in {"slice", "map", "ptr", "iface"} -> Nil
             [] t.k = "array" -> V("arr", <<Zero(Elem(t))>>)
             [] t.k = "custom" -> V("c0", <<>>)
             [] t.k = "struct" -> V("st", [i \in 1..Len(t.fs) |-> Zero(t.fs[i].t)])

RECURSIVE Base(_)
Base(t) == CASE t.k = "prim" -> V(BaseClass(t.a), <<>>)
             [] t.k = "slice" -> V("seq", <<Base(Elem(t))>>)
             [] t.k = "array" -> V("arr", <<Base(Elem(t))>>)
             [] t.k = "map" -> V("map", <<V(BaseKey(t.a), <<Base(Elem(t))>>)>>)
             [] t.k = "ptr" -> V("ref", <<Base(Elem(t))>>)
             [] t.k = "iface" -> V("dyn_float64", <<>>)
             [] t.k = "custom" -> V("c1", <<>>)
             [] t.k = "struct" -> V("st", [i \in 1..Len(t.fs) |-> Base(t.fs[i].t)])

(* boundary values: every class of every leaf, reached by varying one position at
   a time around the base value (a round trip acts on every position independently,
   so one-at-a-time variation is complete for the model).  wf = only well-formed
   scalars (valid UTF-8, finite floats).                                         *)
RECURSIVE Vals(_, _)
Vals(t, wf) ==
  CASE t.k = "prim" -> {V(c, <<>>) : c \in PrimClasses(t.a, wf)}
    [] t.k = "slice" -> {Nil, V("seq", <<>>)} \cup {V("seq", <<x>>) : x \in Vals(Elem(t), wf)}
    [] t.k = "array" -> {V("arr", <<x>>) : x \in Vals(Elem(t), wf)}
    [] t.k = "map" -> {Nil, V("map", <<>>)}
                      \cup {V("map", <<V(kc, <<Base(Elem(t))>>)>>) : kc \in KeyClasses(t.a, wf)}
                      \cup {V("map", <<V(BaseKey(t.a), <<x>>)>>) : x \in Vals(Elem(t), wf)}
    [] t.k = "ptr" -> {Nil} \cup {V("ref", <<x>>) : x \in Vals(Elem(t), wf)}
    [] t.k = "iface" -> {Nil, V("dyn_float64", <<>>), V("dyn_int64", <<>>)}
    [] t.k = "custom" -> {V("c0", <<>>), V("c1", <<>>)}
    [] t.k = "struct" -> UNION {{V("st", [Base(t).x EXCEPT ![i] = x]) : x \in Vals(t.fs[i].t, wf)} : i \in 1..Len(t.fs)}

IsEmptyValue(v) == \/ v.c \in {"false", "zero", "empty", "nil"}
                   \/ (v.c \in {"seq", "map"} /\ v.x = <<>>)

---------------------------------------------------------------------------
(* field-name resolution of encoding/json over one struct and the plain structs
   embedded in it *)
RECURSIVE Cands(_, _, _)
Cands(t, depth, path) ==
  UNION {LET f == t.fs[i]
             p2 == Append(path, i)
         IN IF f.fl = "emb" /\ f.t.k = "struct" THEN Cands(f.t, depth + 1, p2)
            ELSE IF f.fl \in {"exp", "omit"} THEN {[n |-> FName(i), d |-> depth, tg |-> FALSE, p |-> p2]}
            ELSE IF f.fl = "tagA" THEN {[n |-> "A", d |-> depth, tg |-> TRUE, p |-> p2]}
            ELSE {} : i \in 1..Len(t.fs)}

Winners(C) == {c \in C :
   LET same == {x \in C : x.n = c.n}
       top  == {x \in same : \A y \in same : x.d <= y.d}
   IN /\ c \in top
      /\ \/ Cardinality(top) = 1
         \/ (c.tg /\ Cardinality({x \in top : x.tg}) = 1)}
SurvPaths(t) == {c.p : c \in Winners(Cands(t, 0, <<>>))}

(* an embedded type with a value-receiver MarshalJSON promotes it to the embedding
   struct, which then marshals as that one member alone *)
RECURSIVE Hijack(_)
Hijack(t) == /\ t.k = "struct"
             /\ t.fs[1].fl = "emb"
             /\ \/ (t.fs[1].t.k = "custom" /\ t.fs[1].t.a = "both")
                \/ Hijack(t.fs[1].t)
RECURSIVE OnlyChain(_)
OnlyChain(t) == Len(t.fs) = 1 /\ (t.fs[1].t.k = "custom" \/ OnlyChain(t.fs[1].t))

---------------------------------------------------------------------------
(* RT(t, v, addr): the value obtained by encoding v and decoding the result into a
   fresh value of type t; addr = is v addressable while it is being encoded *)
LiftSeq(c, xs) == IF \E i \in 1..Len(xs) : xs[i] = ERR THEN ERR ELSE V(c, xs)

RECURSIVE RT(_, _, _), RTS(_, _, _, _, _), RTH(_, _)
RT(t, v, addr) ==
  CASE t.k = "prim" -> (IF v.c \in {"nan", "inf"} THEN ERR ELSE IF v.c = "bad" THEN V("fffd", <<>>) ELSE v)
    [] t.k = "slice" -> (IF v.c = "nil" \/ IsBytes(t) THEN v
                         ELSE LiftSeq("seq", [i \in 1..Len(v.x) |-> RT(Elem(t), v.x[i], TRUE)]))
    [] t.k = "array" -> LiftSeq("arr", <<RT(Elem(t), v.x[1], addr)>>)
    [] t.k = "map" -> (IF t.a = "bool" THEN ERR
                       ELSE IF v.c = "nil" THEN v
                       ELSE LiftSeq("map", [i \in 1..Len(v.x) |->
                              LET r == RT(Elem(t), v.x[i].x[1], FALSE)
                              IN IF r = ERR THEN ERR
                                 ELSE V(IF v.x[i].c = "bad" THEN "fffd" ELSE v.x[i].c, <<r>>)]))
    [] t.k = "ptr" -> (IF v.c = "nil" THEN v ELSE LiftSeq("ref", <<RT(Elem(t), v.x[1], TRUE)>>))
    [] t.k = "iface" -> (IF v.c = "dyn_int64" THEN V("dyn_float64", <<>>) ELSE v)
    [] t.k = "custom" -> (CASE t.a = "both" -> v
                            [] t.a = "monly" -> (IF v.c = "c0" THEN v ELSE ERR)
                            [] t.a = "uonly" -> ERR
                            [] OTHER -> (IF addr THEN v ELSE ERR))
    [] t.k = "struct" -> (IF Hijack(t) THEN RTH(t, v) ELSE RTS(t, v, addr, <<>>, SurvPaths(t)))

RTH(t, v) == V("st", [i \in 1..Len(t.fs) |->
                 IF i = 1 THEN (IF t.fs[1].t.k = "custom" THEN v.x[1] ELSE RTH(t.fs[1].t, v.x[1]))
                 ELSE Zero(t.fs[i].t)])

RTS(t, v, addr, path, S) ==
  LiftSeq("st", [i \in 1..Len(t.fs) |->
     LET f  == t.fs[i]
         p2 == Append(path, i)
         x  == v.x[i]
     IN IF f.fl = "emb" /\ f.t.k = "struct" THEN RTS(f.t, x, addr, p2, S)
        ELSE IF f.fl = "emb" THEN RT(f.t, x, addr)
        ELSE IF p2 \notin S THEN Zero(f.t)
        ELSE IF f.fl = "omit" /\ IsEmptyValue(x) THEN Zero(f.t)
        ELSE RT(f.t, x, addr)])

LosslessIn(t, addr, wf) == \A v \in Vals(t, wf) : RT(t, v, addr) = v
Lossless(t)  == LosslessIn(t, FALSE, FALSE)    \* every value
SLossless(t) == LosslessIn(t, FALSE, TRUE)     \* every value made of valid UTF-8 and finite floats

(* the addressability a wrapper gives to its child *)
ChildCtx(t, addr) == CASE t.k \in {"slice", "ptr"} -> TRUE [] t.k = "map" -> FALSE [] OTHER -> addr

---------------------------------------------------------------------------
(* does the zero value of plain struct s encode as the empty object?  (No field
   that is visible after name resolution is written for a zero value.)           *)
RECURSIVE FieldAt(_, _)
FieldAt(s, p) == IF Len(p) = 1 THEN s.fs[p[1]] ELSE FieldAt(s.fs[p[1]].t, Tail(p))
ZeroJsonEmpty(s) ==
  IF Hijack(s) THEN FALSE
  ELSE \A p \in SurvPaths(s) : LET f == FieldAt(s, p)
                               IN f.fl = "omit" /\ f.t.k \notin {"struct", "array", "custom"}

(* Reasons: the data-losing features of a type, found syntactically *)
(* "unexported_field/mixed": next to data that is saved; "/only_hidden": the struct
   saves nothing at all (the case the statement names explicitly)               *)
ValueLevel == {"nonutf8_string", "float_nonfinite"}

RECURSIVE Reasons(_, _), ReasonsS(_, _, _, _)
Reasons(t, addr) ==
  CASE t.k = "prim" -> (IF t.a = "string" THEN {"nonutf8_string"} ELSE IF t.a = "float64" THEN {"float_nonfinite"} ELSE {})
    [] t.k = "slice" -> (IF IsBytes(t) THEN {} ELSE Reasons(Elem(t), TRUE))
    [] t.k = "array" -> Reasons(Elem(t), addr)
    [] t.k = "map" -> (IF t.a = "bool" THEN {"unsupported_map_key"}
                       ELSE (IF t.a = "string" THEN {"nonutf8_string"} ELSE {}) \cup Reasons(Elem(t), FALSE))
    [] t.k = "ptr" -> Reasons(Elem(t), TRUE)
    [] t.k = "iface" -> {"interface"}
    [] t.k = "custom" -> (CASE t.a = "both" -> {}
                            [] t.a = "monly" -> {"custom_marshal_only"}
                            [] t.a = "uonly" -> {"custom_unmarshal_only"}
                            [] OTHER -> (IF addr THEN {} ELSE {"custom_ptr_receiver_by_value/" \o t.a}))
    [] t.k = "struct" -> (IF Hijack(t) THEN (IF OnlyChain(t) THEN {} ELSE {"embedded_custom_hijack"})
                          ELSE ReasonsS(t, addr, <<>>, SurvPaths(t)))

ReasonsS(t, addr, path, S) ==
  UNION {LET f  == t.fs[i]
             p2 == Append(path, i)
         IN CASE f.fl = "unexp" -> {IF ZeroJsonEmpty(t) THEN "unexported_field/only_hidden" ELSE "unexported_field/mixed"}
              [] f.fl = "dash" -> {"json_dash"}
              [] f.fl = "emb" /\ f.t.k = "struct" -> ReasonsS(f.t, addr, p2, S)
              [] f.fl = "emb" -> Reasons(f.t, addr)
              [] OTHER -> (IF p2 \notin S THEN {"shadowed_or_ambiguous_name"}
                           ELSE (IF f.fl = "omit" /\ f.t.k \in {"slice", "map"} THEN {"omitempty_collection"} ELSE {})
                                \cup Reasons(f.t, addr)) : i \in 1..Len(t.fs)}

---------------------------------------------------------------------------
(* Accepts: the acceptance rule the property statement asks of component
   construction — a walk that refuses every construct that drops or changes data.
   (Scalars are accepted: no rule on types can exclude NaN or invalid UTF-8.)   *)
RECURSIVE AcceptsT(_, _), AcceptsS(_, _, _, _)
AcceptsT(t, addr) ==
  CASE t.k = "prim" -> TRUE
    [] t.k = "slice" -> IsBytes(t) \/ AcceptsT(Elem(t), TRUE)
    [] t.k = "array" -> AcceptsT(Elem(t), addr)
    [] t.k = "map" -> t.a \in {"string", "int64"} /\ AcceptsT(Elem(t), FALSE)
    [] t.k = "ptr" -> AcceptsT(Elem(t), TRUE)
    [] t.k = "iface" -> FALSE
    [] t.k = "custom" -> t.a = "both" \/ (t.a \in {"ptr", "ptrmix"} /\ addr)
    [] t.k = "struct" -> (IF Hijack(t) THEN OnlyChain(t) ELSE AcceptsS(t, addr, <<>>, SurvPaths(t)))

AcceptsS(t, addr, path, S) ==
  \A i \in 1..Len(t.fs) :
     LET f  == t.fs[i]
         p2 == Append(path, i)
     IN /\ f.fl \notin {"unexp", "dash"}
        /\ IF f.fl = "emb" /\ f.t.k = "struct" THEN AcceptsS(f.t, addr, p2, S)
           ELSE IF f.fl = "emb" THEN AcceptsT(f.t, addr)
           ELSE /\ p2 \in S
                /\ ~(f.fl = "omit" /\ f.t.k \in {"slice", "map"})
                /\ AcceptsT(f.t, addr)

(* component construction takes a struct type (plain or with custom JSON) *)
IsTop(t)   == t.k \in {"struct", "custom"}
Accepts(t) == IsTop(t) /\ AcceptsT(t, FALSE)
=============================================================================
