SPECIFICATION Spec
CONSTANTS
  MaxDev = 3
VIEW View
INVARIANT Lemmas
CHECK_DEADLOCK FALSE
