SPECIFICATION Spec
CONSTANTS
  MaxDepth = 3
  Sibs <- SibsQ
INVARIANT Lemmas
PROPERTY Monotone
PROPERTY PlainWrapKeeps
CHECK_DEADLOCK FALSE
