----------------------------- MODULE Checkpoint -----------------------------
(* C06 — save / rebuild / load over the tick model (TickImpl.tla).

   A checkpoint is taken at a RunUntil boundary: no handler is active and every
   event with time <= now has been handled.  What is saved (mirrors
   timing/serialengine_checkpoint.go, modeling/component_checkpoint.go,
   modeling/eventdriven_checkpoint.go, messaging/port_checkpoint.go and the
   directconnection State): the two event queues in POP ORDER, the engine time, each
   ticking component's dedup guard, each event-driven component's pending wake-up,
   the port buffers, the round-robin cursors, the script positions.  Loading
   re-pushes the events in that order, which re-assigns sequence numbers 0..n-1.

   CutInvisible: the restored state is the original state up to that renumbering —
   and since Dispatch depends only on the ORDER of sequence numbers, every later
   step is the same.  RestoreMode selects deliberately wrong restores used as
   negative controls (the property must then fail):
     "poporder"   what the code does
     "timeorder"  re-push sorted by time only, ties by component name
     "noguard"    forget the ticking guards
     "noseq"      renumber the restored events but restart the sequence counter at 0
                  (a later event would then overtake restored same-time events)  *)
EXTENDS TickImpl
CONSTANT RestoreMode
VARIABLE cuts
cvars == <<vars, cuts>>

Boundary == Idle /\ \A e \in G.evq : e.t > time
Rank(e, q) == Cardinality({f \in q : Less(f, e)})
RestoreQueue(q) ==
    IF RestoreMode = "timeorder"
    THEN {[c |-> e.c, t |-> e.t, sec |-> e.sec,
           ord |-> Cardinality({f \in q : f.t < e.t \/ (f.t = e.t /\ f.sec = e.sec /\ f.ord > e.ord)})] : e \in q}
    ELSE {[c |-> e.c, t |-> e.t, sec |-> e.sec, ord |-> Rank(e, q)] : e \in q}
Restore(g) == [evq |-> RestoreQueue(g.evq), ord |-> IF RestoreMode = "noseq" THEN 0 ELSE Cardinality(g.evq),
               \* tickHandled is not part of the checkpoint: the restore clears it. That is
               \* invisible because it only matters for a TickNow at the instant of the handled
               \* tick, and a cut is taken after every event of that instant has been handled.
               guard |-> IF RestoreMode = "noguard"
                         THEN [c \in DOMAIN g.guard |-> [has |-> FALSE, next |-> 0, handled |-> FALSE]]
                         ELSE [c \in DOMAIN g.guard |-> [g.guard[c] EXCEPT !.handled = FALSE]],
               pend |-> g.pend]
Canon(g) == [evq |-> {[c |-> e.c, t |-> e.t, sec |-> e.sec, ord |-> Rank(e, g.evq)] : e \in g.evq},
             guard |-> [c \in DOMAIN g.guard |-> [has |-> g.guard[c].has, next |-> g.guard[c].next]], pend |-> g.pend]

Cut == /\ Boundary /\ cuts < 2 /\ G.evq # {}
       /\ G' = Restore(G) /\ cuts' = cuts + 1
       /\ UNCHANGED <<time, inb, outb, nextPort, run, sendsLeft, wakesLeft, nmsg, script, acts, lastTick, tickOK>>
CInit == Init /\ cuts = 0
CNext == (Next /\ UNCHANGED cuts) \/ Cut
CSpec == CInit /\ [][CNext]_cvars

CutInvisible == [][cuts' # cuts => Canon(G') = Canon(G)]_cvars
(* the restored guards still cover every queued tick, and nothing is lost afterwards *)
RestoredGuardSound == GuardSound
(* every queued event was scheduled before anything that will be scheduled from now on *)
SeqFresh == \A e \in G.evq : e.ord < G.ord
NoLostAfterCut == (Quiescent /\ cuts > 0) => ~Lost
=============================================================================
