----------------------------- MODULE JsonModel -----------------------------
(* C43 — enumeration of Go type trees.  A state is one type; a step wraps the
   current type into a container or into a struct (with a flag on the field that
   holds it and an optional sibling field).  TLC checks, on every type, the lemmas
   that relate the semantic definition of "lossless" (JsonSem!RT over boundary
   values), the syntactic one (Reasons) and the statement's acceptance rule
   (Accepts), and prints every struct type as a CASE with the model's verdicts;
   the harness generates Go source for each CASE and compares with what
   modeling.ValidateState/ValidateSpec and a real checkpoint round trip do.     *)
EXTENDS JsonSem, TLC, Json

CONSTANTS MaxDepth,        \* number of nesting levels above a leaf
          Sibs(_)          \* sibling options allowed when wrapping at level n
VARIABLES t, d
vars == <<t, d>>

Leaves == {Prim(p) : p \in {"bool", "int64", "uint8", "uint64", "float64", "string"}}
          \cup {Iface} \cup {Custom(c) : c \in {"both", "monly", "uonly", "ptr", "ptrmix"}}

I64 == Prim("int64")
SibNone   == <<>>
SibExp    == <<Fd("exp", I64)>>
SibUnexp  == <<Fd("unexp", I64)>>
SibTagA   == <<Fd("tagA", I64)>>                         \* `json:"A"`: same JSON name as field 1
SibEmbA   == <<Fd("emb", Struct(<<Fd("exp", I64)>>))>>   \* promotes a field named A
SibsFull  == {SibNone, SibExp, SibUnexp, SibTagA, SibEmbA}
SibsSmall == {SibNone, SibUnexp}
SibsOne   == {SibNone}

FirstFlags(x) == {"exp", "unexp", "dash", "omit"}
                 \cup (IF x.k = "struct" \/ x = Custom("both") THEN {"emb"} ELSE {})

(* rich sibling combinations are explored on leaves only; a struct is wrapped
   further only when its sibling is absent or the plain unexported one *)
Extendable(x) == IF x.k # "struct" THEN TRUE ELSE IF Len(x.fs) = 1 THEN TRUE ELSE x.fs[2] = Fd("unexp", I64)

Wraps(x, n) ==
  IF n = MaxDepth
  THEN (* last level: only make the remaining container types usable as a State *)
       (IF x.k \notin {"struct", "custom"} THEN {Struct(<<Fd("exp", x)>>)} ELSE {})
  ELSE {Slice(x), Array(x), MapOf("string", x), MapOf("int64", x), MapOf("bool", x), Ptr(x)}
       \cup {Struct(<<Fd(fl, x)>> \o sib) : fl \in FirstFlags(x), sib \in Sibs(n)}

Init == d = 0 /\ t \in Leaves
Next == d < MaxDepth /\ Extendable(t) /\ d' = d + 1 /\ t' \in Wraps(t, d + 1)
Spec == Init /\ [][Next]_vars

(* cfg-selectable breadth *)
SibsQ(n) == IF n = 1 THEN SibsFull ELSE SibsSmall
SibsT(n) == IF n = 1 THEN SibsFull ELSE IF n = 2 THEN SibsSmall ELSE SibsOne

---------------------------------------------------------------------------
Structural(rs) == rs \ ValueLevel
Verdict(x) == [ll |-> Lossless(x), sl |-> SLossless(x), acc |-> Accepts(x), rs |-> Reasons(x, FALSE)]

(* lemmas over the verdict v of type x (one evaluation per state) *)
(* the statement's rule is sound for well-formed values ... *)
ThmSound(v)    == v.acc => v.sl
(* ... and not stricter than necessary inside this grammar *)
ThmTight(x, v) == (IsTop(x) /\ v.sl) => v.acc
(* what remains is value-level only: an accepted type loses data only through
   invalid UTF-8 or non-finite floats *)
ThmGap(v)      == (v.acc /\ ~v.ll) => (v.rs # {} /\ v.rs \subseteq ValueLevel)
(* the semantic and the syntactic definitions agree *)
LemReasons(v)  == v.ll <=> (v.rs = {})
LemSReasons(v) == v.sl <=> (Structural(v.rs) = {})
LemOrder(v)    == v.ll => v.sl

Lemmas == LET v == Verdict(t)
          IN /\ Assert(ThmSound(v), <<"ThmSound violated", t>>)
             /\ Assert(ThmTight(t, v), <<"ThmTight violated", t>>)
             /\ Assert(ThmGap(v), <<"ThmGap violated", t>>)
             /\ Assert(LemReasons(v), <<"LemReasons violated", t>>)
             /\ Assert(LemSReasons(v), <<"LemSReasons violated", t>>)
             /\ Assert(LemOrder(v), <<"LemOrder violated", t>>)
             /\ (IsTop(t) => PrintT(<<"CASE", ToJson([t |-> t, d |-> d, ll |-> v.ll, sl |-> v.sl,
                                                       acc |-> v.acc, rs |-> v.rs])>>))

(* losslessness is inherited downwards: a lossless wrapper has a lossless child *)
Monotone == [][LosslessIn(t', FALSE, FALSE) => LosslessIn(t, ChildCtx(t', FALSE), FALSE)]_vars
(* plain wrappers preserve it upwards *)
PlainWrapKeeps == [][(/\ LosslessIn(t, ChildCtx(t', FALSE), FALSE)
                      /\ \/ t'.k \in {"slice", "array", "ptr"}
                         \/ (t'.k = "map" /\ t'.a = "int64")
                         \/ (t'.k = "struct" /\ Len(t'.fs) = 1 /\ t'.fs[1].fl = "exp"))
                     => LosslessIn(t', FALSE, FALSE)]_vars

(* negative control for the lemmas (JsonModel_neg.cfg): a rule that lets an
   unexported sibling through must be refuted by TLC *)
LaxAccepts(x) == IF Accepts(x) THEN TRUE
                 ELSE IF x.k = "struct" /\ Len(x.fs) = 2
                      THEN x.fs[2].fl = "unexp" /\ x.fs[1].fl = "exp" /\ AcceptsT(x.fs[1].t, FALSE)
                      ELSE FALSE
NegUnsound == LaxAccepts(t) => SLossless(t)
=============================================================================
