SPECIFICATION Spec
CONSTANTS
  InsSeq <- Ins2
  Flushers = {"f"}
  Closer = "c"
  Tables = {"t1"}
  LocSeq <- Loc1
  FreeLocs = FALSE
  BatchSizes = {1, 2}
  PerIns = 1
  PerFl = 1
  LateTables = {}
  LockScope = "code"
  SigMode = "none"
VIEW View
INVARIANTS AllPersistedOnce
