SPECIFICATION Spec
CONSTANTS
  InsSeq <- Ins2
  Flushers = {"f"}
  Closer = "c"
  Tables = {"t1", "t2"}
  LocSeq <- Loc2
  FreeLocs = TRUE
  BatchSizes = {1, 2, 3}
  PerIns = 1
  PerFl = 1
  LateTables = {"t2"}
  LockScope = "fix"
  SigMode = "none"
VIEW View
INVARIANTS TypeOK AllPersistedOnce NoCrash FlushHoldsLock NeverTwice LocInternOK TxnOwner EmitCase
