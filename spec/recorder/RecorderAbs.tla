---------------------------- MODULE RecorderAbs ----------------------------
(* C35 — the statement, as a specification of its own.

   A data recorder is a set of inserted entries and, once it is closed, the
   contents of the database file:

     Insert(e)   adds e (entries are told apart by their id) while the recorder is open;
     Flush       changes nothing that is observable through the statement;
     Close       produces a database in which every inserted entry is present exactly
                 once in its table with its location column naming, through the
                 location table, the entry's location string, and in which location
                 ids and location strings are in one-to-one correspondence.

   An entry is [id, tab, loc]; a stored row is <<id, lid>> (lid = the interned
   location id found in the row); a location row is <<lid, string>>.  The other field
   values (every allowed kind, quotes, unicode, extremes …) are compared by the
   harness on the real rows; they have no bearing on the schedule and are not
   modelled.  Nothing here is derived from datarecorder.go.                          *)
EXTENDS Integers, Sequences, FiniteSets

(* ---- the judgement on one closed database (used on model states and on real rows) *)
Range(s) == {s[i] : i \in DOMAIN s}

(* location ids <-> strings is one-to-one: no id twice, no string twice *)
LocOneToOne(locs) ==
    /\ Cardinality({r[1] : r \in Range(locs)}) = Len(locs)
    /\ Cardinality({r[2] : r \in Range(locs)}) = Len(locs)

LocNames(locs, lid) == {r[2] : r \in {x \in Range(locs) : x[1] = lid}}

(* table t holds exactly the entries inserted into t, each once, location resolved *)
TableExact(ins, t, rows, locs) ==
    /\ Cardinality({r[1] : r \in Range(rows)}) = Len(rows)                    \* no entry twice
    /\ {<<r[1], LocNames(locs, r[2])>> : r \in Range(rows)}
         = {<<e.id, {e.loc}>> : e \in {x \in ins : x.tab = t}}                 \* none missing, none foreign, location intact

Stored(ins, tabs, rowsOf, locs) ==
    /\ LocOneToOne(locs)
    /\ \A t \in tabs : TableExact(ins, t, rowsOf[t], locs)
    /\ \A e \in ins : e.tab \in tabs

(* finer classification, for reports only *)
Missing(ins, tabs, rowsOf)    == {e.id : e \in {x \in ins : x.tab \in tabs /\ ~\E r \in Range(rowsOf[x.tab]) : r[1] = x.id}}
Duplicated(ins, tabs, rowsOf) == {e.id : e \in {x \in ins : x.tab \in tabs /\
                                     Cardinality({i \in DOMAIN rowsOf[x.tab] : rowsOf[x.tab][i][1] = x.id}) > 1}}

(* ---- the abstract recorder as a behaviour specification (refinement target) *)
CONSTANT ATables
VARIABLES ains,      \* entries inserted so far
          aclosed,   \* Close has returned
          arows,     \* table -> rows of the database file (meaningful once closed)
          alocs      \* rows of the location table
avars == <<ains, aclosed, arows, alocs>>

AInit   == ains = {} /\ aclosed = FALSE /\ arows = [t \in ATables |-> <<>>] /\ alocs = <<>>
AInsert == /\ ~aclosed /\ aclosed' = FALSE
           /\ \E e \in ains' \ ains : ains' = ains \cup {e} /\ \A x \in ains : x.id # e.id
           /\ UNCHANGED <<arows, alocs>>
AClose  == /\ ~aclosed /\ aclosed' = TRUE /\ ains' = ains
           /\ Stored(ains, ATables, arows', alocs')
ANext   == AInsert \/ AClose
ASpec   == AInit /\ [][ANext]_avars
=============================================================================
