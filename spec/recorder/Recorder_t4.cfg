SPECIFICATION Spec
CONSTANTS
  InsSeq <- Ins2
  Flushers = {"f"}
  Closer = "c"
  Tables = {"t1"}
  LocSeq <- Loc2
  FreeLocs = FALSE
  BatchSizes = {1, 2, 3}
  PerIns = 2
  PerFl = 2
  LateTables = {}
  LockScope = "fix"
  SigMode = "label"
VIEW View
INVARIANTS TypeOK AllPersistedOnce NoCrash FlushHoldsLock NeverTwice LocInternOK TxnOwner EmitCase
PROPERTIES Terminates Refines
