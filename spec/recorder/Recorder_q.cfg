SPECIFICATION Spec
CONSTANTS
  InsSeq <- Ins2
  Flushers = {"f"}
  Closer = "c"
  Tables = {"t1"}
  LocSeq <- Loc2
  FreeLocs = FALSE
  BatchSizes = {1, 2, 3}
  PerIns = 1
  PerFl = 1
  LateTables = {}
  LockScope = "fix"
  SigMode = "proc"
VIEW View
INVARIANTS TypeOK AllPersistedOnce NoCrash FlushHoldsLock NeverTwice LocInternOK TxnOwner EmitCase
PROPERTIES Terminates Refines
