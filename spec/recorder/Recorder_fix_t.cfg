SPECIFICATION Spec
CONSTANTS
  InsSeq <- Ins2
  Flushers = {"f"}
  Closer = "c"
  Tables = {"t1", "t2"}
  LocSeq <- Loc2
  FreeLocs = TRUE
  BatchSizes = {1, 2, 3}
  PerIns = 2
  PerFl = 2
  LockScope = "fix"
VIEW View
INVARIANTS TypeOK AllPersistedOnce NoCrash FlushHoldsLock NeverTwice LocInternOK TxnOwner
PROPERTIES Terminates Refines
