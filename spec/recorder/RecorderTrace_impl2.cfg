SPECIFICATION TSpec
CONSTANTS
  InsSeq <- Ins8
  Flushers = {"f"}
  Closer = "c"
  Tables = {"t1", "t2"}
  LocSeq <- Loc3
  FreeLocs = TRUE
  BatchSizes = {1}
  PerIns = 0
  PerFl = 0
  LateTables = {}
  LockScope = "fix"
  SigMode = "none"
  Impl = TRUE
INVARIANT ModelInv
CONSTRAINT Mark
POSTCONDITION TraceAccepted
CHECK_DEADLOCK FALSE
