--------------------------- MODULE RecorderTrace ---------------------------
(* B2/B3 for C35.  A log recorded from the REAL recorder is read line by line:

     start   a fresh recorder with the logged batch size and the tables created up front
     step    one gate passage (process, label, table) — exactly one gate action of
             Recorder.tla (LockScope "fix"); an "ins" step carries the entry; "call" is the
             harness's own gate in front of Flush()/Close().  Taking the mutex is not
             logged: it is a silent step of the model, taken as soon as it is enabled
             (a logged step needs Quiet), in whichever order the waiters got it
     panic   the goroutine of process p panicked inside the recorder
     end     the run is over: either it crashed, or Close returned and the SQLite
             file was read back: rows[t] = <<id, location id>> in rowid order,
             locs = rows of the location table

   Two judgements are printed per run (CASE line) and compared with the harness's own:
     persisted  the statement (RecorderAbs!Stored) evaluated on the REAL rows against
                the set of entries whose InsertData was logged;
     conf       (Impl = TRUE, gated runs) every logged step was enabled in the model
                and the model's database equals the real one row for row — the
                implementation-shaped model explains what the real code did.
   Which waiter got the mutex is the Go runtime's choice, so TLC follows every order:
   a run can end in several branches, each prints its CASE line, and the run conforms
   when one of them does.  A log that leaves the model does not stop the validation:
   the branch is marked diverged (a regressed or mutated tree is allowed to differ from
   the model) and only `persisted` is judged.  With Impl = FALSE (free-running
   goroutines; only InsertData calls are logged) the model is not stepped.            *)
EXTENDS Recorder, TraceCommon
CONSTANT Impl
VARIABLES l, div
tvars == <<vars, l, div>>
Ev == Trace[l]

TInit == Init /\ l = 1 /\ div = FALSE /\ TraceMarkInit

Entry == [id |-> Ev.id, tab |-> Ev.tab, loc |-> Ev.loc]
Seen == inserted' = (IF Ev.l = "ins" THEN inserted \cup {Entry} ELSE inserted)
Guard(p, lab, tb) ==
    /\ p \in Procs
    /\ CASE lab = "ins" -> pc[p] = "idle" /\ tb \in made /\ Ev.loc \in Locs
         [] lab = "call" -> pc[p] = "idle"
         [] lab = "create" -> pc[p] = "idle" /\ tb \in Tables \ (made \cup Making)
         [] lab = "fl_table" -> pc[p] = "fl_table" /\ mu = p /\ tb \in todo[p]
         [] OTHER -> lab \in FlushLabels \cup {"fl_check"} /\ pc[p] = lab /\ mu = p

TStart == /\ Ev.e = "start" /\ MReset(Ev.batch, {Ev.init[i] : i \in DOMAIN Ev.init}) /\ inserted' = {} /\ div' = FALSE
          /\ UNCHANGED <<left, racy, sig, hist>>
TStep  == /\ Ev.e = "step" /\ Impl /\ ~div /\ Quiet /\ Guard(Ev.p, Ev.l, Ev.tab)
          /\ \/ Ev.l = "ins" /\ RelIns(Ev.p, Entry)
             \/ Ev.l = "call" /\ Call(Ev.p)
             \/ Ev.l = "create" /\ RelCreate(Ev.p, Ev.tab)
             \/ Ev.l = "fl_check" /\ FlCheck(Ev.p)
             \/ FlushStep(Ev.p, Ev.l, Ev.tab)
          /\ Seen /\ UNCHANGED <<left, racy, sig, hist, div>>
TLeave == /\ Ev.e = "step" /\ Impl /\ ~div /\ Quiet /\ ~Guard(Ev.p, Ev.l, Ev.tab)
          /\ div' = TRUE /\ Seen /\ UNCHANGED <<mvars, left, racy, sig, hist>>
TSkip  == /\ Ev.e = "step" /\ (div \/ ~Impl)
          /\ Seen /\ UNCHANGED <<mvars, left, racy, sig, hist, div>>
TPanic == /\ Ev.e = "panic" /\ div' = (div \/ (Impl /\ crashed # Ev.p))
          /\ UNCHANGED vars
SameDB == /\ \A t \in Tables : dbRows[t] = Ev.rows[t]
          /\ dbLoc = Ev.locs
TEnd   == /\ Ev.e = "end" /\ (div \/ ~Impl \/ Quiet)
          /\ LET conf == /\ Impl /\ ~div
                         /\ IF Ev.crashed THEN crashed # "none"
                                          ELSE crashed = "none" /\ pc[Closer] = "closed" /\ SameDB
                 pers == ~Ev.crashed /\ Abs!Stored(inserted, Tables, Ev.rows, Ev.locs)
                 miss == IF Ev.crashed THEN {} ELSE Abs!Missing(inserted, Tables, Ev.rows)
                 dupl == IF Ev.crashed THEN {} ELSE Abs!Duplicated(inserted, Tables, Ev.rows)
             IN PrintT(<<"CASE", ToJson([run |-> Ev.run, conf |-> conf, persisted |-> pers, n |-> Cardinality(inserted),
                                         missing |-> miss, duplicated |-> dupl])>>)
          /\ UNCHANGED <<vars, div>>
(* a waiter takes the free mutex: not logged, position unchanged *)
TSilent == /\ Impl /\ ~div /\ l <= TraceLen /\ Ev.e # "start"
           /\ \E p \in Procs : AcqIns(p) \/ AcqFl(p) \/ AcqCreate(p)
           /\ UNCHANGED <<left, inserted, racy, sig, hist, l, div>>
TNext == \/ l <= TraceLen /\ l' = l + 1 /\ (TStart \/ TStep \/ TLeave \/ TSkip \/ TPanic \/ TEnd)
         \/ TSilent
TSpec == TInit /\ [][TNext]_tvars
Mark == TraceMark(l)
(* while a run conforms, the model's own invariants are evaluated on the real run *)
ModelInv == (Impl /\ ~div) => (TypeOK /\ NeverTwice /\ LocInternOK /\ TxnOwner /\ FlushHoldsLock)
=============================================================================
