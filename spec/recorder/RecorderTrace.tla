--------------------------- MODULE RecorderTrace ---------------------------
(* B2/B3 for C35.  A log recorded from the REAL recorder is read line by line:

     start   a fresh recorder with the logged batch size
     step    one gate passage (process, label, table) — exactly one action of
             Recorder.tla (LockScope "code"); an "ins" step carries the entry
     panic   the goroutine of process p panicked inside the recorder
     end     the run is over: either it crashed, or Close returned and the SQLite
             file was read back: rows[t] = <<id, location id>> in rowid order,
             locs = rows of the location table

   Two judgements are printed per run (CASE line) and compared with the harness's own:
     persisted  the statement (RecorderAbs!Stored) evaluated on the REAL rows against
                the set of entries whose InsertData was logged;
     conf       (Impl = TRUE, gated runs) every logged step was enabled in the model
                and the model's database equals the real one row for row — the
                implementation-shaped model explains what the real code did.
   A log that leaves the model does not stop the validation: the run is marked
   diverged (the fixed tree, or a mutated one, is allowed to differ from the model of
   the pinned code) and only `persisted` is judged.  With Impl = FALSE (free-running
   goroutines; only InsertData calls are logged) the model is not stepped.            *)
EXTENDS Recorder, TraceCommon
CONSTANT Impl
VARIABLES l, div
tvars == <<vars, l, div>>
Ev == Trace[l]

TInit == Init /\ l = 1 /\ div = FALSE /\ TraceMarkInit

Entry == [id |-> Ev.id, tab |-> Ev.tab, loc |-> Ev.loc]
Seen == inserted' = (IF Ev.l = "ins" THEN inserted \cup {Entry} ELSE inserted)
Guard(p, lab, tb) ==
    /\ p \in Procs
    /\ CASE lab = "ins" -> pc[p] = "idle" /\ tb \in Tables /\ Ev.loc \in Locs
         [] lab = "fl_check" -> pc[p] \in {"idle", "fl_check"}
         [] lab = "fl_table" -> pc[p] = "fl_table" /\ tb \in todo[p]
         [] OTHER -> lab \in FlushLabels /\ pc[p] = lab

TStart == /\ Ev.e = "start" /\ MReset(Ev.batch) /\ inserted' = {} /\ div' = FALSE
          /\ UNCHANGED <<left, racy, hist>>
TStep  == /\ Ev.e = "step" /\ Impl /\ ~div /\ Guard(Ev.p, Ev.l, Ev.tab)
          /\ \/ Ev.l = "ins" /\ Ins(Ev.p, Entry)
             \/ Ev.l = "fl_check" /\ FlCheck(Ev.p)
             \/ FlushStep(Ev.p, Ev.l, Ev.tab)
          /\ Seen /\ UNCHANGED <<left, racy, hist, div>>
TLeave == /\ Ev.e = "step" /\ Impl /\ ~div /\ ~Guard(Ev.p, Ev.l, Ev.tab)
          /\ div' = TRUE /\ Seen /\ UNCHANGED <<mvars, left, racy, hist>>
TSkip  == /\ Ev.e = "step" /\ (div \/ ~Impl)
          /\ Seen /\ UNCHANGED <<mvars, left, racy, hist, div>>
TPanic == /\ Ev.e = "panic" /\ div' = (div \/ (Impl /\ crashed # Ev.p))
          /\ UNCHANGED vars
SameDB == /\ \A t \in Tables : dbRows[t] = Ev.rows[t]
          /\ dbLoc = Ev.locs
TEnd   == /\ Ev.e = "end"
          /\ LET conf == /\ Impl /\ ~div
                         /\ IF Ev.crashed THEN crashed # "none"
                                          ELSE crashed = "none" /\ pc[Closer] = "closed" /\ SameDB
                 pers == ~Ev.crashed /\ Abs!Stored(inserted, Tables, Ev.rows, Ev.locs)
                 miss == IF Ev.crashed THEN {} ELSE Abs!Missing(inserted, Tables, Ev.rows)
                 dupl == IF Ev.crashed THEN {} ELSE Abs!Duplicated(inserted, Tables, Ev.rows)
                 held == IF Impl /\ ~div /\ crashed = "none" THEN Unflushed ELSE {}
             IN PrintT(<<"CASE", ToJson([run |-> Ev.run, conf |-> conf, persisted |-> pers, n |-> Cardinality(inserted),
                                         missing |-> miss, duplicated |-> dupl, unflushed |-> held])>>)
          /\ UNCHANGED <<vars, div>>
TNext == l <= TraceLen /\ l' = l + 1 /\ (TStart \/ TStep \/ TLeave \/ TSkip \/ TPanic \/ TEnd)
TSpec == TInit /\ [][TNext]_tvars
Mark == TraceMark(l)
(* while a run conforms, the model's own invariants are evaluated on the real run *)
ModelInv == (Impl /\ ~div) => (TypeOK /\ NeverTwice /\ LocInternOK /\ TxnOwner)
=============================================================================
