------------------------------ MODULE Recorder ------------------------------
(* C35 — datarecording.sqliteWriter, one action per stretch of code between two
   consecutive gates of hook H2 (verifGate labels in datarecorder.go).  The mutex is
   held EXACTLY where the code holds `mu`:

     InsertData   "ins"        Lock; append to table.entries; entryCount++; compare with
                               batchSize; Unlock                      (one critical section)
                               -> Flush() when the threshold is reached
     Flush        "fl_check"   read entryCount                        (NO lock)
                  "fl_begin"   BEGIN TRANSACTION on the single pooled connection; a second
                               BEGIN inside an open transaction fails -> mustExecute panics
                  "fl_table:T" next data table of the map iteration (any order): read
                               len(entries); skip if empty; otherwise take the range
                               snapshot of table.entries              (NO lock)
                               (the visit of the "location" map entry only reads a length
                               and continues; it is not a step of the model and the
                               harness lets it pass unlogged)
                  "fl_row"     insertEntryForTable: Lock; intern the location
                               (getLocationID: id = len(map)+1, append to the location
                               table's entries, entryCount++); INSERT; Unlock
                  "fl_clear"   table.entries = nil                    (NO lock)
                  "fl_loc"     flushLocationTable: snapshot + INSERT location rows (NO lock)
                  "fl_locclear" location entries = nil                (NO lock)
                  "fl_reset"   entryCount = 0                         (NO lock)
                  "fl_commit"  (deferred) COMMIT TRANSACTION
     Close        Flush (then index creation and DB.Close, which touch no shared state)

   LockScope = "code" is the repository as pinned.  LockScope = "fix" is the proposed
   repair (proposed_fixes/C35-flush-under-lock.diff): the same steps, but the mutex is
   taken by InsertData / Flush and kept until the flush they perform has committed.

   Processes: inserters (PerIns InsertData calls each, table and location chosen
   freely), explicit flushers (PerFl Flush calls), and Close after all of them have
   returned (the statement speaks of entries inserted before the recorder is closed).

   The statement (RecorderAbs) is checked as AllPersistedOnce / NoCrash / the
   refinement Abs!ASpec.  On LockScope = "code" TLC refutes AllPersistedOnce — that is
   hypothesis W9, which only a replay on the real recorder can confirm — and proves
   the weaker facts the code does guarantee (OnlyRacesHurt, NeverTwice, LocInternOK).   *)
EXTENDS Integers, Sequences, FiniteSets, TLC, Json

CONSTANTS InsSeq,      \* sequence of inserter names
          Flushers,    \* set of explicit-flusher names
          Closer,      \* name of the process that calls Close
          Tables,      \* data tables
          LocSeq,      \* location strings (a sequence, so that programs can be fixed)
          FreeLocs,    \* TRUE: every entry's location is chosen freely; FALSE: entry k gets LocSeq[k mod n]
          BatchSizes,  \* candidate batch thresholds (chosen in Init)
          PerIns,      \* InsertData calls per inserter
          PerFl,       \* Flush calls per explicit flusher
          LockScope    \* "code" | "fix"

Inserters == {InsSeq[i] : i \in DOMAIN InsSeq}
Locs == {LocSeq[i] : i \in DOMAIN LocSeq}
Procs == Inserters \cup Flushers \cup {Closer}
LocT == "location"
AllT == Tables \cup {LocT}

(* ready-made process lists for the cfg files (a cfg cannot spell a tuple) *)
Ins1 == <<"i1">>
Ins2 == <<"i1", "i2">>
Ins3 == <<"i1", "i2", "i3">>
Ins8 == <<"i1", "i2", "i3", "i4", "i5", "i6", "i7", "i8">>
Loc1 == <<"a">>
Loc2 == <<"a", "b">>
Loc3 == <<"a", "b", "c">>

VARIABLES pc,         \* process -> "idle" | "fl_check" | … | "closed" | "crashed"
          mu,         \* "free" or the process holding sqliteWriter.mu ACROSS steps (only in "fix")
          entries,    \* table -> table.entries (sequence of entries)
          locEntries, \* tables["location"].entries (sequence of <<lid, string>>)
          locInfo,    \* location string -> interned id, 0 = not interned
          count,      \* entryCount
          batch,      \* batchSize
          txn,        \* a transaction is open on the connection
          dbRows,     \* table -> rows in the database file, <<id, lid>> in rowid order
          dbLoc,      \* rows of the location table, <<lid, string>>
          todo,       \* process -> tables its Flush loop has not visited yet
          cur,        \* process -> table being flushed
          snap,       \* process -> rest of the range snapshot of cur's entries
          crashed,    \* "none" or the process whose goroutine panicked (the program dies)
          left,       \* process -> API calls still to make
          inserted,   \* entries whose InsertData has begun
          racy,       \* an InsertData or a Flush ran while another process was inside a flush
          hist        \* the schedule so far (not part of the VIEW)
mvars == <<pc, mu, entries, locEntries, locInfo, count, batch, txn, dbRows, dbLoc, todo, cur, snap, crashed>>
vars  == <<mvars, left, inserted, racy, hist>>
(* a panic ends the program: what the other goroutines were doing no longer matters *)
View  == IF crashed = "none" THEN <<mvars, left, inserted, racy>> ELSE <<crashed, batch, racy>>

Abs == INSTANCE RecorderAbs WITH ATables <- Tables, ains <- inserted,
          aclosed <- (pc[Closer] = "closed"),
          arows <- (IF pc[Closer] = "closed" THEN dbRows ELSE [t \in Tables |-> <<>>]),
          alocs <- (IF pc[Closer] = "closed" THEN dbLoc ELSE <<>>)

MInit(b) == /\ pc = [p \in Procs |-> "idle"] /\ mu = "free"
            /\ entries = [t \in Tables |-> <<>>] /\ locEntries = <<>>
            /\ locInfo = [s \in Locs |-> 0] /\ count = 0 /\ batch = b /\ txn = FALSE
            /\ dbRows = [t \in Tables |-> <<>>] /\ dbLoc = <<>>
            /\ todo = [p \in Procs |-> {}] /\ cur = [p \in Procs |-> LocT] /\ snap = [p \in Procs |-> <<>>]
            /\ crashed = "none"
(* the same as an action (a fresh recorder), for trace validation of many runs in one file *)
MReset(b) == /\ pc' = [p \in Procs |-> "idle"] /\ mu' = "free"
             /\ entries' = [t \in Tables |-> <<>>] /\ locEntries' = <<>>
             /\ locInfo' = [s \in Locs |-> 0] /\ count' = 0 /\ batch' = b /\ txn' = FALSE
             /\ dbRows' = [t \in Tables |-> <<>>] /\ dbLoc' = <<>>
             /\ todo' = [p \in Procs |-> {}] /\ cur' = [p \in Procs |-> LocT] /\ snap' = [p \in Procs |-> <<>>]
             /\ crashed' = "none"
Init == /\ \E b \in BatchSizes : MInit(b)
        /\ left = [p \in Procs |-> IF p \in Inserters THEN PerIns ELSE IF p \in Flushers THEN PerFl ELSE 1]
        /\ inserted = {} /\ racy = FALSE /\ hist = <<>>

Home(p) == IF p = Closer THEN "closed" ELSE "idle"
Fix == LockScope = "fix"
(* the mutex as seen between steps: in "code" no step ends with the mutex held *)
CanTake(p) == ~Fix \/ mu = "free"
Holds(p)   == ~Fix \/ mu = p
Keep(p)    == IF Fix THEN p ELSE "free"
AfterLoop(td) == IF td = {} THEN "fl_loc" ELSE "fl_table"
Goto(p, l) == pc' = [pc EXCEPT ![p] = l]

(* ---- InsertData *)
Ins(p, e) ==
    /\ pc[p] = "idle" /\ CanTake(p) /\ e.tab \in Tables
    /\ entries' = [entries EXCEPT ![e.tab] = Append(@, e)]
    /\ count' = count + 1
    /\ IF count + 1 >= batch
         THEN Goto(p, "fl_check") /\ mu' = Keep(p)      \* Unlock; Flush()   ("fix": flush with the lock held)
         ELSE Goto(p, "idle") /\ mu' = "free"
    /\ UNCHANGED <<locEntries, locInfo, batch, txn, dbRows, dbLoc, todo, cur, snap, crashed>>

(* ---- Flush: from "idle" it is an explicit Flush()/Close() call, from "fl_check" the call made by InsertData *)
FlCheck(p) ==
    /\ \/ pc[p] = "idle" /\ CanTake(p)
       \/ pc[p] = "fl_check" /\ Holds(p)
    /\ IF count = 0 THEN Goto(p, Home(p)) /\ mu' = "free"
                    ELSE Goto(p, "fl_begin") /\ mu' = Keep(p)
    /\ UNCHANGED <<entries, locEntries, locInfo, count, batch, txn, dbRows, dbLoc, todo, cur, snap, crashed>>

FlBegin(p) ==
    /\ pc[p] = "fl_begin" /\ Holds(p)
    /\ IF txn THEN /\ Goto(p, "crashed") /\ crashed' = p          \* "cannot start a transaction within a transaction"
                   /\ UNCHANGED <<txn, todo>>
              ELSE /\ txn' = TRUE /\ todo' = [todo EXCEPT ![p] = Tables] /\ Goto(p, "fl_table")
                   /\ UNCHANGED crashed
    /\ UNCHANGED <<mu, entries, locEntries, locInfo, count, batch, dbRows, dbLoc, cur, snap>>

FlTable(p, t) ==
    /\ pc[p] = "fl_table" /\ Holds(p) /\ t \in todo[p]
    /\ todo' = [todo EXCEPT ![p] = @ \ {t}]
    /\ IF entries[t] = <<>>
         THEN Goto(p, AfterLoop(todo[p] \ {t})) /\ UNCHANGED <<cur, snap>>
         ELSE Goto(p, "fl_row") /\ cur' = [cur EXCEPT ![p] = t] /\ snap' = [snap EXCEPT ![p] = entries[t]]
    /\ UNCHANGED <<mu, entries, locEntries, locInfo, count, batch, txn, dbRows, dbLoc, crashed>>

FlRow(p) ==
    /\ pc[p] = "fl_row" /\ Holds(p)
    /\ LET e == Head(snap[p])
           known == locInfo[e.loc] # 0
           lid == IF known THEN locInfo[e.loc] ELSE Cardinality({s \in Locs : locInfo[s] # 0}) + 1
       IN /\ locInfo' = [locInfo EXCEPT ![e.loc] = lid]
          /\ locEntries' = (IF known THEN locEntries ELSE Append(locEntries, <<lid, e.loc>>))
          /\ count' = (IF known THEN count ELSE count + 1)
          /\ dbRows' = [dbRows EXCEPT ![cur[p]] = Append(@, <<e.id, lid>>)]
    /\ snap' = [snap EXCEPT ![p] = Tail(@)]
    /\ Goto(p, IF Len(snap[p]) = 1 THEN "fl_clear" ELSE "fl_row")
    /\ UNCHANGED <<mu, entries, batch, txn, dbLoc, todo, cur, crashed>>

FlClear(p) ==
    /\ pc[p] = "fl_clear" /\ Holds(p)
    /\ entries' = [entries EXCEPT ![cur[p]] = <<>>]
    /\ Goto(p, AfterLoop(todo[p]))
    /\ UNCHANGED <<mu, locEntries, locInfo, count, batch, txn, dbRows, dbLoc, todo, cur, snap, crashed>>

FlLoc(p) ==
    /\ pc[p] = "fl_loc" /\ Holds(p)
    /\ IF locEntries = <<>> THEN Goto(p, "fl_reset") /\ UNCHANGED dbLoc
                            ELSE Goto(p, "fl_locclear") /\ dbLoc' = dbLoc \o locEntries
    /\ UNCHANGED <<mu, entries, locEntries, locInfo, count, batch, txn, dbRows, todo, cur, snap, crashed>>

FlLocClear(p) ==
    /\ pc[p] = "fl_locclear" /\ Holds(p)
    /\ locEntries' = <<>> /\ Goto(p, "fl_reset")
    /\ UNCHANGED <<mu, entries, locInfo, count, batch, txn, dbRows, dbLoc, todo, cur, snap, crashed>>

FlReset(p) ==
    /\ pc[p] = "fl_reset" /\ Holds(p)
    /\ count' = 0 /\ Goto(p, "fl_commit")
    /\ UNCHANGED <<mu, entries, locEntries, locInfo, batch, txn, dbRows, dbLoc, todo, cur, snap, crashed>>

FlCommit(p) ==
    /\ pc[p] = "fl_commit" /\ Holds(p)
    /\ IF txn THEN txn' = FALSE /\ Goto(p, Home(p)) /\ UNCHANGED crashed
              ELSE UNCHANGED txn /\ Goto(p, "crashed") /\ crashed' = p   \* "cannot commit - no transaction is active"
    /\ mu' = "free"
    /\ UNCHANGED <<entries, locEntries, locInfo, count, batch, dbRows, dbLoc, todo, cur, snap>>

(* a step of process p at gate label lab (table tb where the label carries one) *)
InFlushLoop(p) == pc[p] \in {"fl_table", "fl_row", "fl_clear", "fl_loc", "fl_locclear", "fl_reset"}
FlushStep(p, lab, tb) ==
    \/ lab = "fl_begin" /\ FlBegin(p)
    \/ lab = "fl_table" /\ FlTable(p, tb)
    \/ lab = "fl_row" /\ FlRow(p)
    \/ lab = "fl_clear" /\ FlClear(p)
    \/ lab = "fl_loc" /\ FlLoc(p)
    \/ lab = "fl_locclear" /\ FlLocClear(p)
    \/ lab = "fl_reset" /\ FlReset(p)
    \/ lab = "fl_commit" /\ FlCommit(p)
FlushLabels == {"fl_begin", "fl_table", "fl_row", "fl_clear", "fl_loc", "fl_locclear", "fl_reset", "fl_commit"}

-----------------------------------------------------------------------------
(* the closed system: programs, Close after everybody returned, schedule history *)
Alive == crashed = "none"
IdOf(p) == LET i == CHOOSE k \in DOMAIN InsSeq : InsSeq[k] = p IN (i - 1) * PerIns + (PerIns - left[p]) + 1
LocChoice(id) == IF FreeLocs THEN Locs ELSE {LocSeq[(id % Len(LocSeq)) + 1]}
OthersInFlush(p) == \E q \in Procs \ {p} : InFlushLoop(q)
OthersFlushing(p) == \E q \in Procs \ {p} : InFlushLoop(q) \/ pc[q] \in {"fl_begin", "fl_commit"}
Log(p, lab, tb) == hist' = Append(hist, [p |-> p, l |-> lab, t |-> tb])

DoIns(p) == /\ p \in Inserters /\ left[p] > 0
            /\ \E t \in Tables, s \in LocChoice(IdOf(p)) :
                 LET e == [id |-> IdOf(p), tab |-> t, loc |-> s] IN
                 /\ Ins(p, e) /\ inserted' = inserted \cup {e}
                 /\ hist' = Append(hist, [p |-> p, l |-> "ins", t |-> t, id |-> e.id, loc |-> s])
            /\ left' = [left EXCEPT ![p] = @ - 1]
            /\ racy' = (racy \/ OthersInFlush(p))
DoCall(p) == /\ pc[p] = "idle" /\ left[p] > 0
             /\ \/ p \in Flushers
                \/ p = Closer /\ \A q \in Procs \ {Closer} : pc[q] = "idle" /\ left[q] = 0
             /\ FlCheck(p) /\ left' = [left EXCEPT ![p] = @ - 1]
             /\ racy' = (racy \/ (count # 0 /\ OthersFlushing(p)))
             /\ Log(p, "fl_check", "") /\ UNCHANGED inserted
DoAuto(p) == /\ pc[p] = "fl_check" /\ FlCheck(p)
             /\ racy' = (racy \/ (count # 0 /\ OthersFlushing(p)))
             /\ Log(p, "fl_check", "") /\ UNCHANGED <<left, inserted>>
DoFlush(p) == /\ \E lab \in FlushLabels : \E tb \in (IF lab = "fl_table" THEN todo[p] ELSE {""}) :
                     FlushStep(p, lab, tb) /\ Log(p, lab, tb)
              /\ UNCHANGED <<left, inserted, racy>>

Done == pc[Closer] = "closed" \/ ~Alive
Next == \/ Alive /\ \E p \in Procs : DoIns(p) \/ DoCall(p) \/ DoAuto(p) \/ DoFlush(p)
        \/ Done /\ UNCHANGED vars
Spec == Init /\ [][Next]_vars /\ WF_vars(Next)

-----------------------------------------------------------------------------
TypeOK == /\ pc \in [Procs -> {"idle", "fl_check", "fl_begin", "fl_table", "fl_row", "fl_clear", "fl_loc",
                               "fl_locclear", "fl_reset", "fl_commit", "closed", "crashed"}]
          /\ mu \in Procs \cup {"free"} /\ count \in Nat /\ txn \in BOOLEAN
          /\ \A p \in Procs : todo[p] \subseteq AllT /\ cur[p] \in AllT
          /\ (~Fix => mu = "free")
(* ---- the statement *)
AllPersistedOnce == pc[Closer] = "closed" => Abs!Stored(inserted, Tables, dbRows, dbLoc)
NoCrash == Alive
Refines == Abs!ASpec          \* Recorder => RecorderAbs under the refinement mapping above
Terminates == <>Done
(* ---- what the pinned code does guarantee (all LockScopes) *)
(* nothing is lost, and nobody panics, unless an InsertData or a Flush overlapped another process's flush *)
OnlyRacesHurt == (Done /\ ~racy) => (Alive /\ Abs!Stored(inserted, Tables, dbRows, dbLoc))
(* one connection, one transaction at a time: an entry is never written twice *)
NeverTwice == \A t \in Tables : Cardinality({r[1] : r \in Abs!Range(dbRows[t])}) = Len(dbRows[t])
(* interning: ids are 1..n without gaps, every stored row's id is interned to its entry's string,
   a location row is buffered or stored exactly once *)
LocInternOK ==
    LET used == {s \in Locs : locInfo[s] # 0} IN
    /\ {locInfo[s] : s \in used} = 1..Cardinality(used)
    /\ \A t \in Tables : \A r \in Abs!Range(dbRows[t]) :
          \E e \in inserted : e.id = r[1] /\ e.tab = t /\ locInfo[e.loc] = r[2]
    /\ Abs!LocOneToOne(dbLoc)
    /\ (\A p \in Procs : pc[p] # "fl_locclear") =>
          /\ Abs!LocOneToOne(dbLoc \o locEntries)
          /\ {<<locInfo[s], s>> : s \in used} = Abs!Range(dbLoc \o locEntries)
(* in "fix" a process inside a flush holds the mutex *)
FlushHoldsLock == Fix => \A p \in Procs : (pc[p] \notin {"idle", "closed", "crashed"}) => mu = p
TxnOwner == txn => \E p \in Procs : InFlushLoop(p) \/ pc[p] = "fl_commit"

(* ---- behaviour emission: one schedule per distinct final state (hist is outside the VIEW) *)
Unflushed == UNION {{e.id : e \in Abs!Range(entries[t])} : t \in Tables}
Outcome == IF ~Alive THEN "panic"
           ELSE IF Abs!Stored(inserted, Tables, dbRows, dbLoc) THEN "ok"
           ELSE IF Abs!Duplicated(inserted, Tables, dbRows) # {} THEN "duplicated"
           ELSE IF Abs!Missing(inserted, Tables, dbRows) \ Unflushed # {} THEN "dropped"
           ELSE IF Abs!Missing(inserted, Tables, dbRows) # {} THEN "unflushed_at_close"
           ELSE "location"
EmitCase == Done => PrintT(<<"CASE", ToJson([batch |-> batch, sched |-> hist, outcome |-> Outcome, racy |-> racy,
                                             rows |-> dbRows, locs |-> dbLoc])>>)
=============================================================================
