------------------------------ MODULE Recorder ------------------------------
(* C35 — datarecording.sqliteWriter, one action per stretch of code between two
   consecutive gates of hook H2 (verifGate labels in datarecorder.go).  The mutex is
   held EXACTLY where the code holds `mu`:

     InsertData   "ins"        Lock; append to table.entries; entryCount++; compare with
                               batchSize; Unlock                      (one critical section)
                               -> Flush() when the threshold is reached
     Flush        "fl_check"   read entryCount                        (NO lock)
                  "fl_begin"   BEGIN TRANSACTION on the single pooled connection; a second
                               BEGIN inside an open transaction fails -> mustExecute panics
                  "fl_table:T" next data table of the map iteration (any order): read
                               len(entries); skip if empty; otherwise take the range
                               snapshot of table.entries              (NO lock)
                               (the visit of the "location" map entry only reads a length
                               and continues; it is not a step of the model and the
                               harness lets it pass unlogged)
                  "fl_row"     insertEntryForTable: Lock; intern the location
                               (getLocationID: id = len(map)+1, append to the location
                               table's entries, entryCount++); INSERT; Unlock
                  "fl_clear"   table.entries = nil                    (NO lock)
                  "fl_loc"     flushLocationTable: snapshot + INSERT location rows (NO lock)
                  "fl_locclear" location entries = nil                (NO lock)
                  "fl_reset"   entryCount = 0                         (NO lock)
                  "fl_commit"  (deferred) COMMIT TRANSACTION
     Close        Flush (then index creation and DB.Close, which touch no shared state)

   LockScope = "fix" is the repository as it is now (commit "data recorder holds its
   mutex across the whole flush"): the same gate-to-gate steps, but InsertData and Flush
   take the mutex first and keep it until the flush they perform has committed.  A
   goroutine let through the "ins" gate, or through the harness's own "call" gate in
   front of Flush()/Close(), then WAITS for the mutex ("ins_wait"/"fl_wait"); taking it
   is a silent step that happens as soon as the mutex is free and before the controller
   lets anybody else through a gate (Quiet) — exactly what the gated harness does.
   LockScope = "code" is the repository before that commit (Flush without the mutex).
   It is kept as a negative control only: TLC must refute AllPersistedOnce on it (W9).

   CreateTable takes the mutex for the whole call.  Tables in LateTables do not exist at
   the start: an inserter creates them ("create", a harness gate in front of the call)
   at any moment — after earlier inserts and flushes, while another goroutine flushes —
   and only then can entries go into them.  Every table has a location column, so the
   location dictionary is shared by tables created at different times.

   Processes: inserters (PerIns InsertData calls each, table and location chosen
   freely), explicit flushers (PerFl Flush calls), and Close after all of them have
   returned (the statement speaks of entries inserted before the recorder is closed).

   The statement (RecorderAbs) is checked as AllPersistedOnce / NoCrash / termination /
   the refinement Abs!ASpec.  On LockScope = "code" TLC refutes AllPersistedOnce (W9,
   confirmed on the real recorder before the repair) and proves the weaker facts that
   code did guarantee (OnlyRacesHurt, NeverTwice, LocInternOK).                        *)
EXTENDS Integers, Sequences, FiniteSets, TLC, Json

CONSTANTS InsSeq,      \* sequence of inserter names
          Flushers,    \* set of explicit-flusher names
          Closer,      \* name of the process that calls Close
          Tables,      \* data tables
          LocSeq,      \* location strings (a sequence, so that programs can be fixed)
          FreeLocs,    \* TRUE: every entry's location is chosen freely; FALSE: entry k gets LocSeq[k mod n]
          BatchSizes,  \* candidate batch thresholds (chosen in Init)
          PerIns,      \* InsertData calls per inserter
          PerFl,       \* Flush calls per explicit flusher
          LateTables,  \* "fix": tables that do not exist at the start; an inserter creates them (CreateTable) at any moment
          LockScope,   \* "code" | "fix"
          SigMode      \* "fix" only, what tells two schedules apart besides their final state: "none" |
                       \* "label" (where the holder's flush was when a call was let in to wait) | "proc" (and whose call)

Inserters == {InsSeq[i] : i \in DOMAIN InsSeq}
Locs == {LocSeq[i] : i \in DOMAIN LocSeq}
Procs == Inserters \cup Flushers \cup {Closer}
LocT == "location"
AllT == Tables \cup {LocT}

(* ready-made process lists for the cfg files (a cfg cannot spell a tuple) *)
Ins1 == <<"i1">>
Ins2 == <<"i1", "i2">>
Ins3 == <<"i1", "i2", "i3">>
Ins8 == <<"i1", "i2", "i3", "i4", "i5", "i6", "i7", "i8">>
Loc1 == <<"a">>
Loc2 == <<"a", "b">>
Loc3 == <<"a", "b", "c">>

VARIABLES pc,         \* process -> "idle" | "fl_check" | … | "closed" | "crashed"
          mu,         \* "free" or the process holding sqliteWriter.mu ACROSS steps (only in "fix")
          entries,    \* table -> table.entries (sequence of entries)
          locEntries, \* tables["location"].entries (sequence of <<lid, string>>)
          locInfo,    \* location string -> interned id, 0 = not interned
          count,      \* entryCount
          batch,      \* batchSize
          txn,        \* a transaction is open on the connection
          dbRows,     \* table -> rows in the database file, <<id, lid>> in rowid order
          dbLoc,      \* rows of the location table, <<lid, string>>
          todo,       \* process -> tables its Flush loop has not visited yet
          cur,        \* process -> table being flushed
          snap,       \* process -> rest of the range snapshot of cur's entries
          crashed,    \* "none" or the process whose goroutine panicked (the program dies)
          pend,       \* process -> entry its InsertData is about to append ("fix": while it waits for the mutex)
          made,       \* tables that exist (CreateTable has returned)
          left,       \* process -> API calls still to make
          inserted,   \* entries whose InsertData has begun
          racy,       \* an InsertData or a Flush ran while another process was inside a flush
          sig,        \* "fix": {<<p, where the holder was>>} for every call let through a gate while the mutex was held
          hist        \* the schedule so far (not part of the VIEW)
mvars == <<pc, mu, entries, locEntries, locInfo, count, batch, txn, dbRows, dbLoc, todo, cur, snap, crashed, pend, made>>
vars  == <<mvars, left, inserted, racy, sig, hist>>
(* a panic ends the program: what the other goroutines were doing no longer matters *)
View  == IF crashed = "none" THEN <<mvars, left, inserted, racy, sig>> ELSE <<crashed, batch, racy>>

Abs == INSTANCE RecorderAbs WITH ATables <- Tables, ains <- inserted,
          aclosed <- (pc[Closer] = "closed"),
          arows <- (IF pc[Closer] = "closed" THEN dbRows ELSE [t \in Tables |-> <<>>]),
          alocs <- (IF pc[Closer] = "closed" THEN dbLoc ELSE <<>>)

NoEntry == [id |-> 0, tab |-> "", loc |-> ""]
MInit(b, tabs) == /\ pc = [p \in Procs |-> "idle"] /\ mu = "free"
            /\ entries = [t \in Tables |-> <<>>] /\ locEntries = <<>>
            /\ locInfo = [s \in Locs |-> 0] /\ count = 0 /\ batch = b /\ txn = FALSE
            /\ dbRows = [t \in Tables |-> <<>>] /\ dbLoc = <<>>
            /\ todo = [p \in Procs |-> {}] /\ cur = [p \in Procs |-> LocT] /\ snap = [p \in Procs |-> <<>>]
            /\ crashed = "none" /\ pend = [p \in Procs |-> NoEntry] /\ made = tabs
(* the same as an action (a fresh recorder), for trace validation of many runs in one file *)
MReset(b, tabs) == /\ pc' = [p \in Procs |-> "idle"] /\ mu' = "free"
             /\ entries' = [t \in Tables |-> <<>>] /\ locEntries' = <<>>
             /\ locInfo' = [s \in Locs |-> 0] /\ count' = 0 /\ batch' = b /\ txn' = FALSE
             /\ dbRows' = [t \in Tables |-> <<>>] /\ dbLoc' = <<>>
             /\ todo' = [p \in Procs |-> {}] /\ cur' = [p \in Procs |-> LocT] /\ snap' = [p \in Procs |-> <<>>]
             /\ crashed' = "none" /\ pend' = [p \in Procs |-> NoEntry] /\ made' = tabs
InitTables == IF LockScope = "fix" THEN Tables \ LateTables ELSE Tables
Init == /\ \E b \in BatchSizes : MInit(b, InitTables)
        /\ left = [p \in Procs |-> IF p \in Inserters THEN PerIns ELSE IF p \in Flushers THEN PerFl ELSE 1]
        /\ inserted = {} /\ racy = FALSE /\ sig = {} /\ hist = <<>>

Home(p) == IF p = Closer THEN "closed" ELSE "idle"
Fix == LockScope = "fix"
(* the mutex as seen between steps: in "code" no step ends with the mutex held *)
Holds(p)   == ~Fix \/ mu = p
AfterLoop(td) == IF td = {} THEN "fl_loc" ELSE "fl_table"
Goto(p, l) == pc' = [pc EXCEPT ![p] = l]

(* ---- InsertData, "code": the whole critical section is one step *)
Ins(p, e) ==
    /\ ~Fix /\ pc[p] = "idle" /\ e.tab \in made
    /\ entries' = [entries EXCEPT ![e.tab] = Append(@, e)]
    /\ count' = count + 1
    /\ Goto(p, IF count + 1 >= batch THEN "fl_check" ELSE "idle")      \* Unlock; Flush()
    /\ UNCHANGED <<mu, locEntries, locInfo, batch, txn, dbRows, dbLoc, todo, cur, snap, crashed, pend, made>>

(* ---- "fix": through the gate, wait for the mutex, then the critical section (and the flush) with the mutex held *)
RelIns(p, e) ==
    /\ Fix /\ pc[p] = "idle" /\ e.tab \in made
    /\ Goto(p, "ins_wait") /\ pend' = [pend EXCEPT ![p] = e]
    /\ UNCHANGED <<mu, entries, locEntries, locInfo, count, batch, txn, dbRows, dbLoc, todo, cur, snap, crashed, made>>
AcqIns(p) ==
    /\ Fix /\ pc[p] = "ins_wait" /\ mu = "free"
    /\ entries' = [entries EXCEPT ![pend[p].tab] = Append(@, pend[p])]
    /\ count' = count + 1
    /\ IF count + 1 >= batch THEN Goto(p, "fl_check") /\ mu' = p        \* flushLocked(), parked at its first gate
                             ELSE Goto(p, "idle") /\ mu' = "free"
    /\ UNCHANGED <<locEntries, locInfo, batch, txn, dbRows, dbLoc, todo, cur, snap, crashed, pend, made>>
(* Flush() / Close(): the harness gate "call", then Lock *)
Call(p) ==
    /\ Fix /\ pc[p] = "idle" /\ Goto(p, "fl_wait")
    /\ UNCHANGED <<mu, entries, locEntries, locInfo, count, batch, txn, dbRows, dbLoc, todo, cur, snap, crashed, pend, made>>
AcqFl(p) ==
    /\ Fix /\ pc[p] = "fl_wait" /\ mu = "free" /\ mu' = p /\ Goto(p, "fl_check")
    /\ UNCHANGED <<entries, locEntries, locInfo, count, batch, txn, dbRows, dbLoc, todo, cur, snap, crashed, pend, made>>
(* CreateTable(t, sample): through the harness gate "create", wait for the mutex, then the whole call under the mutex
   (CREATE TABLE, the location table with the first table that has a location column, the prepared statement).
   Nothing the statement can see changes but that the table now exists: in particular the interning map and the
   ids handed out so far stay as they are — a recorder that forgot them would no longer conform. *)
Making == {pend[q].tab : q \in {r \in Procs : pc[r] = "cr_wait"}}
RelCreate(p, t) ==
    /\ Fix /\ pc[p] = "idle" /\ t \in Tables \ (made \cup Making)
    /\ Goto(p, "cr_wait") /\ pend' = [pend EXCEPT ![p] = [id |-> 0, tab |-> t, loc |-> ""]]
    /\ UNCHANGED <<mu, entries, locEntries, locInfo, count, batch, txn, dbRows, dbLoc, todo, cur, snap, crashed, made>>
AcqCreate(p) ==
    /\ Fix /\ pc[p] = "cr_wait" /\ mu = "free"
    /\ made' = made \cup {pend[p].tab} /\ Goto(p, "idle")
    /\ UNCHANGED <<mu, entries, locEntries, locInfo, count, batch, txn, dbRows, dbLoc, todo, cur, snap, crashed, pend>>
(* nobody can take the mutex right now: every goroutine is parked at a gate, done, or blocked *)
Quiet == ~\E p \in Procs : pc[p] \in {"ins_wait", "fl_wait", "cr_wait"} /\ mu = "free"

(* ---- Flush. "code": from "idle" it is an explicit Flush()/Close() call, from "fl_check" the call made by
   InsertData.  "fix": always from "fl_check", with the mutex *)
FlCheck(p) ==
    /\ IF Fix THEN pc[p] = "fl_check" /\ mu = p ELSE pc[p] \in {"idle", "fl_check"}
    /\ IF count = 0 THEN Goto(p, Home(p)) /\ mu' = "free"
                    ELSE Goto(p, "fl_begin") /\ mu' = mu
    /\ UNCHANGED <<entries, locEntries, locInfo, count, batch, txn, dbRows, dbLoc, todo, cur, snap, crashed, pend, made>>

FlBegin(p) ==
    /\ pc[p] = "fl_begin" /\ Holds(p)
    /\ IF txn THEN /\ Goto(p, "crashed") /\ crashed' = p          \* "cannot start a transaction within a transaction"
                   /\ UNCHANGED <<txn, todo>>
              ELSE /\ txn' = TRUE /\ todo' = [todo EXCEPT ![p] = made] /\ Goto(p, "fl_table")
                   /\ UNCHANGED crashed
    /\ UNCHANGED <<mu, entries, locEntries, locInfo, count, batch, dbRows, dbLoc, cur, snap, pend, made>>

FlTable(p, t) ==
    /\ pc[p] = "fl_table" /\ Holds(p) /\ t \in todo[p]
    /\ todo' = [todo EXCEPT ![p] = @ \ {t}]
    /\ IF entries[t] = <<>>
         THEN Goto(p, AfterLoop(todo[p] \ {t})) /\ UNCHANGED <<cur, snap>>
         ELSE Goto(p, "fl_row") /\ cur' = [cur EXCEPT ![p] = t] /\ snap' = [snap EXCEPT ![p] = entries[t]]
    /\ UNCHANGED <<mu, entries, locEntries, locInfo, count, batch, txn, dbRows, dbLoc, crashed, pend, made>>

FlRow(p) ==
    /\ pc[p] = "fl_row" /\ Holds(p)
    /\ LET e == Head(snap[p])
           known == locInfo[e.loc] # 0
           lid == IF known THEN locInfo[e.loc] ELSE Cardinality({s \in Locs : locInfo[s] # 0}) + 1
       IN /\ locInfo' = [locInfo EXCEPT ![e.loc] = lid]
          /\ locEntries' = (IF known THEN locEntries ELSE Append(locEntries, <<lid, e.loc>>))
          /\ count' = (IF known THEN count ELSE count + 1)
          /\ dbRows' = [dbRows EXCEPT ![cur[p]] = Append(@, <<e.id, lid>>)]
    /\ snap' = [snap EXCEPT ![p] = Tail(@)]
    /\ Goto(p, IF Len(snap[p]) = 1 THEN "fl_clear" ELSE "fl_row")
    /\ UNCHANGED <<mu, entries, batch, txn, dbLoc, todo, cur, crashed, pend, made>>

FlClear(p) ==
    /\ pc[p] = "fl_clear" /\ Holds(p)
    /\ entries' = [entries EXCEPT ![cur[p]] = <<>>]
    /\ Goto(p, AfterLoop(todo[p]))
    /\ UNCHANGED <<mu, locEntries, locInfo, count, batch, txn, dbRows, dbLoc, todo, cur, snap, crashed, pend, made>>

FlLoc(p) ==
    /\ pc[p] = "fl_loc" /\ Holds(p)
    /\ IF locEntries = <<>> THEN Goto(p, "fl_reset") /\ UNCHANGED dbLoc
                            ELSE Goto(p, "fl_locclear") /\ dbLoc' = dbLoc \o locEntries
    /\ UNCHANGED <<mu, entries, locEntries, locInfo, count, batch, txn, dbRows, todo, cur, snap, crashed, pend, made>>

FlLocClear(p) ==
    /\ pc[p] = "fl_locclear" /\ Holds(p)
    /\ locEntries' = <<>> /\ Goto(p, "fl_reset")
    /\ UNCHANGED <<mu, entries, locInfo, count, batch, txn, dbRows, dbLoc, todo, cur, snap, crashed, pend, made>>

FlReset(p) ==
    /\ pc[p] = "fl_reset" /\ Holds(p)
    /\ count' = 0 /\ Goto(p, "fl_commit")
    /\ UNCHANGED <<mu, entries, locEntries, locInfo, batch, txn, dbRows, dbLoc, todo, cur, snap, crashed, pend, made>>

FlCommit(p) ==
    /\ pc[p] = "fl_commit" /\ Holds(p)
    /\ IF txn THEN txn' = FALSE /\ Goto(p, Home(p)) /\ UNCHANGED crashed
              ELSE UNCHANGED txn /\ Goto(p, "crashed") /\ crashed' = p   \* "cannot commit - no transaction is active"
    /\ mu' = "free"
    /\ UNCHANGED <<entries, locEntries, locInfo, count, batch, dbRows, dbLoc, todo, cur, snap, pend, made>>

(* a step of process p at gate label lab (table tb where the label carries one) *)
InFlushLoop(p) == pc[p] \in {"fl_table", "fl_row", "fl_clear", "fl_loc", "fl_locclear", "fl_reset"}
FlushStep(p, lab, tb) ==
    \/ lab = "fl_begin" /\ FlBegin(p)
    \/ lab = "fl_table" /\ FlTable(p, tb)
    \/ lab = "fl_row" /\ FlRow(p)
    \/ lab = "fl_clear" /\ FlClear(p)
    \/ lab = "fl_loc" /\ FlLoc(p)
    \/ lab = "fl_locclear" /\ FlLocClear(p)
    \/ lab = "fl_reset" /\ FlReset(p)
    \/ lab = "fl_commit" /\ FlCommit(p)
FlushLabels == {"fl_begin", "fl_table", "fl_row", "fl_clear", "fl_loc", "fl_locclear", "fl_reset", "fl_commit"}

-----------------------------------------------------------------------------
(* the closed system: programs, Close after everybody returned, schedule history *)
Alive == crashed = "none"
IdOf(p) == LET i == CHOOSE k \in DOMAIN InsSeq : InsSeq[k] = p IN (i - 1) * PerIns + (PerIns - left[p]) + 1
LocChoice(id) == IF FreeLocs THEN Locs ELSE {LocSeq[(id % Len(LocSeq)) + 1]}
OthersInFlush(p) == \E q \in Procs \ {p} : InFlushLoop(q)
OthersFlushing(p) == \E q \in Procs \ {p} : InFlushLoop(q) \/ pc[q] \in {"fl_begin", "fl_commit"}
Log(p, lab, tb) == hist' = Append(hist, [p |-> p, l |-> lab, t |-> tb])

HolderAt(p) == IF mu = "free" \/ SigMode = "none" THEN {}
               ELSE IF SigMode = "label" THEN {pc[mu]} ELSE {<<p, pc[mu]>>}
AllReturned == \A q \in Procs \ {Closer} : pc[q] = "idle" /\ left[q] = 0
NewEntry(p, t, s) == [id |-> IdOf(p), tab |-> t, loc |-> s]

(* "code" *)
DoIns(p) == /\ p \in Inserters /\ left[p] > 0
            /\ \E t \in made, s \in LocChoice(IdOf(p)) :
                 LET e == NewEntry(p, t, s) IN
                 /\ Ins(p, e) /\ inserted' = inserted \cup {e}
                 /\ hist' = Append(hist, [p |-> p, l |-> "ins", t |-> t, id |-> e.id, loc |-> s])
            /\ left' = [left EXCEPT ![p] = @ - 1]
            /\ racy' = (racy \/ OthersInFlush(p)) /\ UNCHANGED sig
DoCall(p) == /\ ~Fix /\ pc[p] = "idle" /\ left[p] > 0
             /\ (p \in Flushers \/ (p = Closer /\ AllReturned))
             /\ FlCheck(p) /\ left' = [left EXCEPT ![p] = @ - 1]
             /\ racy' = (racy \/ (count # 0 /\ OthersFlushing(p)))
             /\ Log(p, "fl_check", "") /\ UNCHANGED <<inserted, sig>>
DoAuto(p) == /\ pc[p] = "fl_check" /\ FlCheck(p)
             /\ racy' = (racy \/ (count # 0 /\ OthersFlushing(p)))
             /\ Log(p, "fl_check", "") /\ UNCHANGED <<left, inserted, sig>>
DoFlush(p) == /\ \E lab \in FlushLabels : \E tb \in (IF lab = "fl_table" THEN todo[p] ELSE {""}) :
                     FlushStep(p, lab, tb) /\ Log(p, lab, tb)
              /\ UNCHANGED <<left, inserted, racy, sig>>
(* "fix": gate passages wait for Quiet; taking the mutex is silent *)
FIns(p) == /\ p \in Inserters /\ left[p] > 0
           /\ \E t \in made, s \in LocChoice(IdOf(p)) :
                LET e == NewEntry(p, t, s) IN
                /\ RelIns(p, e) /\ inserted' = inserted \cup {e}
                /\ hist' = Append(hist, [p |-> p, l |-> "ins", t |-> t, id |-> e.id, loc |-> s])
           /\ left' = [left EXCEPT ![p] = @ - 1]
           /\ sig' = sig \cup HolderAt(p) /\ UNCHANGED racy
FCall(p) == /\ left[p] > 0 /\ (p \in Flushers \/ (p = Closer /\ AllReturned))
            /\ Call(p) /\ left' = [left EXCEPT ![p] = @ - 1] /\ Log(p, "call", "")
            /\ sig' = sig \cup HolderAt(p) /\ UNCHANGED <<inserted, racy>>
FCreate(p) == /\ p \in Inserters /\ left[p] > 0
              /\ \E t \in LateTables : RelCreate(p, t) /\ Log(p, "create", t)
              /\ sig' = sig \cup HolderAt(p) /\ UNCHANGED <<left, inserted, racy>>
FSilent(p) == (AcqIns(p) \/ AcqFl(p) \/ AcqCreate(p)) /\ UNCHANGED <<left, inserted, racy, sig, hist>>

Done == pc[Closer] = "closed" \/ ~Alive
Next == \/ ~Fix /\ Alive /\ \E p \in Procs : DoIns(p) \/ DoCall(p) \/ DoAuto(p) \/ DoFlush(p)
        \/ Fix /\ Alive /\ Quiet /\ \E p \in Procs : FIns(p) \/ FCreate(p) \/ FCall(p) \/ DoAuto(p) \/ DoFlush(p)
        \/ Fix /\ Alive /\ \E p \in Procs : FSilent(p)
        \/ Done /\ UNCHANGED vars
Spec == Init /\ [][Next]_vars /\ WF_vars(Next)

-----------------------------------------------------------------------------
TypeOK == /\ pc \in [Procs -> {"idle", "fl_check", "fl_begin", "fl_table", "fl_row", "fl_clear", "fl_loc",
                               "fl_locclear", "fl_reset", "fl_commit", "closed", "crashed", "ins_wait", "fl_wait", "cr_wait"}]
          /\ mu \in Procs \cup {"free"} /\ count \in Nat /\ txn \in BOOLEAN
          /\ \A p \in Procs : todo[p] \subseteq AllT /\ cur[p] \in AllT
          /\ (~Fix => mu = "free") /\ made \subseteq Tables
          /\ \A t \in Tables \ made : entries[t] = <<>> /\ dbRows[t] = <<>>
(* ---- the statement *)
AllPersistedOnce == pc[Closer] = "closed" => Abs!Stored(inserted, Tables, dbRows, dbLoc)
NoCrash == Alive
Refines == Abs!ASpec          \* Recorder => RecorderAbs under the refinement mapping above
Terminates == <>Done
(* ---- what the pinned code does guarantee (all LockScopes) *)
(* nothing is lost, and nobody panics, unless an InsertData or a Flush overlapped another process's flush *)
OnlyRacesHurt == (Done /\ ~racy) => (Alive /\ Abs!Stored(inserted, Tables, dbRows, dbLoc))
(* one connection, one transaction at a time: an entry is never written twice *)
NeverTwice == \A t \in Tables : Cardinality({r[1] : r \in Abs!Range(dbRows[t])}) = Len(dbRows[t])
(* interning: ids are 1..n without gaps, every stored row's id is interned to its entry's string,
   a location row is buffered or stored exactly once *)
LocInternOK ==
    LET used == {s \in Locs : locInfo[s] # 0} IN
    /\ {locInfo[s] : s \in used} = 1..Cardinality(used)
    /\ \A t \in Tables : \A r \in Abs!Range(dbRows[t]) :
          \E e \in inserted : e.id = r[1] /\ e.tab = t /\ locInfo[e.loc] = r[2]
    /\ Abs!LocOneToOne(dbLoc)
    /\ (\A p \in Procs : pc[p] # "fl_locclear") =>
          /\ Abs!LocOneToOne(dbLoc \o locEntries)
          /\ {<<locInfo[s], s>> : s \in used} = Abs!Range(dbLoc \o locEntries)
(* in "fix" a process inside a flush holds the mutex *)
FlushHoldsLock == Fix => /\ \A p \in Procs : (pc[p] \notin {"idle", "closed", "crashed", "ins_wait", "fl_wait", "cr_wait"}) => mu = p
                         /\ (mu # "free" => pc[mu] \notin {"idle", "closed", "crashed", "ins_wait", "fl_wait", "cr_wait"})
TxnOwner == txn => \E p \in Procs : InFlushLoop(p) \/ pc[p] = "fl_commit"

(* ---- behaviour emission: one schedule per distinct final state (hist is outside the VIEW) *)
Unflushed == UNION {{e.id : e \in Abs!Range(entries[t])} : t \in Tables}
Outcome == IF ~Alive THEN "panic"
           ELSE IF Abs!Stored(inserted, Tables, dbRows, dbLoc) THEN "ok"
           ELSE IF Abs!Duplicated(inserted, Tables, dbRows) # {} THEN "duplicated"
           ELSE IF Abs!Missing(inserted, Tables, dbRows) \ Unflushed # {} THEN "dropped"
           ELSE IF Abs!Missing(inserted, Tables, dbRows) # {} THEN "unflushed_at_close"
           ELSE "location"
EmitCase == Done => PrintT(<<"CASE", ToJson([batch |-> batch, init |-> InitTables, sched |-> hist, outcome |-> Outcome, waits |-> Cardinality(sig),
                                             rows |-> dbRows, locs |-> dbLoc])>>)
=============================================================================
