SPECIFICATION TSpec
CONSTANTS
  StrictOrder = TRUE
  StrictPause = FALSE
INVARIANT OneInstant
CONSTRAINT Mark
POSTCONDITION TraceAccepted
CHECK_DEADLOCK FALSE
