SPECIFICATION Spec
CONSTANTS
  NQ = 2
  MaxEvents = 5
  MaxRoots = 2
  MaxDelay = 1
  MaxKids = 2
  Pauses = 1
INVARIANTS ExactlyOnce Quiescent DoneMeansAll NoTimeTravel
PROPERTIES StartOrderRelaxed NoBeginWhilePaused AllHandled
