SPECIFICATION Spec
CONSTANTS NEvents = 3
  Pauses = 3
PROPERTY EventuallyDone
