SPECIFICATION Spec
CONSTANTS NEvents = 3
  Pauses = 3
  DispatchLock = TRUE
INVARIANT Quiescent
PROPERTIES NoStartWhilePaused EventuallyDone PauseReturns
