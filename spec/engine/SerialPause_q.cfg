SPECIFICATION Spec
CONSTANTS NEvents = 3
  Pauses = 3
  DispatchLock = TRUE
  ContinueLock = TRUE
INVARIANTS Quiescent NoLostWakeup
PROPERTIES NoStartWhilePaused EventuallyDone PauseReturns
