--------------------------- MODULE EngineTrace ---------------------------
(* B2 for C01/C02: a trace recorded from the real timing.SerialEngine (Schedule calls,
   Run/RunUntil calls and returns, handler start/end seen at the engine hooks) is a
   behaviour of Engine.tla. Start is deterministic in the specification, so binding
   it to the logged event id decides the order; every invariant of Engine is
   evaluated at every step.                                                     *)
EXTENDS Engine, TraceCommon
VARIABLE l
tvars == <<vars, l>>
Ev == Trace[l]
Adv == l' = l + 1

TInit == Init /\ l = 1 /\ TraceMarkInit
TSched == /\ Ev.e = "sched" /\ Ev.id = nextId
          /\ IF cur = 0 THEN ExtSchedule(Ev.t, Ev.sec) ELSE (Ev.t >= time /\ Sched(Ev.t - time, Ev.sec))
TCall  == Ev.e = "call" /\ Call(Ev.b)
TStart == Ev.e = "start" /\ \E e \in {x \in pending : x.id = Ev.id} : StartE(e) /\ time' = Ev.t
TEnd   == Ev.e = "end" /\ End
TRet   == /\ Ev.e = "ret" /\ Return /\ time = Ev.time
          /\ Cardinality({e \in pending : ~e.sec}) = Ev.np
          /\ Cardinality({e \in pending : e.sec}) = Ev.ns
(* next program: start over *)
TReset == /\ Ev.e = "reset" /\ mode \in {"done", "idle", "setup"}
          /\ time' = 0 /\ pending' = {} /\ nextId' = 1 /\ mode' = "setup" /\ bound' = 0
          /\ cur' = 0 /\ kids' = 0 /\ ncalls' = 0
TNext == l <= TraceLen /\ Adv /\ (TSched \/ TCall \/ TStart \/ TEnd \/ TRet \/ TReset)
TSpec == TInit /\ [][TNext]_tvars
Mark == TraceMark(l)
===========================================================================
