SPECIFICATION Spec
CONSTANTS
  Callers = {1, 2, 3}
  MaxId = 7
VIEW View
ACTION_CONSTRAINT Emit
INVARIANT AllDistinctNonZero
INVARIANT SequentialFromOne
INVARIANT RestoreContinues
INVARIANT CheckpointsFaithful
PROPERTY StepShape
CHECK_DEADLOCK FALSE
