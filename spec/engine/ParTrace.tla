------------------------------ MODULE ParTrace ------------------------------
(* B2/B3 for C04 and C05: a log recorded from a real engine (serial or parallel) —
   Schedule calls, handler begin/end, Pause return, Continue call, Run return,
   ordered by one mutex-protected sequence — must be a behaviour of the abstract
   engine the statements describe:
     begin(e)   only if e is pending, nothing with an earlier time is unfinished,
                a secondary only if no primary of its instant is unfinished, and the
                engine is not paused;
     pause_ret  only if no handler is running (StrictPause);
     ret        only if nothing is pending or running (every event handled once).
   StrictOrder = FALSE tolerates exactly the W18 class (a pending primary that was
   scheduled by a secondary of the same instant).                              *)
EXTENDS Integers, FiniteSets, Sequences, TLC, TraceCommon
CONSTANTS StrictOrder, StrictPause
VARIABLES pend, running, paused, grace, seen, l
tvars == <<pend, running, paused, grace, seen, l>>
Ev == Trace[l]

TInit == pend = {} /\ running = {} /\ paused = FALSE /\ grace = 0 /\ seen = {} /\ l = 1 /\ TraceMarkInit

Unfinished == pend \cup running
BeginOK(e) ==
    /\ \A f \in Unfinished \ {e} : f.t >= e.t
    /\ e.sec => \A f \in Unfinished : (~f.sec /\ f.t <= e.t) => (~StrictOrder /\ f.bySec /\ f.byT = e.t)

TSched == /\ Ev.e = "sched" /\ Ev.id \notin seen
          /\ pend' = pend \cup {[id |-> Ev.id, t |-> Ev.t, sec |-> Ev.sec, byT |-> Ev.byT, bySec |-> Ev.bySec]}
          /\ seen' = seen \cup {Ev.id}
          /\ UNCHANGED <<running, paused, grace>>
TStart == /\ Ev.e = "start" /\ (~paused \/ grace > 0)
          /\ grace' = 0
          /\ \E e \in {x \in pend : x.id = Ev.id} :
               /\ BeginOK(e)
               /\ pend' = pend \ {e} /\ running' = running \cup {e}
          /\ UNCHANGED <<paused, seen>>
TEnd   == /\ Ev.e = "end"
          /\ \E e \in {x \in running : x.id = Ev.id} : running' = running \ {e}
          /\ UNCHANGED <<pend, paused, grace, seen>>
(* StrictPause = FALSE tolerates exactly the W11 class of the serial engine: Pause
   only raises a flag that the run loop reads before its next dispatch, so a handler
   that is running may finish, and when none is running one dispatch that already
   passed the flag check may still start *)
(* Pause may be called again while the engine is already paused (two controllers): every
   return of Pause must find the engine quiescent.  The first Continue ends the paused
   period (what a second, still outstanding pauser may expect is not fixed by the statement). *)
TPause == /\ Ev.e = "pause_ret" /\ (StrictPause => running = {})
          /\ paused' = TRUE
          /\ grace' = IF ~StrictPause /\ running = {} THEN 1 ELSE 0
          /\ UNCHANGED <<pend, running, seen>>
TCont  == /\ Ev.e = "continue" /\ paused' = FALSE /\ grace' = 0 /\ UNCHANGED <<pend, running, seen>>
TRet   == /\ Ev.e = "ret" /\ pend = {} /\ running = {} /\ UNCHANGED <<pend, running, paused, grace, seen>>
TReset == /\ Ev.e = "reset" /\ pend' = {} /\ running' = {} /\ paused' = FALSE /\ grace' = 0 /\ seen' = {}
TNext == l <= TraceLen /\ l' = l + 1 /\ (TSched \/ TStart \/ TEnd \/ TPause \/ TCont \/ TRet \/ TReset)
TSpec == TInit /\ [][TNext]_tvars
Mark == TraceMark(l)
OneInstant == \A e, f \in running : e.t = f.t
=============================================================================
