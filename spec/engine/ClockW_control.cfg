\* EXPECTED TO FAIL (positive control): ThisAgrees is violated by the formula of freq.go.
SPECIFICATION SpecW
CONSTANTS
  W = 4
  MaxP = 0
  MaxT = 0
  MaxN = 0
INVARIANT ThisAgrees
CHECK_DEADLOCK FALSE
