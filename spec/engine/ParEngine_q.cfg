SPECIFICATION Spec
CONSTANTS
  NQ = 2
  MaxEvents = 4
  MaxRoots = 2
  MaxDelay = 1
  MaxKids = 1
  Pauses = 1
INVARIANTS ExactlyOnce Quiescent DoneMeansAll NoTimeTravel
PROPERTIES StartOrderRelaxed NoBeginWhilePaused AllHandled
