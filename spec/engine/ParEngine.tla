----------------------------- MODULE ParEngine -----------------------------
(* C04 / C05 — timing.ParallelEngine, one action per critical section of
   parallelengine.go:

     main loop   check (hasMoreEvents) -> lock (pauseLock) -> determine
                 (determineWhatToRun) -> empty (emptyQueueChan) -> scan
                 (runEventsUntilConflict: pop every event at `now` from queue i and
                 start a temporary worker for it, then hand queue i back to the
                 channel) -> wait (waitGroup.Wait) -> unlock -> check
     worker(e)   begin (handler starts) -> schedules children through Schedule
                 (needs a queue of the child's class to be checked in, exactly like
                 `<-queueChan ... queueChan <- queue`) -> finish
     pauser      Pause (takes pauseLock) -> Continue

   The handler program is chosen lazily (children of a handled event are picked
   when it runs), so TLC explores every program within the bounds together with
   every interleaving of main loop, workers and pauser.

   Abstract requirements (the statement of C04/C05) are stated over the observable
   steps Begin/Finish/PauseReturn only:
     StartOrderStrict  — C04 as written.
     StartOrderRelaxed — C04 minus the W18 class (a primary scheduled by a secondary
                         of the same instant while that secondary round is running).
     Quiescent / NoBeginWhilePaused — C05.                                       *)
EXTENDS Integers, FiniteSets, Sequences, TLC

CONSTANTS NQ,        \* queues per class (GOMAXPROCS in the code)
          MaxEvents, MaxRoots, MaxDelay, MaxKids,
          Pauses     \* how many Pause/Continue pairs the pauser performs

Inf == 1000000
VARIABLES evs,      \* id -> [t, sec, byT, bySec] for every event ever scheduled (as a set of records with id)
          qP, qS,   \* queue index -> set of [id, seq] waiting in that queue
          seq,      \* push counter (orders events inside one queue)
          chanP, chanS,   \* queue indices currently checked in to queueChan / secondaryQueueChan
          mpc, mi, now, runSec,
          running,  \* ids popped by the main loop whose worker has not finished
          wpc,      \* id -> "spawned" | "body"      (for ids in running)
          kids,     \* id -> children scheduled so far
          finished, \* ids whose handler returned
          lock,     \* "free" | "main" | "pauser"
          ppc, pleft,
          nroots
vars == <<evs, qP, qS, seq, chanP, chanS, mpc, mi, now, runSec, running, wpc, kids, finished, lock, ppc, pleft, nroots>>

Q == 1..NQ
E(id) == CHOOSE e \in evs : e.id = id
Ids(q) == {x.id : x \in q}
PendingIds == UNION {Ids(qP[i]) : i \in Q} \cup UNION {Ids(qS[i]) : i \in Q}
MinTime(qs) == LET ts == {E(x.id).t : x \in UNION {qs[i] : i \in Q}} IN
               IF ts = {} THEN Inf ELSE CHOOSE t \in ts : \A u \in ts : t <= u
(* head of one queue: smallest (time, seq) *)
HeadQ(q) == CHOOSE x \in q : \A y \in q \ {x} :
               \/ E(x.id).t < E(y.id).t
               \/ E(x.id).t = E(y.id).t /\ x.seq < y.seq

Init == /\ evs = {} /\ qP = [i \in Q |-> {}] /\ qS = [i \in Q |-> {}] /\ seq = 0
        /\ chanP = Q /\ chanS = Q /\ mpc = "setup" /\ mi = 1 /\ now = 0 /\ runSec = FALSE
        /\ running = {} /\ wpc = <<>> /\ kids = <<>> /\ finished = {} /\ lock = "free"
        /\ ppc = "idle" /\ pleft = Pauses /\ nroots = 0

NextId == Cardinality(evs) + 1
(* Schedule(evt): take a checked-in queue of the event's class, push, hand it back *)
Push(t, sec, byT, bySec) ==
    /\ NextId <= MaxEvents
    /\ evs' = evs \cup {[id |-> NextId, t |-> t, sec |-> sec, byT |-> byT, bySec |-> bySec]}
    /\ seq' = seq + 1
    /\ IF sec THEN /\ \E i \in chanS : qS' = [qS EXCEPT ![i] = @ \cup {[id |-> NextId, seq |-> seq]}]
                   /\ UNCHANGED qP
              ELSE /\ \E i \in chanP : qP' = [qP EXCEPT ![i] = @ \cup {[id |-> NextId, seq |-> seq]}]
                   /\ UNCHANGED qS

Root(t, sec) == /\ mpc = "setup" /\ nroots < MaxRoots /\ nroots' = nroots + 1
                /\ Push(t, sec, -1, FALSE)
                /\ UNCHANGED <<chanP, chanS, mpc, mi, now, runSec, running, wpc, kids, finished, lock, ppc, pleft>>
StartRun == /\ mpc = "setup" /\ nroots > 0 /\ mpc' = "check"
            /\ UNCHANGED <<evs, qP, qS, seq, chanP, chanS, mi, now, runSec, running, wpc, kids, finished, lock, ppc, pleft, nroots>>

MUnch == <<evs, seq, wpc, kids, finished, ppc, pleft, nroots>>
Check == /\ mpc = "check"
         /\ mpc' = IF PendingIds = {} THEN "done" ELSE "lock"
         /\ UNCHANGED <<MUnch, qP, qS, chanP, chanS, mi, now, runSec, running, lock>>
Lock == /\ mpc = "lock" /\ lock = "free" /\ lock' = "main" /\ mpc' = "determine"
        /\ UNCHANGED <<MUnch, qP, qS, chanP, chanS, mi, now, runSec, running>>
Determine == /\ mpc = "determine"
             /\ LET pT == MinTime(qP) sT == MinTime(qS) IN
                 /\ runSec' = ~(pT <= sT)
                 /\ now' = IF pT <= sT THEN pT ELSE sT
             /\ mpc' = "empty"
             /\ UNCHANGED <<MUnch, qP, qS, chanP, chanS, mi, running, lock>>
Empty == /\ mpc = "empty"
         /\ IF runSec THEN chanS = Q /\ chanS' = {} /\ UNCHANGED chanP
                      ELSE chanP = Q /\ chanP' = {} /\ UNCHANGED chanS
         /\ mpc' = "scan" /\ mi' = 1
         /\ UNCHANGED <<MUnch, qP, qS, now, runSec, running, lock>>
(* pop one event at `now` from queue mi and start its worker, or hand the queue back *)
Scan == /\ mpc = "scan" /\ mi <= NQ
        /\ LET q == IF runSec THEN qS[mi] ELSE qP[mi] IN
           IF q # {} /\ E(HeadQ(q).id).t = now
           THEN /\ LET x == HeadQ(q) IN
                    /\ IF runSec THEN qS' = [qS EXCEPT ![mi] = @ \ {x}] /\ UNCHANGED qP
                                 ELSE qP' = [qP EXCEPT ![mi] = @ \ {x}] /\ UNCHANGED qS
                    /\ running' = running \cup {x.id}
                    /\ wpc' = [i \in DOMAIN wpc \cup {x.id} |-> IF i = x.id THEN "spawned" ELSE wpc[i]]
                    /\ kids' = [i \in DOMAIN kids \cup {x.id} |-> IF i = x.id THEN 0 ELSE kids[i]]
                /\ UNCHANGED <<chanP, chanS, mi, mpc>>
           ELSE /\ IF runSec THEN chanS' = chanS \cup {mi} /\ UNCHANGED chanP
                             ELSE chanP' = chanP \cup {mi} /\ UNCHANGED chanS
                /\ mi' = mi + 1 /\ mpc' = IF mi = NQ THEN "wait" ELSE "scan"
                /\ UNCHANGED <<qP, qS, running, wpc, kids>>
        /\ UNCHANGED <<evs, seq, finished, ppc, pleft, nroots, now, runSec, lock>>
Wait == /\ mpc = "wait" /\ running = {} /\ mpc' = "unlock"
        /\ UNCHANGED <<MUnch, qP, qS, chanP, chanS, mi, now, runSec, running, lock>>
Unlock == /\ mpc = "unlock" /\ lock' = "free" /\ mpc' = "check"
          /\ UNCHANGED <<MUnch, qP, qS, chanP, chanS, mi, now, runSec, running>>

(* workers *)
Begin(id) == /\ id \in running /\ wpc[id] = "spawned"
             /\ wpc' = [wpc EXCEPT ![id] = "body"]
             /\ UNCHANGED <<evs, qP, qS, seq, chanP, chanS, mpc, mi, now, runSec, running, kids, finished, lock, ppc, pleft, nroots>>
Sched(id, dt, sec) ==
             /\ id \in running /\ wpc[id] = "body" /\ kids[id] < MaxKids
             /\ Push(E(id).t + dt, sec, E(id).t, E(id).sec)
             /\ kids' = [kids EXCEPT ![id] = @ + 1]
             /\ UNCHANGED <<chanP, chanS, mpc, mi, now, runSec, running, wpc, finished, lock, ppc, pleft, nroots>>
Finish(id) == /\ id \in running /\ wpc[id] = "body"
              /\ running' = running \ {id} /\ finished' = finished \cup {id}
              /\ UNCHANGED <<evs, qP, qS, seq, chanP, chanS, mpc, mi, now, runSec, wpc, kids, lock, ppc, pleft, nroots>>

(* another goroutine pauses and continues the engine *)
PauseCall == /\ ppc = "idle" /\ pleft > 0 /\ mpc # "setup" /\ lock = "free"
             /\ lock' = "pauser" /\ ppc' = "paused"
             /\ UNCHANGED <<evs, qP, qS, seq, chanP, chanS, mpc, mi, now, runSec, running, wpc, kids, finished, pleft, nroots>>
Continue == /\ ppc = "paused" /\ lock' = "free" /\ ppc' = "idle" /\ pleft' = pleft - 1
            /\ UNCHANGED <<evs, qP, qS, seq, chanP, chanS, mpc, mi, now, runSec, running, wpc, kids, finished, nroots>>

Next == \/ \E t \in 0..MaxDelay, s \in BOOLEAN : Root(t, s)
        \/ StartRun \/ Check \/ Lock \/ Determine \/ Empty \/ Scan \/ Wait \/ Unlock
        \/ \E id \in running : Begin(id) \/ Finish(id) \/ \E dt \in 0..MaxDelay, s \in BOOLEAN : Sched(id, dt, s)
        \/ PauseCall \/ Continue
        \/ (mpc = "done" /\ UNCHANGED vars)      \* terminated: not a deadlock
Fair == /\ WF_vars(StartRun \/ Check \/ Lock \/ Determine \/ Empty \/ Scan \/ Wait \/ Unlock)
        /\ WF_vars(\E id \in running : Begin(id) \/ Finish(id))
        /\ WF_vars(Continue)
Spec == Init /\ [][Next]_vars /\ Fair

-----------------------------------------------------------------------------
Unfinished == PendingIds \cup running            \* scheduled, handler not yet returned
(* C04, as written: a handler begins only if nothing earlier is unfinished, and a
   secondary begins only if no primary of its instant (or earlier) is unfinished *)
BeginOK(id, strict) ==
    LET e == E(id) IN
    /\ \A f \in Unfinished \ {id} : E(f).t >= e.t
    /\ e.sec => \A f \in Unfinished : (~E(f).sec /\ E(f).t <= e.t) =>
                   (~strict /\ E(f).bySec /\ E(f).byT = e.t)
StartOrderStrict  == [][\A id \in running : (wpc[id] = "spawned" /\ wpc'[id] = "body") => BeginOK(id, TRUE)]_vars
StartOrderRelaxed == [][\A id \in running : (wpc[id] = "spawned" /\ wpc'[id] = "body") => BeginOK(id, FALSE)]_vars
ExactlyOnce == finished \cap Unfinished = {}
(* C05 *)
Quiescent == ppc = "paused" => running = {}
NoBeginWhilePaused == [][ppc = "paused" => \A id \in running : ~(wpc[id] = "spawned" /\ wpc'[id] = "body")]_vars
AllHandled == (mpc # "setup") ~> (mpc = "done" /\ finished = {e.id : e \in evs})
DoneMeansAll == mpc = "done" => (finished = {e.id : e \in evs} /\ running = {})
NoTimeTravel == \A id \in PendingIds : mpc \in {"scan", "wait"} => E(id).t >= now
=============================================================================
