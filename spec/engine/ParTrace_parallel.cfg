SPECIFICATION TSpec
CONSTANTS
  StrictOrder = FALSE
  StrictPause = TRUE
INVARIANT OneInstant
CONSTRAINT Mark
POSTCONDITION TraceAccepted
CHECK_DEADLOCK FALSE
