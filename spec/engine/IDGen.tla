------------------------------- MODULE IDGen -------------------------------
(* C41 — the ID generator as the statement describes it.

   IDs are modelled by their POSITION in "the sequence the sequential
   generator hands out": the k-th ID of a run is the number k (k >= 1, so 0 is
   the "no ID" value).  The statement does not say which concrete numbers the
   sequence consists of; the binding maps position k to the k-th ID of a
   reference run of the real generator (today that is k itself).

   State:  counter  how many IDs have been handed out on the current timeline
           issued   the current timeline: the IDs handed out, in order
           saved    the checkpoints taken so far; a checkpoint remembers the
                    timeline it was taken on
           first    ghost: the ID that was handed out the first time position k
                    was reached on ANY timeline (0 = never reached)
   Restoring a checkpoint abandons the continuation after it and resumes the
   timeline of the checkpoint ("the same simulation" of the statement is one
   timeline; the original continuation and the resumed one are two runs that
   must agree, which is what `first` records).

   Properties (the three sentences of the statement):
     AllDistinctNonZero  on a timeline every ID is nonzero and handed out once
     SequentialFromOne   the k-th ID handed out is the k-th ID of the sequence
     RestoreContinues    an ID handed out at position k equals the ID any other
                         run (before or after a restore) got at position k

   Generate is ONE atomic step here: that is what "including under concurrent
   use" demands of N callers.  NextImpl is the non-atomic variant (load and
   store as separate steps of each caller) — the mutant control of this
   specification: IDGen_control.cfg is EXPECTED to fail AllDistinctNonZero
   (two callers load the same value).  It is never used for a verdict.       *)
EXTENDS Naturals, Sequences, FiniteSets, TLC, Json

CONSTANTS Callers,  \* set of caller ids
          MaxId     \* bound on IDs handed out on one timeline

VARIABLES counter, issued, saved, first, last,
          pc, tmp   \* only used by NextImpl
vars == <<counter, issued, saved, first, last, pc, tmp>>

SavedCtrs == {s.ctr : s \in saved}
St  == [counter |-> counter,  saved |-> SavedCtrs]
St2 == [counter |-> counter', saved |-> {s.ctr : s \in saved'}]

Init == /\ counter = 0 /\ issued = <<>> /\ saved = {}
        /\ first = [k \in 1..MaxId |-> 0]
        /\ last = [op |-> "new", arg |-> 0, res |-> 0]
        /\ pc = [c \in Callers |-> "idle"] /\ tmp = [c \in Callers |-> 0]
        /\ PrintT(<<"INIT", ToJson(St)>>)

Op(o, a, r) == last' = [op |-> o, arg |-> a, res |-> r]

HandOut(id) == /\ issued' = Append(issued, id)
               /\ first' = (IF Len(issued) + 1 \in DOMAIN first /\ first[Len(issued) + 1] = 0
                            THEN [first EXCEPT ![Len(issued) + 1] = id] ELSE first)

(* one atomic step per call *)
Generate(c) == /\ counter < MaxId
               /\ counter' = counter + 1
               /\ HandOut(counter + 1)
               /\ Op("generate", c, counter + 1)
               /\ UNCHANGED <<saved, pc, tmp>>

Save == /\ saved' = saved \cup {[ctr |-> counter, hist |-> issued]}
        /\ Op("save", 0, counter)
        /\ UNCHANGED <<counter, issued, first, pc, tmp>>

Restore(s) == /\ counter' = s.ctr
              /\ issued' = s.hist
              /\ Op("restore", s.ctr, "ok")
              /\ UNCHANGED <<saved, first, pc, tmp>>

Next == \/ \E c \in Callers : Generate(c)
        \/ Save
        \/ \E s \in saved : Restore(s)
Spec == Init /\ [][Next]_vars

(* the non-atomic variant: Generate split into load and store *)
Load(c)  == /\ pc[c] = "idle" /\ counter < MaxId
            /\ tmp' = [tmp EXCEPT ![c] = counter]
            /\ pc' = [pc EXCEPT ![c] = "store"]
            /\ Op("load", c, counter)
            /\ UNCHANGED <<counter, issued, saved, first>>
Store(c) == /\ pc[c] = "store"
            /\ counter' = tmp[c] + 1
            /\ HandOut(tmp[c] + 1)
            /\ pc' = [pc EXCEPT ![c] = "idle"]
            /\ Op("generate", c, tmp[c] + 1)
            /\ UNCHANGED <<saved, tmp>>
NextImpl == \E c \in Callers : Load(c) \/ Store(c)
SpecImpl == Init /\ [][NextImpl]_vars

---------------------------------------------------------------------------
AllDistinctNonZero == \A i, j \in DOMAIN issued :
                         issued[i] # 0 /\ (i # j => issued[i] # issued[j])
SequentialFromOne  == /\ Len(issued) = counter
                      /\ \A k \in DOMAIN issued : issued[k] = k
RestoreContinues   == \A k \in DOMAIN issued : k \in DOMAIN first => first[k] = issued[k]

\* a checkpoint is a faithful picture of the moment it was taken
CheckpointsFaithful == \A s \in saved : Len(s.hist) = s.ctr /\ \A k \in DOMAIN s.hist : s.hist[k] = first[k]

\* every step either hands out exactly the next ID of the timeline, or leaves the
\* timeline alone (save), or rewinds it to a checkpoint (restore)
StepShape == [][\/ (last'.op = "generate" /\ last'.res = counter + 1 /\ issued' = Append(issued, counter + 1))
                \/ (last'.op = "save" /\ issued' = issued /\ counter' = counter)
                \/ (last'.op = "restore" /\ \E s \in saved : counter' = s.ctr /\ issued' = s.hist)]_vars

View == <<counter, issued, saved, first, pc, tmp>>
Emit == PrintT(<<"EDGE", ToJson([s |-> St, a |-> last', t |-> St2])>>)
=============================================================================
