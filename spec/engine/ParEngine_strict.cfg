SPECIFICATION Spec
CONSTANTS
  NQ = 2
  MaxEvents = 4
  MaxRoots = 2
  MaxDelay = 0
  MaxKids = 1
  Pauses = 0
PROPERTIES StartOrderStrict
