------------------------------- MODULE ClockW -------------------------------
(* C42 — the formulas of timing/freq.go written over a W-bit machine word.

   TLC's integers cannot speak about 2^64, so the word width is a parameter:
   every intermediate result of the Go expressions is reduced modulo 2^W, the
   way uint64 arithmetic reduces modulo 2^64.  For every period 1..2^W-1 and
   every time 0..2^W-1 TLC compares the W-bit formula with the mathematical
   definition of Clock.tla *whenever the mathematical result fits in W bits*
   (the quantifier of C42: "every time value for which the results fit").

   This module transcribes the implementation ON PURPOSE: it is not the
   oracle.  Its role is to find the shapes of inputs on which word arithmetic
   and mathematics part, at a width where exhaustive search is possible; each
   disagreement is emitted as a CASE row (a hypothesis) whose shape (distance
   of t from the top of the word, t on/off a tick, n) the check re-instantiates
   at 64 bits on the real timing.Freq.  The verdict comes from the real code
   alone; if freq.go is repaired these rows simply become passing test points.

   What TLC proves about the W-bit formulas (invariants):
     NextAgrees, CycleAgrees        agree with mathematics whenever it fits;
     ThisAgreesWithoutCarry         ThisTick agrees whenever t + p - 1 does not
                                    carry out of the word;
     LaterAgreesWhenThisDoes        NCyclesLater adds no disagreement of its own.
   Together they delimit the hypothesis region exactly: t within one period of
   the top of the word (t + p - 1 >= 2^W) with the tick at or above t still
   representable.                                                            *)
EXTENDS Clock

CONSTANT W                       \* word width in bits
M == 2 ^ W
Word(x) == x % M
Fits(x) == x < M

\* freq.go, ThisTick:      ((n + period - 1) / period) * period
ThisTickW(q, u) == Word((Word(u + q - 1) \div q) * q)
\* freq.go, NextTick:      (n/period + 1) * period
NextTickW(q, u) == Word((u \div q + 1) * q)
\* freq.go, NCyclesLater:  ThisTick(now) + uint64(n)*period
NCyclesLaterW(q, n, u) == Word(ThisTickW(q, u) + Word(Word(n) * q))
\* freq.go, Cycle:         time / period
CycleW(q, u) == u \div q

InitW == p \in 1..(M - 1) /\ t = 0
NextW == t < M - 1 /\ t' = t + 1 /\ UNCHANGED p
SpecW == InitW /\ [][NextW]_vars

NextAgrees  == Fits(NextTick(p, t)) => NextTickW(p, t) = NextTick(p, t)
CycleAgrees == CycleW(p, t) = Cycle(p, t)
ThisAgreesWithoutCarry == t + p - 1 < M => ThisTickW(p, t) = ThisTick(p, t)
LaterAgreesWhenThisDoes ==
  \A n \in 0..MaxN :
     (ThisTickW(p, t) = ThisTick(p, t) /\ Fits(NCyclesLater(p, n, t)))
        => NCyclesLaterW(p, n, t) = NCyclesLater(p, n, t)

Hyp(fn, n, want, got) ==
  PrintT(<<"CASE", ToJson([fn |-> fn, p |-> p, t |-> t, n |-> n, want |-> want, got |-> got,
                           fromTop |-> M - t, onTick |-> (t % p = 0), W |-> W])>>)

\* Emits every disagreement inside the "fits" domain; always TRUE.
EmitHypotheses ==
  /\ (Fits(ThisTick(p, t)) /\ ThisTickW(p, t) # ThisTick(p, t))
        => Hyp("ThisTick", 0, ThisTick(p, t), ThisTickW(p, t))
  /\ (Fits(NextTick(p, t)) /\ NextTickW(p, t) # NextTick(p, t))
        => Hyp("NextTick", 0, NextTick(p, t), NextTickW(p, t))
  /\ (CycleW(p, t) # Cycle(p, t)) => Hyp("Cycle", 0, Cycle(p, t), CycleW(p, t))
  /\ \A n \in 0..MaxN :
        (Fits(NCyclesLater(p, n, t)) /\ NCyclesLaterW(p, n, t) # NCyclesLater(p, n, t))
           => Hyp("NCyclesLater", n, NCyclesLater(p, n, t), NCyclesLaterW(p, n, t))

\* Control: the claim "ThisTick agrees whenever the result fits" — FALSE for the
\* formula above (ClockW_control.cfg is expected to fail with this invariant;
\* the check uses it as a positive control of the method, never as a verdict).
ThisAgrees == Fits(ThisTick(p, t)) => ThisTickW(p, t) = ThisTick(p, t)
=============================================================================
