------------------------------ MODULE Engine ------------------------------
(* C01 / C02 — the serial engine as the STATEMENT describes it.

   State: simulated time, the set of pending events (each with its time, class and
   global scheduling order), the running handler, the current Run/RunUntil call.
   One action per observable step: external Schedule, Call (Run / RunUntil(b)),
   Start (an event handler starts), Sched (the running handler schedules a child),
   End, Return (the call returns).

   The dispatch rule is written twice:
     AbsChoice  — the statement: smallest time; at one instant primaries before
                  secondaries; within (time, class) scheduling order.
     ImplChoice — what timing/serialengine.go does: two heaps ordered by
                  (time, per-queue sequence number), compare heads, primary iff tP <= tS.
   TLC checks ImplChoice = AbsChoice in every reachable state (ImplIsAbs) and the
   statement's properties on every behaviour; every complete behaviour is emitted
   for replay on the real timing.SerialEngine.                                  *)
EXTENDS Integers, Sequences, FiniteSets, TLC

CONSTANTS MaxEvents,   \* total number of events ever scheduled
          MaxRoots,    \* events scheduled before the first call
          MaxDelay,    \* children are scheduled at time + 0..MaxDelay
          MaxKids,     \* children per handled event
          Bounds,      \* RunUntil boundaries that may be used
          MaxCalls     \* RunUntil calls before the final Run

Inf == 2000000000
VARIABLES time, pending, nextId, mode, bound, cur, kids, ncalls
vars == <<time, pending, nextId, mode, bound, cur, kids, ncalls>>

Less(a, b) == \/ a.t < b.t
              \/ a.t = b.t /\ ~a.sec /\ b.sec
              \/ a.t = b.t /\ a.sec = b.sec /\ a.ord < b.ord
AbsChoice == CHOOSE e \in pending : \A f \in pending \ {e} : Less(e, f)

HeapLess(a, b) == a.t < b.t \/ (a.t = b.t /\ a.ord < b.ord)
HeadOf(S) == CHOOSE e \in S : \A f \in S \ {e} : HeapLess(e, f)
ImplChoice == LET P == {e \in pending : ~e.sec}
                  S == {e \in pending : e.sec}
              IN IF P = {} THEN HeadOf(S)
                 ELSE IF S = {} THEN HeadOf(P)
                 ELSE IF HeadOf(P).t <= HeadOf(S).t THEN HeadOf(P) ELSE HeadOf(S)

Init == /\ time = 0 /\ pending = {} /\ nextId = 1 /\ mode = "setup" /\ bound = 0
        /\ cur = 0 /\ kids = 0 /\ ncalls = 0

NewEvt(t, sec) == [id |-> nextId, t |-> t, sec |-> sec, ord |-> nextId]

(* an event scheduled from outside the run loop, before the first call *)
ExtSchedule(t, sec) ==
    /\ mode = "setup" /\ nextId <= MaxRoots /\ nextId <= MaxEvents
    /\ pending' = pending \cup {NewEvt(t, sec)}
    /\ nextId' = nextId + 1
    /\ UNCHANGED <<time, mode, bound, cur, kids, ncalls>>

Call(b) ==
    /\ \/ mode = "setup" /\ pending # {}
       \/ mode = "idle"
    /\ b >= bound
    /\ b = Inf \/ ncalls < MaxCalls
    /\ mode' = "run" /\ bound' = b /\ ncalls' = ncalls + 1
    /\ UNCHANGED <<time, pending, nextId, cur, kids>>

(* the handler of e starts: e is first in the statement's order (written with a
   quantifier rather than AbsChoice so that a trace specification that already
   knows e pays O(|pending|) per step) *)
StartE(e) ==
    /\ mode = "run" /\ cur = 0 /\ e \in pending
    /\ \A f \in pending \ {e} : Less(e, f)
    /\ e.t <= bound
    /\ time' = e.t /\ cur' = e.id /\ kids' = 0
    /\ pending' = pending \ {e}
    /\ UNCHANGED <<nextId, mode, bound, ncalls>>
Start == \E e \in pending : StartE(e)

Sched(dt, sec) ==
    /\ cur # 0 /\ kids < MaxKids /\ nextId <= MaxEvents
    /\ pending' = pending \cup {NewEvt(time + dt, sec)}
    /\ nextId' = nextId + 1 /\ kids' = kids + 1
    /\ UNCHANGED <<time, mode, bound, cur, ncalls>>

End ==
    /\ cur # 0 /\ cur' = 0 /\ kids' = 0
    /\ UNCHANGED <<time, pending, nextId, mode, bound, ncalls>>

Return ==
    /\ mode = "run" /\ cur = 0
    /\ \A e \in pending : e.t > bound
    /\ mode' = IF bound = Inf THEN "done" ELSE "idle"
    /\ UNCHANGED <<time, pending, nextId, bound, cur, kids, ncalls>>

Next == \/ \E t \in 0..MaxDelay, sec \in BOOLEAN : ExtSchedule(t, sec)
        \/ \E b \in Bounds \cup {Inf} : Call(b)
        \/ Start \/ End \/ Return
        \/ \E dt \in 0..MaxDelay, sec \in BOOLEAN : Sched(dt, sec)
Spec == Init /\ [][Next]_vars

---------------------------------------------------------------------------
(* Properties of the statement *)
ImplIsAbs == pending # {} => ImplChoice = AbsChoice
RunReturnsOnlyWhenEmpty == mode = "done" => pending = {}
RunUntilExact == mode = "idle" => \A e \in pending : e.t > bound
NoPastPending == \A e \in pending : e.t >= time
TimeMonotone == [][time' >= time]_vars
(* when a secondary starts, no primary with time <= its time is pending *)
PrimaryFirst == [][(cur = 0 /\ cur' # 0) =>
                     LET e == CHOOSE x \in pending : x.id = cur' IN
                     e.sec => \A f \in pending : ~f.sec => f.t > e.t]_vars
(* same time and class: scheduling order *)
FifoWithinClass == [][(cur = 0 /\ cur' # 0) =>
                     LET e == CHOOSE x \in pending : x.id = cur' IN
                     \A f \in pending : (f.t = e.t /\ f.sec = e.sec /\ f # e) => f.ord > e.ord]_vars
EarliestFirst == [][(cur = 0 /\ cur' # 0) =>
                     LET e == CHOOSE x \in pending : x.id = cur' IN
                     \A f \in pending : f.t >= e.t]_vars

===========================================================================
