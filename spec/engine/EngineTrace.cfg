SPECIFICATION TSpec
CONSTANTS
  MaxEvents = 100000000
  MaxRoots = 100000000
  MaxDelay = 0
  MaxKids = 100000000
  Bounds = {}
  MaxCalls = 100000000
INVARIANTS RunReturnsOnlyWhenEmpty RunUntilExact NoPastPending
CONSTRAINT Mark
POSTCONDITION TraceAccepted
CHECK_DEADLOCK FALSE
