SPECIFICATION Spec
CONSTANTS NEvents = 2
  Pauses = 2
  DispatchLock = TRUE
  ContinueLock = FALSE
INVARIANTS Quiescent NoLostWakeup
PROPERTIES EventuallyDone
