SPECIFICATION SpecW
CONSTANTS
  W = 6
  MaxP = 0
  MaxT = 0
  MaxN = 2
INVARIANT NextAgrees
INVARIANT CycleAgrees
INVARIANT ThisAgreesWithoutCarry
INVARIANT LaterAgreesWhenThisDoes
INVARIANT EmitHypotheses
CHECK_DEADLOCK FALSE
