SPECIFICATION Spec
CONSTANTS
  Callers = {1, 2}
  MaxId = 4
VIEW View
ACTION_CONSTRAINT Emit
INVARIANT AllDistinctNonZero
INVARIANT SequentialFromOne
INVARIANT RestoreContinues
INVARIANT CheckpointsFaithful
PROPERTY StepShape
CHECK_DEADLOCK FALSE
