------------------------------- MODULE Clock -------------------------------
(* C42 — clock arithmetic, stated mathematically.

   A clock has a period p >= 1 (picoseconds); its ticks are the multiples of p.
   For a time t the statement of C42 names four quantities:

     ThisTick(p,t)        the smallest multiple of p that is not before t
     NextTick(p,t)        the smallest multiple of p strictly after t
     NCyclesLater(p,n,t)  ThisTick(p,t) plus n periods
     Cycle(p,t)           the number of whole periods that have elapsed at t

   They are written here as "least element of a set of multiples" and as the
   cardinality of a set of elapsed periods, NOT as the integer-division
   formulas of timing/freq.go.  TLC then

     * checks, for every period 1..MaxP and time 0..MaxT, a list of lemmas that
       characterise the definitions (Lemmas), among them the window lemma that
       justifies looking for the least multiple only in t..t+p, and the
       shape lemma (the result depends only on t div p and on whether t is on
       a tick), which is what allows the small table to be re-instantiated at
       64-bit times;
     * checks the action property Monotone while time advances 1 ps at a time;
     * emits one CASE row per (p, t, n) for replay on real timing.Freq values.

   ClockW.tla extends this module with the Go formulas over a W-bit word.      *)
EXTENDS Naturals, FiniteSets, TLC, Json

CONSTANTS MaxP,   \* periods 1..MaxP
          MaxT,   \* times 0..MaxT
          MaxN    \* cycle counts 0..MaxN for NCyclesLater

VARIABLES p, t
vars == <<p, t>>

---------------------------------------------------------------------------
(* The mathematical definitions.                                            *)

Least(S) == CHOOSE m \in S : \A x \in S : m <= x

\* multiples of q inside lo..hi
Mults(q, lo, hi) == {m \in lo..hi : m % q = 0}

\* Among any q consecutive integers there is a multiple of q, so the least
\* multiple >= u lies in u..u+q (WindowLemma checks this against the
\* unrestricted set of multiples).
ThisTick(q, u) == Least(Mults(q, u, u + q))
NextTick(q, u) == Least(Mults(q, u + 1, u + q))
NCyclesLater(q, n, u) == ThisTick(q, u) + n * q
Cycle(q, u) == Cardinality({k \in 1..u : k * q <= u})

\* The same two ticks over the unrestricted multiples {0, q, 2q, ...} (bounded
\* far enough: (u+1)*q > u for every q >= 1).
AllMults(q, u) == {k * q : k \in 0..(u + 1)}
ThisTickFull(q, u) == Least({m \in AllMults(q, u) : m >= u})
NextTickFull(q, u) == Least({m \in AllMults(q, u) : m > u})

---------------------------------------------------------------------------
(* State machine: pick a period, let time advance one picosecond at a time. *)

Init == p \in 1..MaxP /\ t = 0
Next == t < MaxT /\ t' = t + 1 /\ UNCHANGED p
Spec == Init /\ [][Next]_vars

---------------------------------------------------------------------------
(* Lemmas about the definitions, checked in every state.                    *)

WindowLemma == /\ ThisTick(p, t) = ThisTickFull(p, t)
               /\ NextTick(p, t) = NextTickFull(p, t)

OnTick == t % p = 0

TickLemmas ==
  /\ ThisTick(p, t) % p = 0 /\ ThisTick(p, t) >= t /\ ThisTick(p, t) < t + p
  /\ NextTick(p, t) % p = 0 /\ NextTick(p, t) > t /\ NextTick(p, t) <= t + p
  /\ (OnTick => ThisTick(p, t) = t /\ NextTick(p, t) = t + p)
  /\ (~OnTick => NextTick(p, t) = ThisTick(p, t))
  /\ Cycle(p, t) * p <= t /\ t < (Cycle(p, t) + 1) * p
  /\ NextTick(p, t) = (Cycle(p, t) + 1) * p
  /\ \A n \in 0..MaxN : NCyclesLater(p, n, t) = ThisTick(p, NCyclesLater(p, n, t))

\* The result counted in periods depends only on k = t div p and on whether t
\* is on a tick.  (Used by the check to re-instantiate rows at 64-bit times: a
\* row is stored as offsets "result/p - k".)
ShapeLemma ==
  LET k == t \div p
      up == IF OnTick THEN 0 ELSE 1
  IN /\ ThisTick(p, t) = (k + up) * p
     /\ NextTick(p, t) = (k + 1) * p
     /\ Cycle(p, t) = k
     /\ \A n \in 0..MaxN : NCyclesLater(p, n, t) = (k + up + n) * p

Lemmas == WindowLemma /\ TickLemmas /\ ShapeLemma

\* While time advances the ticks never move backwards, and the cycle count
\* grows by at most one per picosecond, exactly when a tick is reached.
Monotone == [][/\ ThisTick(p, t') >= ThisTick(p, t)
               /\ NextTick(p, t') >= NextTick(p, t)
               /\ Cycle(p, t') = Cycle(p, t) + (IF t' % p = 0 THEN 1 ELSE 0)]_vars

---------------------------------------------------------------------------
(* Table emission: one row per state and n.                                  *)

Row(n) == [p |-> p, t |-> t, n |-> n,
           thisTick |-> ThisTick(p, t), nextTick |-> NextTick(p, t),
           nCyclesLater |-> NCyclesLater(p, n, t), cycle |-> Cycle(p, t)]

EmitCases == \A n \in 0..MaxN : PrintT(<<"CASE", ToJson(Row(n))>>)
=============================================================================
