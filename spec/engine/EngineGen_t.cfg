SPECIFICATION GSpec
CONSTANTS
  MaxEvents = 6
  MaxRoots = 2
  MaxDelay = 1
  MaxKids = 2
  Bounds = {}
  MaxCalls = 0
INVARIANTS ImplIsAbs ExactlyOnce RunReturnsOnlyWhenEmpty RunUntilExact NoPastPending Emit
PROPERTIES TimeMonotone PrimaryFirst FifoWithinClass EarliestFirst
CHECK_DEADLOCK FALSE
