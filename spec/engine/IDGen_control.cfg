\* EXPECTED TO FAIL (mutant control of the specification): with Generate split into a
\* load and a store step, two callers hand out the same ID.
SPECIFICATION SpecImpl
CONSTANTS
  Callers = {1, 2}
  MaxId = 3
INVARIANT AllDistinctNonZero
CHECK_DEADLOCK FALSE
