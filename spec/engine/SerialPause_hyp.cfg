SPECIFICATION Spec
CONSTANTS NEvents = 2
  Pauses = 2
INVARIANT Quiescent
PROPERTY NoStartWhilePaused
