SPECIFICATION Spec
CONSTANTS NEvents = 2
  Pauses = 2
  DispatchLock = FALSE
INVARIANT Quiescent
PROPERTY NoStartWhilePaused
