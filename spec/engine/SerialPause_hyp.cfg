SPECIFICATION Spec
CONSTANTS NEvents = 2
  Pauses = 2
  DispatchLock = FALSE
  ContinueLock = TRUE
INVARIANT Quiescent
PROPERTY NoStartWhilePaused
