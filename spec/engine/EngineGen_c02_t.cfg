SPECIFICATION GSpec
CONSTANTS
  MaxEvents = 5
  MaxRoots = 2
  MaxDelay = 1
  MaxKids = 2
  Bounds = {0, 1, 2}
  MaxCalls = 2
INVARIANTS ImplIsAbs ExactlyOnce RunReturnsOnlyWhenEmpty RunUntilExact NoPastPending Emit
PROPERTIES TimeMonotone PrimaryFirst FifoWithinClass EarliestFirst
CHECK_DEADLOCK FALSE
