---------------------------- MODULE EngineGen ----------------------------
(* Engine + history variables: every complete behaviour of the bounded model is
   printed once (BEHAVIOUR line) for replay on the real timing.SerialEngine.   *)
EXTENDS Engine, Json
VARIABLES handled, hist
gvars == <<vars, handled, hist>>

H(rec) == hist' = Append(hist, rec)
GInit == Init /\ handled = <<>> /\ hist = <<>>
GExt(t, sec)   == ExtSchedule(t, sec) /\ H([e |-> "sched", id |-> nextId, t |-> t, sec |-> sec]) /\ UNCHANGED handled
GCall(b)       == Call(b) /\ H([e |-> "call", b |-> b]) /\ UNCHANGED handled
GStart         == Start /\ H([e |-> "start", id |-> cur', t |-> time']) /\ handled' = Append(handled, cur')
GSched(dt, sec) == Sched(dt, sec) /\ H([e |-> "sched", id |-> nextId, t |-> time + dt, sec |-> sec]) /\ UNCHANGED handled
GEnd           == End /\ H([e |-> "end"]) /\ UNCHANGED handled
GReturn        == Return /\ H([e |-> "ret", time |-> time,
                               np |-> Cardinality({e \in pending : ~e.sec}),
                               ns |-> Cardinality({e \in pending : e.sec})]) /\ UNCHANGED handled
GNext == \/ \E t \in 0..MaxDelay, sec \in BOOLEAN : GExt(t, sec)
         \/ \E b \in Bounds \cup {Inf} : GCall(b)
         \/ GStart \/ GEnd \/ GReturn
         \/ \E dt \in 0..MaxDelay, sec \in BOOLEAN : GSched(dt, sec)
GSpec == GInit /\ [][GNext]_gvars

ExactlyOnce == /\ \A i, j \in 1..Len(handled) : i # j => handled[i] # handled[j]
               /\ mode = "done" => {handled[i] : i \in 1..Len(handled)} = 1..(nextId - 1)
Emit == mode = "done" => PrintT(<<"BEHAVIOUR", ToJson(hist)>>)
===========================================================================
