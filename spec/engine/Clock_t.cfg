SPECIFICATION Spec
CONSTANTS
  MaxP = 64
  MaxT = 330
  MaxN = 4
INVARIANT Lemmas
INVARIANT EmitCases
PROPERTY Monotone
CHECK_DEADLOCK FALSE
