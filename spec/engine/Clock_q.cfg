SPECIFICATION Spec
CONSTANTS
  MaxP = 25
  MaxT = 80
  MaxN = 3
INVARIANT Lemmas
INVARIANT EmitCases
PROPERTY Monotone
CHECK_DEADLOCK FALSE
