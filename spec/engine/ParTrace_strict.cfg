SPECIFICATION TSpec
CONSTANTS
  StrictOrder = TRUE
  StrictPause = TRUE
INVARIANT OneInstant
CONSTRAINT Mark
POSTCONDITION TraceAccepted
CHECK_DEADLOCK FALSE
