---------------------------- MODULE SerialPause ----------------------------
(* C05 (serial engine) — the run loop of timing/serialengine.go against a goroutine
   calling Pause()/Continue(), one action per step that another goroutine can
   interleave with:
     loop:   chk (noMoreEvent) -> load (atomic load of `paused`) -> [wait (cond.Wait
             until paused = 0)] -> hstart (handler begins) -> hend -> chk
     pauser: pstore (paused := 1 under pauseMu; Pause returns) -> cstore (paused := 0,
             Broadcast; Continue returns)
   Quiescent and NoStartWhilePaused are what the statement of C05 demands; TLC shows
   both fail for this design (hypothesis W11), which the harness then reproduces on
   the real engine with gated handlers.                                          *)
EXTENDS Naturals, TLC
CONSTANTS NEvents, Pauses
VARIABLES lpc, left, flag, ppc, running, pleft
vars == <<lpc, left, flag, ppc, running, pleft>>
Init == lpc = "chk" /\ left = NEvents /\ flag = 0 /\ ppc = "idle" /\ running = FALSE /\ pleft = Pauses
Chk    == lpc = "chk" /\ lpc' = (IF left = 0 THEN "done" ELSE "load") /\ UNCHANGED <<left, flag, ppc, running, pleft>>
Load   == lpc = "load" /\ lpc' = (IF flag = 1 THEN "wait" ELSE "hstart") /\ UNCHANGED <<left, flag, ppc, running, pleft>>
WaitR  == lpc = "wait" /\ flag = 0 /\ lpc' = "hstart" /\ UNCHANGED <<left, flag, ppc, running, pleft>>
HStart == lpc = "hstart" /\ running' = TRUE /\ lpc' = "hend" /\ UNCHANGED <<left, flag, ppc, pleft>>
HEnd   == lpc = "hend" /\ running' = FALSE /\ left' = left - 1 /\ lpc' = "chk" /\ UNCHANGED <<flag, ppc, pleft>>
Pause    == ppc = "idle" /\ pleft > 0 /\ flag' = 1 /\ ppc' = "paused" /\ pleft' = pleft - 1 /\ UNCHANGED <<lpc, left, running>>
Continue == ppc = "paused" /\ flag' = 0 /\ ppc' = "idle" /\ UNCHANGED <<lpc, left, running, pleft>>
Next == Chk \/ Load \/ WaitR \/ HStart \/ HEnd \/ Pause \/ Continue \/ (lpc = "done" /\ UNCHANGED vars)
Spec == Init /\ [][Next]_vars /\ WF_vars(Chk \/ Load \/ WaitR \/ HStart \/ HEnd) /\ WF_vars(Continue)
Quiescent == ppc = "paused" => ~running
NoStartWhilePaused == [][ppc = "paused" => ~(lpc = "hstart" /\ lpc' = "hend")]_vars
(* what the design does guarantee: at most one more dispatch after Pause returned *)
EventuallyDone == <>(lpc = "done")
=============================================================================
