---------------------------- MODULE SerialPause ----------------------------
(* C05 (serial engine) — the run loop of timing/serialengine.go against a goroutine
   calling Pause()/Continue(), one action per step another goroutine can interleave with:
     loop:   chk (noMoreEvent) -> load (lock-free read of `paused`) -> [wait (cond.Wait
             until paused = 0)] -> dlock (take dispatchMu) -> recheck (read `paused`
             again under the lock; back off if raised) -> hstart -> hend -> dunlock -> chk
     pauser: pstore (paused := 1) -> pwait (take and release dispatchMu; Pause returns)
             -> cstore (paused := 0, Broadcast; Continue returns)
   DispatchLock = FALSE is the design before the repair (W11): no dispatchMu, Pause
   returns right after raising the flag — TLC refutes Quiescent and NoStartWhilePaused
   for it (negative control, and the hypothesis that was reproduced on the real engine
   with gated handlers).  DispatchLock = TRUE is the current design.
   waitForResume is four steps: wlock (take pauseMu) -> wcheck (read `paused` under the
   lock; leave if 0) -> wadd (cond.Wait: enter the condition's wait list and release
   pauseMu) -> wpark (sleep until a Broadcast that came after wadd) -> wlock.  PStore and
   Continue take pauseMu (ContinueLock = TRUE, the current design): Continue's store and
   Broadcast then cannot fall between wcheck and wadd.  ContinueLock = FALSE is a Continue
   that stores and broadcasts without the mutex ("the flag is atomic, Broadcast needs no
   lock"): TLC refutes EventuallyDone for it — the run loop reads paused = 1, Continue
   clears it and broadcasts to an empty wait list, the loop enters the list and sleeps
   for ever (negative control SerialPause_nolock.cfg; hunted on the real engine by the
   pause storms of checks/c05.py).                                                  *)
EXTENDS Naturals, TLC
CONSTANTS NEvents, Pauses, DispatchLock, ContinueLock
VARIABLES lpc, left, flag, ppc, running, pleft, dmu, pmu, waiting, woken
vars == <<lpc, left, flag, ppc, running, pleft, dmu, pmu, waiting, woken>>
Init == lpc = "chk" /\ left = NEvents /\ flag = 0 /\ ppc = "idle" /\ running = FALSE /\ pleft = Pauses /\ dmu = "free"
        /\ pmu = "free" /\ waiting = FALSE /\ woken = FALSE
cv == <<pmu, waiting, woken>>
AfterWait == IF DispatchLock THEN "dlock" ELSE "hstart"
Chk    == lpc = "chk" /\ lpc' = (IF left = 0 THEN "done" ELSE "load") /\ UNCHANGED <<left, flag, ppc, running, pleft, dmu, cv>>
Load   == lpc = "load" /\ lpc' = (IF flag = 1 THEN "wlock" ELSE AfterWait)
          /\ UNCHANGED <<left, flag, ppc, running, pleft, dmu, cv>>
WLock  == lpc = "wlock" /\ pmu = "free" /\ pmu' = "loop" /\ lpc' = "wcheck" /\ UNCHANGED <<left, flag, ppc, running, pleft, dmu, waiting, woken>>
WCheck == lpc = "wcheck" /\ (IF flag = 1 THEN lpc' = "wadd" /\ UNCHANGED pmu ELSE lpc' = AfterWait /\ pmu' = "free")
          /\ UNCHANGED <<left, flag, ppc, running, pleft, dmu, waiting, woken>>
WAdd   == lpc = "wadd" /\ waiting' = TRUE /\ woken' = FALSE /\ pmu' = "free" /\ lpc' = "wpark"
          /\ UNCHANGED <<left, flag, ppc, running, pleft, dmu>>
WPark  == lpc = "wpark" /\ woken /\ woken' = FALSE /\ lpc' = "wlock" /\ UNCHANGED <<left, flag, ppc, running, pleft, dmu, pmu, waiting>>
DLock  == lpc = "dlock" /\ dmu = "free" /\ dmu' = "loop" /\ lpc' = "recheck" /\ UNCHANGED <<left, flag, ppc, running, pleft, cv>>
Recheck == lpc = "recheck" /\ (IF flag = 1 THEN lpc' = "chk" /\ dmu' = "free" ELSE lpc' = "hstart" /\ UNCHANGED dmu)
           /\ UNCHANGED <<left, flag, ppc, running, pleft, cv>>
HStart == lpc = "hstart" /\ running' = TRUE /\ lpc' = "hend" /\ UNCHANGED <<left, flag, ppc, pleft, dmu, cv>>
HEnd   == lpc = "hend" /\ running' = FALSE /\ left' = left - 1 /\ lpc' = "chk"
          /\ dmu' = (IF DispatchLock THEN "free" ELSE dmu) /\ UNCHANGED <<flag, ppc, pleft, cv>>
(* Pause: the store is made under pauseMu (lock, store, unlock: one step, nothing else touches the flag under it) *)
PStore   == ppc = "idle" /\ pleft > 0 /\ pmu = "free" /\ flag' = 1 /\ pleft' = pleft - 1
            /\ ppc' = (IF DispatchLock THEN "pwait" ELSE "paused") /\ UNCHANGED <<lpc, left, running, dmu, cv>>
PWait    == ppc = "pwait" /\ dmu = "free" /\ ppc' = "paused" /\ UNCHANGED <<lpc, left, flag, running, pleft, dmu, cv>>
Broadcast == woken' = (woken \/ waiting) /\ waiting' = FALSE
(* Continue under pauseMu: lock, store, Broadcast, unlock — one step, since every step of the loop that reads the flag
   for the wait decision or enters the wait list holds the same mutex *)
Continue == ContinueLock /\ ppc = "paused" /\ pmu = "free" /\ flag' = 0 /\ Broadcast /\ ppc' = "idle"
            /\ UNCHANGED <<lpc, left, running, pleft, dmu, pmu>>
(* Continue without the mutex: two steps any step of the loop may fall between *)
CStore   == ~ContinueLock /\ ppc = "paused" /\ flag' = 0 /\ ppc' = "cbcast" /\ UNCHANGED <<lpc, left, running, pleft, dmu, cv>>
CBcast   == ppc = "cbcast" /\ Broadcast /\ ppc' = "idle" /\ UNCHANGED <<lpc, left, flag, running, pleft, dmu, pmu>>
LoopStep == Chk \/ Load \/ WLock \/ WCheck \/ WAdd \/ WPark \/ DLock \/ Recheck \/ HStart \/ HEnd
Next == LoopStep \/ PStore \/ PWait \/ Continue \/ CStore \/ CBcast
        \/ (lpc = "done" /\ ppc \notin {"pwait", "cbcast"} /\ UNCHANGED vars)
Spec == Init /\ [][Next]_vars /\ WF_vars(LoopStep)
        /\ WF_vars(Continue) /\ WF_vars(CStore) /\ WF_vars(CBcast) /\ WF_vars(PWait)
Quiescent == ppc = "paused" => ~running
NoStartWhilePaused == [][ppc = "paused" => ~(lpc = "hstart" /\ lpc' = "hend")]_vars
EventuallyDone == <>(lpc = "done")
PauseReturns == (ppc = "pwait") ~> (ppc = "paused")
(* a sleeping run loop is never left behind by a finished Continue: asleep with the flag clear and nobody about to broadcast *)
NoLostWakeup == ~(lpc = "wpark" /\ ~woken /\ flag = 0 /\ ppc = "idle")
=============================================================================
