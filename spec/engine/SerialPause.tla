---------------------------- MODULE SerialPause ----------------------------
(* C05 (serial engine) — the run loop of timing/serialengine.go against a goroutine
   calling Pause()/Continue(), one action per step another goroutine can interleave with:
     loop:   chk (noMoreEvent) -> load (lock-free read of `paused`) -> [wait (cond.Wait
             until paused = 0)] -> dlock (take dispatchMu) -> recheck (read `paused`
             again under the lock; back off if raised) -> hstart -> hend -> dunlock -> chk
     pauser: pstore (paused := 1) -> pwait (take and release dispatchMu; Pause returns)
             -> cstore (paused := 0, Broadcast; Continue returns)
   DispatchLock = FALSE is the design before the repair (W11): no dispatchMu, Pause
   returns right after raising the flag — TLC refutes Quiescent and NoStartWhilePaused
   for it (negative control, and the hypothesis that was reproduced on the real engine
   with gated handlers).  DispatchLock = TRUE is the current design.              *)
EXTENDS Naturals, TLC
CONSTANTS NEvents, Pauses, DispatchLock
VARIABLES lpc, left, flag, ppc, running, pleft, dmu
vars == <<lpc, left, flag, ppc, running, pleft, dmu>>
Init == lpc = "chk" /\ left = NEvents /\ flag = 0 /\ ppc = "idle" /\ running = FALSE /\ pleft = Pauses /\ dmu = "free"
Chk    == lpc = "chk" /\ lpc' = (IF left = 0 THEN "done" ELSE "load") /\ UNCHANGED <<left, flag, ppc, running, pleft, dmu>>
Load   == lpc = "load" /\ lpc' = (IF flag = 1 THEN "wait" ELSE IF DispatchLock THEN "dlock" ELSE "hstart")
          /\ UNCHANGED <<left, flag, ppc, running, pleft, dmu>>
WaitR  == lpc = "wait" /\ flag = 0 /\ lpc' = (IF DispatchLock THEN "dlock" ELSE "hstart")
          /\ UNCHANGED <<left, flag, ppc, running, pleft, dmu>>
DLock  == lpc = "dlock" /\ dmu = "free" /\ dmu' = "loop" /\ lpc' = "recheck" /\ UNCHANGED <<left, flag, ppc, running, pleft>>
Recheck == lpc = "recheck" /\ (IF flag = 1 THEN lpc' = "chk" /\ dmu' = "free" ELSE lpc' = "hstart" /\ UNCHANGED dmu)
           /\ UNCHANGED <<left, flag, ppc, running, pleft>>
HStart == lpc = "hstart" /\ running' = TRUE /\ lpc' = "hend" /\ UNCHANGED <<left, flag, ppc, pleft, dmu>>
HEnd   == lpc = "hend" /\ running' = FALSE /\ left' = left - 1 /\ lpc' = "chk"
          /\ dmu' = (IF DispatchLock THEN "free" ELSE dmu) /\ UNCHANGED <<flag, ppc, pleft>>
PStore   == ppc = "idle" /\ pleft > 0 /\ flag' = 1 /\ pleft' = pleft - 1
            /\ ppc' = (IF DispatchLock THEN "pwait" ELSE "paused") /\ UNCHANGED <<lpc, left, running, dmu>>
PWait    == ppc = "pwait" /\ dmu = "free" /\ ppc' = "paused" /\ UNCHANGED <<lpc, left, flag, running, pleft, dmu>>
Continue == ppc = "paused" /\ flag' = 0 /\ ppc' = "idle" /\ UNCHANGED <<lpc, left, running, pleft, dmu>>
Next == Chk \/ Load \/ WaitR \/ DLock \/ Recheck \/ HStart \/ HEnd \/ PStore \/ PWait \/ Continue
        \/ (lpc = "done" /\ ppc # "pwait" /\ UNCHANGED vars)
Spec == Init /\ [][Next]_vars /\ WF_vars(Chk \/ Load \/ WaitR \/ DLock \/ Recheck \/ HStart \/ HEnd)
        /\ WF_vars(Continue) /\ WF_vars(PWait)
Quiescent == ppc = "paused" => ~running
NoStartWhilePaused == [][ppc = "paused" => ~(lpc = "hstart" /\ lpc' = "hend")]_vars
EventuallyDone == <>(lpc = "done")
PauseReturns == (ppc = "pwait") ~> (ppc = "paused")
=============================================================================
