SPECIFICATION Spec
CONSTANTS
  MinWays = 0
  MaxWays = 4
  NKeys = 3
VIEW View
ACTION_CONSTRAINT Emit
INVARIANT TypeOK
INVARIANT LeastRecentFirst
PROPERTY EvictIsLRU
PROPERTY VisitIsMRU
PROPERTY Independent
CHECK_DEADLOCK FALSE
