---------------------------- MODULE LRUSet ----------------------------
(* C28 — lruset.Set as the reference model of the statement:
     * a key map: a lookup finds the way last bound to the key (a later remove,
       or a rebind that moves the way's binding away from the key, unbinds it);
     * a recency list of ways, least recently visited first: a visit makes the
       way most recent (re-entering the list when it had been evicted), an
       eviction takes the least recently visited way out of the list;
     * key map and recency list are independent of each other;
     * a JSON round trip changes nothing, whatever object the encoding is decoded
       into: a zero Set (`jsonrt`), the SAME live set after it kept operating
       (`save` ... `rollback`), or ANOTHER set that has already been used
       (`load_into_used`).  With Snapshots = TRUE the saved recency order and
       bindings are part of the state (`snap`, one outstanding snapshot).
   One action per exported operation; `last` carries (op, arg, expected result)
   for replay on the real object.  `clock`/`stamp` are auxiliary (outside the
   VIEW): the logical time of the last visit of every way, used to state "least
   recently visited" independently of the list representation.               *)
EXTENDS Integers, Sequences, FiniteSets, TLC, Json
CONSTANTS MinWays, MaxWays, NKeys, Snapshots
VARIABLES n, rec, bind, snap, last, clock, stamp
vars == <<n, rec, bind, snap, last, clock, stamp>>

Ways  == 0..(n - 1)
Keys  == 1..NKeys
NoWay == -1          \* key not bound
NoKey == 0           \* "no previous key" argument of a rebind (the empty string)

NoSnap == [has |-> FALSE, rec |-> <<>>, bind |-> [k \in Keys |-> NoWay]]
St  == IF Snapshots THEN [n |-> n, rec |-> rec, bind |-> bind, snap |-> snap] ELSE [n |-> n, rec |-> rec, bind |-> bind]
St2 == IF Snapshots THEN [n |-> n', rec |-> rec', bind |-> bind', snap |-> snap'] ELSE [n |-> n', rec |-> rec', bind |-> bind']

Range(s) == {s[i] : i \in DOMAIN s}

Init == /\ n \in MinWays..MaxWays
        /\ rec = [i \in 1..n |-> i - 1]           \* all ways listed, way 0 evicted first
        /\ bind = [k \in Keys |-> NoWay]
        /\ snap = NoSnap
        /\ clock = n
        /\ stamp = [w \in 0..(n - 1) |-> w + 1]
        /\ last = [op |-> "new", arg |-> n, res |-> 0]
        /\ PrintT(<<"INIT", ToJson(St)>>)

Op(o, a, r) == last' = [op |-> o, arg |-> a, res |-> r]
SameRec  == UNCHANGED <<rec, clock, stamp>>
SameBind == UNCHANGED bind

Lookup(k) == /\ UNCHANGED n /\ SameRec /\ SameBind
             /\ Op("lookup", k, [found |-> bind[k] # NoWay,
                                 way |-> IF bind[k] = NoWay THEN 0 ELSE bind[k]])

(* rebind: way w, which was bound to `old` (or had no key: NoKey), becomes bound to `new` *)
Rebind(w, old, new) ==
    /\ IF old = NoKey THEN TRUE ELSE bind[old] = w
    /\ bind' = [k \in Keys |-> IF k = new THEN w ELSE IF k = old THEN NoWay ELSE bind[k]]
    /\ UNCHANGED n /\ SameRec
    /\ Op("rebind", [way |-> w, old |-> old, new |-> new], "ok")

Remove(k) == /\ bind' = [bind EXCEPT ![k] = NoWay]
             /\ UNCHANGED n /\ SameRec
             /\ Op("remove", k, "ok")

Evict == /\ UNCHANGED n /\ SameBind /\ UNCHANGED <<clock, stamp>>
         /\ \/ /\ rec = <<>> /\ UNCHANGED rec
               /\ Op("evict", 0, [ok |-> FALSE, way |-> 0])
            \/ /\ rec # <<>> /\ rec' = Tail(rec)
               /\ Op("evict", 0, [ok |-> TRUE, way |-> Head(rec)])

Visit(w) == /\ rec' = Append(SelectSeq(rec, LAMBDA x : x # w), w)
            /\ clock' = clock + 1
            /\ stamp' = [stamp EXCEPT ![w] = clock + 1]
            /\ UNCHANGED n /\ SameBind
            /\ Op("visit", w, "ok")

(* MarshalJSON, then UnmarshalJSON into a zero Set that replaces the object *)
JsonRT == /\ UNCHANGED n /\ SameRec /\ SameBind /\ Op("jsonrt", 0, "ok")

(* MarshalJSON: the encoding stays available (one outstanding snapshot) *)
Save == /\ Snapshots /\ UNCHANGED n /\ SameRec /\ SameBind
        /\ snap' = [has |-> TRUE, rec |-> rec, bind |-> bind] /\ Op("save", 0, "ok")
(* the set keeps operating after the save; then UnmarshalJSON of the snapshot into the SAME live object.
   The auxiliary stamps are re-issued in list order (they only serve the properties below). *)
Restored == /\ Snapshots /\ snap.has /\ UNCHANGED <<n, snap>>
            /\ rec' = snap.rec /\ bind' = snap.bind
            /\ clock' = clock + Len(snap.rec)
            /\ stamp' = [w \in DOMAIN stamp |->
                           IF \E i \in DOMAIN snap.rec : snap.rec[i] = w
                           THEN clock + (CHOOSE i \in DOMAIN snap.rec : snap.rec[i] = w) ELSE stamp[w]]
Rollback == Restored /\ Op("rollback", 0, "ok")
(* UnmarshalJSON of the snapshot into ANOTHER set object (same way count) that has been visited,
   evicted from and bound differently; that object replaces the set *)
LoadIntoUsed == Restored /\ Op("load_into_used", 0, "ok")

Next == \/ /\ UNCHANGED snap
           /\ \/ Evict \/ JsonRT
              \/ \E k \in Keys : Lookup(k) \/ Remove(k)
              \/ \E w \in Ways : Visit(w)
              \/ \E w \in Ways, old \in Keys \cup {NoKey}, new \in Keys : Rebind(w, old, new)
        \/ Save \/ Rollback \/ LoadIntoUsed
Spec == Init /\ [][Next]_vars

View == <<n, rec, bind, snap>>
Emit == PrintT(<<"EDGE", ToJson([s |-> St, a |-> last', t |-> St2])>>)

---------------------------------------------------------------------------
(* properties of the specification itself *)
TypeOK == /\ \A i \in DOMAIN rec : rec[i] \in Ways
          /\ Cardinality(Range(rec)) = Len(rec)             \* a way is listed at most once
          /\ bind \in [Keys -> Ways \cup {NoWay}]
          /\ snap.has \in BOOLEAN /\ (Snapshots \/ snap = NoSnap)
          /\ \A i \in DOMAIN snap.rec : snap.rec[i] \in Ways
          /\ snap.bind \in [Keys -> Ways \cup {NoWay}]

(* the list is ordered by the time of the last visit *)
LeastRecentFirst == \A i, j \in DOMAIN rec : i < j => stamp[rec[i]] < stamp[rec[j]]

(* an eviction returns the listed way whose last visit is the oldest *)
EvictIsLRU == [][last'.op = "evict" =>
                   IF rec = <<>> THEN ~last'.res.ok /\ rec' = rec
                   ELSE /\ last'.res.ok /\ last'.res.way \in Range(rec)
                        /\ \A w \in Range(rec) : stamp[last'.res.way] <= stamp[w]
                        /\ Range(rec') = Range(rec) \ {last'.res.way}]_vars

(* a visit makes the way the most recent one and keeps the order of the others *)
VisitIsMRU == [][last'.op = "visit" =>
                   /\ rec' # <<>> /\ rec'[Len(rec')] = last'.arg
                   /\ SelectSeq(rec', LAMBDA x : x # last'.arg) = SelectSeq(rec, LAMBDA x : x # last'.arg)]_vars

(* recency and bindings do not influence each other; lookups and round trips change nothing *)
Independent == [][/\ last'.op \in {"lookup", "remove", "rebind", "jsonrt", "save"} => rec' = rec
                  /\ last'.op \in {"lookup", "evict", "visit", "jsonrt", "save"} => bind' = bind
                  /\ last'.op = "rebind" => bind'[last'.arg.new] = last'.arg.way
                  /\ last'.op = "remove" => bind'[last'.arg] = NoWay]_vars

(* a restore makes recency order and bindings equal to the saved ones; only a save changes the snapshot *)
RestoreExact == [][/\ last'.op \in {"rollback", "load_into_used"} =>
                        (snap.has /\ rec' = snap.rec /\ bind' = snap.bind /\ snap' = snap)
                   /\ snap' # snap => (last'.op = "save" /\ snap' = [has |-> TRUE, rec |-> rec, bind |-> bind])]_vars
=======================================================================
