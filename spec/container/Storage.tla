---------------------------- MODULE Storage ----------------------------
(* C20 — mem.Storage as the bounded flat byte array of the statement.

   The address space is a W-bit word (TLC integers are 32-bit): addresses are
   0 .. 2^W-1 and an access (addr, len) touches the addresses
   addr, addr+1, ... taken modulo 2^W, so ranges that run over the top of the
   address space are expressible.  The statement's rule, written over the
   *set of touched addresses*:
     - if any touched address is at or beyond the capacity the access fails
       with an error and the contents stay as they were;
     - otherwise a read returns, for every address, the byte last written
       there (zero if never written) and a write replaces exactly the touched
       bytes.
   The allocation unit size is a constructor parameter only: nothing in the
   behaviour depends on it ("regardless of allocation unit size").
   Zero-length accesses are not specified by the statement and are left out.

   Contents are a sequence of cap bytes (index = address + 1).  The k-th
   successful write carries the data  k*16+1, k*16+2, ...  so that every byte
   of every write is recognisable; at most MaxWrites writes succeed in one
   history, which bounds the state graph.                                   *)
EXTENDS Integers, Sequences, FiniteSets, TLC, Json
CONSTANTS W,          \* address word width
          Shapes,     \* the <<capacity, unit size>> pairs explored
          MaxLen,     \* longest access
          MaxWrites   \* successful writes per history
VARIABLES cap, unit, mem, nw, last
vars == <<cap, unit, mem, nw, last>>

Top   == 2 ^ W
Addrs == 0 .. Top - 1
Lens  == 1 .. MaxLen

(* every capacity leaves room for the "past the capacity" and the "top of the
   address space" regions to be disjoint; the harness relies on this when it
   moves the top region of the W-bit word to the top of the 64-bit word *)
Caps == {sh[1] : sh \in Shapes}
ASSUME /\ W \in 3..20 /\ MaxLen \in 1..(Top \div 4)
       /\ \A sh \in Shapes : /\ sh[1] \in Nat /\ sh[1] + MaxLen <= Top \div 2
                              /\ sh[2] \in Nat \ {0}

(* shape sets used by the configuration files *)
ShapesQ == {<<0, 1>>, <<3, 4>>, <<5, 1>>, <<6, 3>>, <<6, 4>>}
ShapesT == {<<0, 1>>, <<0, 4>>, <<1, 1>>, <<1, 4>>, <<3, 4>>, <<4, 4>>, <<5, 2>>, <<6, 4>>, <<7, 3>>,
            <<8, 1>>, <<8, 4>>, <<9, 4>>}

St  == [cap |-> cap,  unit |-> unit,  mem |-> mem]
St2 == [cap |-> cap', unit |-> unit', mem |-> mem']

(* ---- the statement, over the set of touched addresses ------------------ *)
Touched(a, n)    == {(a + k) % Top : k \in 0 .. n - 1}
Fails(c, a, n)   == \E x \in Touched(a, n) : x >= c
ReadBytes(a, n)  == [k \in 1 .. n |-> mem[((a + k - 1) % Top) + 1]]
DataOf(stamp, n) == [j \in 1 .. n |-> stamp * 16 + j]
Written(a, d)    == [i \in 1 .. cap |->
                       LET J == {j \in 1 .. Len(d) : (a + j - 1) % Top = i - 1}
                       IN IF J = {} THEN mem[i] ELSE d[CHOOSE j \in J : TRUE]]

(* ---- descriptive class of an access (interval arithmetic, used for the
        feature keys of findings and for the 64-bit boundary representatives;
        the theorem below ties it to the set formulation) ------------------ *)
Class(c, a, n) ==
  IF a + n > Top      THEN "wraps_address_space"
  ELSE IF a + n = Top THEN "ends_at_top_of_address_space"
  ELSE IF a > c       THEN "starts_past_capacity"
  ELSE IF a = c       THEN "starts_at_capacity"
  ELSE IF a + n > c   THEN "crosses_capacity"
  ELSE "in_range"

ClassTheorem == \A c \in Caps, a \in Addrs, n \in Lens :
                   Fails(c, a, n) <=> Class(c, a, n) # "in_range"
ASSUME ClassTheorem

(* the class table of one capacity: emitted once per initial state *)
ClassTable(c) == [cap |-> c, w |-> W,
                  rows |-> {<<a, n, Class(c, a, n), IF Fails(c, a, n) THEN "error" ELSE "ok">> :
                              a \in Addrs, n \in Lens}]

(* results: err = the access failed; data = the bytes a successful read returns *)
Ok(bytes) == [err |-> FALSE, data |-> bytes]
Err       == [err |-> TRUE,  data |-> <<>>]

Init == /\ \E sh \in Shapes : cap = sh[1] /\ unit = sh[2]
        /\ mem = [i \in 1 .. cap |-> 0]
        /\ nw = 0
        /\ last = [op |-> "new", addr |-> 0, len |-> 0, data |-> <<>>, cls |-> "", res |-> Ok(<<>>)]
        /\ PrintT(<<"INIT", ToJson(St)>>)
        /\ (unit = CHOOSE u \in {sh[2] : sh \in {x \in Shapes : x[1] = cap}} : TRUE)
              => PrintT(<<"CASE", ToJson(ClassTable(cap))>>)

Op(o, a, n, d, r) == last' = [op |-> o, addr |-> a, len |-> n, data |-> d,
                              cls |-> Class(cap, a, n), res |-> r]
Same == UNCHANGED <<cap, unit, mem, nw>>

(* To keep the graph small, failing accesses are only taken from states that
   still have a write left (the empty storage and every storage reachable with
   fewer than MaxWrites writes), and only from start addresses in the window
   around the capacity and the top of the address space; the class table
   (CASE lines) covers every start address and is replayed separately. *)
Window(a) == a <= cap + MaxLen + 1 \/ a >= Top - MaxLen - 1
Probing   == nw < MaxWrites
OpAddrs   == IF Probing THEN {a \in Addrs : Window(a)} ELSE 0 .. cap - 1

Read(a, n) == /\ Same /\ (Probing \/ ~Fails(cap, a, n))
              /\ Op("read", a, n, <<>>, IF Fails(cap, a, n) THEN Err ELSE Ok(ReadBytes(a, n)))

Write(a, n) == LET d == DataOf(nw + 1, n) IN
   \/ /\ Probing /\ Fails(cap, a, n) /\ Same /\ Op("write", a, n, d, Err)
   \/ /\ ~Fails(cap, a, n) /\ nw < MaxWrites
      /\ mem' = Written(a, d) /\ nw' = nw + 1 /\ UNCHANGED <<cap, unit>>
      /\ Op("write", a, n, d, Ok(<<>>))

(* save a checkpoint, load it into a fresh storage of the same shape and go on
   with the loaded one: the contents are reproduced exactly *)
Ckpt == Same /\ last' = [op |-> "ckpt", addr |-> 0, len |-> 0, data |-> <<>>, cls |-> "checkpoint", res |-> Ok(<<>>)]

Next == \/ Ckpt
        \/ \E a \in OpAddrs, n \in Lens : Read(a, n) \/ Write(a, n)
Spec == Init /\ [][Next]_vars

View == <<cap, unit, mem, nw>>
Emit == PrintT(<<"EDGE", ToJson([s |-> St, a |-> last', t |-> St2])>>)

(* ---- properties of the specification itself ---------------------------- *)
Bounded == /\ Len(mem) = cap /\ \A i \in 1 .. cap : mem[i] \in 0 .. 255
           /\ nw \in 0 .. MaxWrites

(* interval formulation of the same rule, checked on every step *)
Step ==
  LET a == last'.addr  n == last'.len  IN
  /\ last'.op \in {"read", "write"} =>
        (last'.res.err <=> (a + n > cap))
  /\ last'.res.err => mem' = mem
  /\ last'.op \in {"read", "ckpt"} => mem' = mem
  /\ (last'.op = "read" /\ ~last'.res.err) =>
        /\ Len(last'.res.data) = n
        /\ \A k \in 1 .. n : last'.res.data[k] = mem[a + k]
  /\ (last'.op = "write" /\ ~last'.res.err) =>
        \A x \in 0 .. cap - 1 :
           mem'[x + 1] = (IF x >= a /\ x < a + n THEN last'.data[x - a + 1] ELSE mem[x + 1])
StepOK == [][Step]_vars
=======================================================================
