---------------------------- MODULE PageTable ----------------------------
(* C26 — vm.PageTable as the map the statement describes:
       (process, page-aligned virtual address)  |->  page
   `tbl[p][v]` is the page of process p at virtual page v, or NoPage.
     * insert / update / remove / find agree with that map (find accepts any
       address inside the page);
     * reverse lookup by physical address returns A page with that physical
       address when one exists (the statement does not say which one when
       several pages — of one process or of several processes sharing the
       physical page — have it: the specification leaves that choice free, one
       transition per admissible answer), and "not found" otherwise;
     * a checkpoint save/load round trip changes nothing, whatever object the
       checkpoint is loaded into: a fresh table (`ckpt`), the SAME live table
       after it kept operating (`save` ... `rollback`), or ANOTHER table that has
       already been used with other contents (`load_into_used`).  With
       Snapshots = TRUE the saved contents are part of the state (`snap`, one
       outstanding snapshot; a new save replaces it); after a rollback /
       load_into_used the table equals the snapshot for every later operation.
   Misuse the statement is silent about (insert of a present key, update/remove
   of an absent key) is emitted with `free |-> TRUE`: the real object refuses
   (panics) today; the replay only insists that a refused operation leaves the
   map untouched and otherwise stops comparing that history.
   The determinism half of the statement ("every lookup result is a function of
   the history of operations alone") is a property of SETS of executions of the
   same history; it is decided by the check, which executes every emitted
   history several times (same OS process, separate OS processes, before/after
   checkpoint) and compares all answers.                                      *)
EXTENDS Integers, Sequences, FiniteSets, TLC, Json
CONSTANTS NP, NV, NPA, PageVals, Offs, Snapshots
VARIABLES tbl, snap, last
vars == <<tbl, snap, last>>

PIDs == 1..NP          \* processes
VPs  == 1..NV          \* virtual pages (the driver maps v to a page-aligned address)
PAs  == 1..NPA         \* physical pages
NoPage   == [pa |-> 0, dev |-> 0]
\* PageVals (a constant): the page contents used; dev stands for all the other fields of a page
PagesFull  == [pa : PAs, dev : {1, 2}]
PagesSmall == {[pa |-> 1, dev |-> 1], [pa |-> 2, dev |-> 1], [pa |-> 1, dev |-> 2]}
PagesTwo   == {[pa |-> 1, dev |-> 1], [pa |-> 2, dev |-> 2]}
NoSnap == <<>>         \* no checkpoint has been saved
ASSUME PageVals \subseteq [pa : PAs, dev : {1, 2}]

St  == IF Snapshots THEN [tbl |-> tbl, snap |-> snap] ELSE [tbl |-> tbl]
St2 == IF Snapshots THEN [tbl |-> tbl', snap |-> snap'] ELSE [tbl |-> tbl']

Init == /\ tbl = [p \in PIDs |-> [v \in VPs |-> NoPage]]
        /\ snap = NoSnap
        /\ last = [op |-> "new", arg |-> 0, res |-> 0, free |-> FALSE]
        /\ PrintT(<<"INIT", ToJson(St)>>)

Present(p, v) == tbl[p][v] # NoPage
Full(p, v) == [found |-> TRUE, pid |-> p, v |-> v, pa |-> tbl[p][v].pa, dev |-> tbl[p][v].dev]
NotFound == [found |-> FALSE, pid |-> 0, v |-> 0, pa |-> 0, dev |-> 0]

Op(o, a, r)     == last' = [op |-> o, arg |-> a, res |-> r, free |-> FALSE]
Misuse(o, a)    == last' = [op |-> o, arg |-> a, res |-> "refused", free |-> TRUE]
Same == UNCHANGED tbl
KeepSnap == UNCHANGED snap
Key(p, v) == [pid |-> p, v |-> v]
KeyPage(p, v, g) == [pid |-> p, v |-> v, pa |-> g.pa, dev |-> g.dev]

Insert(p, v, g) == IF ~Present(p, v)
                   THEN /\ tbl' = [tbl EXCEPT ![p][v] = g] /\ Op("insert", KeyPage(p, v, g), "ok")
                   ELSE /\ Same /\ Misuse("insert", KeyPage(p, v, g))
Update(p, v, g) == IF Present(p, v)
                   THEN /\ tbl' = [tbl EXCEPT ![p][v] = g] /\ Op("update", KeyPage(p, v, g), "ok")
                   ELSE /\ Same /\ Misuse("update", KeyPage(p, v, g))
Remove(p, v)    == IF Present(p, v)
                   THEN /\ tbl' = [tbl EXCEPT ![p][v] = NoPage] /\ Op("remove", Key(p, v), "ok")
                   ELSE /\ Same /\ Misuse("remove", Key(p, v))
Find(p, v, off) == /\ Same
                   /\ Op("find", [pid |-> p, v |-> v, off |-> off],
                         IF Present(p, v) THEN Full(p, v) ELSE NotFound)

Holders(a) == {k \in PIDs \X VPs : tbl[k[1]][k[2]].pa = a}
ReverseLookup(a) == /\ Same
                    /\ IF Holders(a) = {} THEN Op("reverselookup", a, NotFound)
                       ELSE \E k \in Holders(a) : Op("reverselookup", a, Full(k[1], k[2]))

(* SaveCheckpoint, then LoadCheckpoint into a freshly built table that replaces the object *)
Ckpt == Same /\ Op("ckpt", 0, "ok")

(* SaveCheckpoint: the saved contents stay available (one outstanding snapshot) *)
Save == /\ Snapshots /\ Same /\ snap' = tbl /\ Op("save", 0, "ok")
(* the table keeps operating after the save; then LoadCheckpoint of the snapshot into the SAME live object *)
Rollback == /\ Snapshots /\ snap # NoSnap
            /\ tbl' = snap /\ KeepSnap /\ Op("rollback", 0, "ok")
(* LoadCheckpoint of the snapshot into ANOTHER table object that has been operated on with other
   contents for every process, most recently for process p; that object replaces the table *)
LoadIntoUsed(p) == /\ Snapshots /\ snap # NoSnap
                   /\ tbl' = snap /\ KeepSnap /\ Op("load_into_used", p, "ok")

Next == \/ /\ KeepSnap
           /\ \/ Ckpt
              \/ \E p \in PIDs, v \in VPs :
                    \/ Remove(p, v)
                    \/ \E g \in PageVals : Insert(p, v, g) \/ Update(p, v, g)
                    \/ \E off \in Offs : Find(p, v, off)
              \/ \E a \in PAs : ReverseLookup(a)
        \/ Save \/ Rollback
        \/ \E p \in PIDs : LoadIntoUsed(p)
Spec == Init /\ [][Next]_vars

View == <<tbl, snap>>
Emit == PrintT(<<"EDGE", ToJson([s |-> St, a |-> last', t |-> St2])>>)

---------------------------------------------------------------------------
(* properties of the specification itself *)
Tables == [PIDs -> [VPs -> PageVals \cup {NoPage}]]
TypeOK == /\ tbl \in Tables
          /\ snap = NoSnap \/ snap \in Tables
          /\ Snapshots \/ snap = NoSnap

(* only the addressed key changes, and only by insert / update / remove (restores aside) *)
Restores == {"rollback", "load_into_used"}
MapStep == [][last'.op \notin Restores => \A p \in PIDs, v \in VPs :
                 tbl'[p][v] # tbl[p][v] =>
                    /\ last'.op \in {"insert", "update", "remove"}
                    /\ last'.arg.pid = p /\ last'.arg.v = v
                    /\ last'.res = "ok"
                    /\ IF last'.op = "remove" THEN tbl'[p][v] = NoPage
                       ELSE tbl'[p][v] = [pa |-> last'.arg.pa, dev |-> last'.arg.dev]]_vars

(* an accepted insert/update/remove really takes effect; lookups/refusals/round trips change nothing *)
Effect == [][/\ (last'.op \in {"insert", "update"} /\ last'.res = "ok") =>
                    tbl'[last'.arg.pid][last'.arg.v] = [pa |-> last'.arg.pa, dev |-> last'.arg.dev]
             /\ (last'.op = "remove" /\ last'.res = "ok") => tbl'[last'.arg.pid][last'.arg.v] = NoPage
             /\ (last'.op \in {"find", "reverselookup", "ckpt", "save"} \/ last'.free) => tbl' = tbl]_vars

(* a restore makes the table equal to the saved contents; only a save changes the snapshot *)
RestoreExact == [][/\ last'.op \in Restores => (snap # NoSnap /\ tbl' = snap /\ snap' = snap)
                   /\ snap' # snap => (last'.op = "save" /\ snap' = tbl)]_vars

(* find agrees with the map *)
FindAgrees == [][last'.op = "find" =>
                   LET p == last'.arg.pid  v == last'.arg.v IN
                   IF tbl[p][v] = NoPage THEN ~last'.res.found
                   ELSE /\ last'.res.found /\ last'.res.pid = p /\ last'.res.v = v
                        /\ [pa |-> last'.res.pa, dev |-> last'.res.dev] = tbl[p][v]]_vars

(* reverse lookup is sound and complete *)
ReverseSound == [][last'.op = "reverselookup" =>
                     /\ last'.res.found <=> (\E p \in PIDs, v \in VPs : tbl[p][v].pa = last'.arg)
                     /\ last'.res.found =>
                          /\ tbl[last'.res.pid][last'.res.v].pa = last'.arg
                          /\ [pa |-> last'.res.pa, dev |-> last'.res.dev] = tbl[last'.res.pid][last'.res.v]]_vars
=======================================================================
