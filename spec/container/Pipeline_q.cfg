SPECIFICATION Spec
CONSTANTS
  MaxW = 2
  MaxS = 3
  MaxD = 2
  MaxItems = 3
VIEW View
ACTION_CONSTRAINT Emit
INVARIANT TypeOK
INVARIANT Conservation
INVARIANT LaneExclusive
INVARIANT LatencyInv
INVARIANT OneLaneFifo
PROPERTY LatencyExact
CHECK_DEADLOCK FALSE
