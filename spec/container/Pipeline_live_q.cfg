SPECIFICATION LiveSpec
CONSTANTS
  MaxW = 2
  MaxS = 2
  MaxD = 1
  MaxItems = 2
INVARIANT Conservation
PROPERTY NeverStranded
CHECK_DEADLOCK FALSE
