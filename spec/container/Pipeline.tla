---------------------------- MODULE Pipeline ----------------------------
(* C15 — the INTENDED behaviour of a multi-lane, multi-stage pipeline, written
   from the property statement (not from queueing/pipeline.go):

   * w lanes, s stages (0 .. s-1).  An item is accepted into a free lane of the
     first stage, with a per-item delay d; it keeps its lane.
   * Every tick each item makes one unit of progress: a pending delay is counted
     down (wherever the item is), otherwise the item moves one stage ahead, and
     from the last stage it leaves into the sink.  With a sink that always has
     room this gives a latency of exactly s + d ticks (LatencyExact).
   * The sink may have room for only k items in a tick.  Items that are refused
     stay in the last stage and the items behind them in the same lane wait
     (LaneExclusive).

   Where the statement is silent the specification is non-deterministic:
     - which free lane an accepted item gets,
     - which of several ready items leave when the sink has room for fewer (at
       least one does when there is room for one; all do when there is room for all).
   An item whose slot ahead is vacated in this very tick moves up in the same tick:
   that is forced by the exact latency of back-to-back items in one lane.
   The replay driver follows whichever allowed alternative the real pipeline
   takes (vlib/ndfollow.py).

   `last` = [op, arg, res] is the operation record.  Items are numbered
   1, 2, ... in acceptance order.                                            *)
EXTENDS Naturals, Sequences, FiniteSets, TLC, Json, SequencesExt
CONSTANTS MaxW, MaxS, MaxD, MaxItems

VARIABLES w,       \* lanes
          s,       \* stages
          n,       \* items accepted so far
          fl,      \* items in flight: set of [id, lane, stage, dwell, d0, age]
          outseq,  \* history: ids in the order they left
          clean,   \* history: so far the sink had room for every ready item
          last
vars == <<w, s, n, fl, outseq, clean, last>>

Ids(S) == {x.id : x \in S}
Obs(S) == SetToSortSeq({[id |-> x.id, lane |-> x.lane, stage |-> x.stage, dwell |-> x.dwell] : x \in S},
                       LAMBDA a, b : a.id < b.id)
St  == [w |-> w, s |-> s, n |-> n, items |-> Obs(fl)]
St2 == [w |-> w', s |-> s', n |-> n', items |-> Obs(fl')]

Init == /\ w \in 1..MaxW
        /\ s \in 1..MaxS
        /\ n = 0
        /\ fl = {}
        /\ outseq = <<>>
        /\ clean = TRUE
        /\ last = [op |-> "new", arg |-> 0, res |-> 0]
        /\ PrintT(<<"INIT", ToJson(St)>>)

Op(o, a, r) == last' = [op |-> o, arg |-> a, res |-> r]

FreeLanes == {l \in 0..(w-1) : ~ \E x \in fl : x.stage = 0 /\ x.lane = l}

CanAccept == /\ UNCHANGED <<w, s, n, fl, outseq, clean>>
             /\ Op("canaccept", 0, FreeLanes # {})

(* Accept(item) and AcceptWithDelay(item, d): bounded by free lanes *)
AcceptItem(o, d) ==
    /\ n < MaxItems
    /\ \E l \in FreeLanes :
         fl' = fl \cup {[id |-> n + 1, lane |-> l, stage |-> 0, dwell |-> d, d0 |-> d, age |-> 0]}
    /\ n' = n + 1
    /\ UNCHANGED <<w, s, outseq, clean>>
    /\ Op(o, d, "ok")

(* one tick with room for k items in the sink *)
Ready == {x \in fl : x.stage = s - 1 /\ x.dwell = 0}
SortedIds(S) == SetToSortSeq(S, LAMBDA a, b : a < b)

Tick(k) ==
  \E L \in SUBSET Ready :
    /\ Cardinality(L) <= k
    /\ (k >= Cardinality(Ready)) => (L = Ready)
    /\ (k >= 1 /\ Ready # {}) => (L # {})
    /\ LET R    == fl \ L                                            \* items that remain
           Cand == {x \in R : x.dwell = 0 /\ x.stage < s - 1}        \* want to move one stage ahead
           Ahead(x) == {y \in fl : y.lane = x.lane /\ y.stage = x.stage + 1}
       IN \E Mv \in SUBSET Cand :
            /\ \A x \in Cand :
                 \* x moves exactly when the slot ahead is free once the items ahead have moved:
                 \* an occupant that stays blocks it (LaneExclusive); an occupant that moves on
                 \* or leaves in this tick does not (otherwise LatencyExact fails for back-to-back
                 \* items in one lane even though the sink always has room - TLC shows this)
                 (x \in Mv) <=> ~ (\E y \in Ahead(x) : y \in R /\ y \notin Mv)
            /\ LET clean2 == clean /\ (L = Ready)
                   NewAge(x) == IF clean2 THEN x.age + 1 ELSE 0
               IN /\ fl' = {[x EXCEPT !.stage = IF x \in Mv THEN x.stage + 1 ELSE x.stage,
                                      !.dwell = IF x.dwell > 0 THEN x.dwell - 1 ELSE 0,
                                      !.age = NewAge(x)] : x \in R}
                  /\ clean' = clean2
            /\ outseq' = outseq \o SortedIds(Ids(L))
            /\ UNCHANGED <<w, s, n>>
            /\ Op("tick", k, SortedIds(Ids(L)))

Next == \/ CanAccept
        \/ AcceptItem("accept", 0)
        \/ \E d \in 0..MaxD : AcceptItem("acceptd", d)
        \/ \E k \in 0..w : Tick(k)
Spec == Init /\ [][Next]_vars

View == <<w, s, n, fl, outseq, clean>>
(* for emitting the graph only: the operations' outcomes depend on nothing but this *)
ViewObs == <<w, s, n, {[id |-> x.id, lane |-> x.lane, stage |-> x.stage, dwell |-> x.dwell] : x \in fl}>>
Emit == PrintT(<<"EDGE", ToJson([s |-> St, a |-> last', t |-> St2])>>)

(* ---- properties of the statement, checked by TLC on this specification ---- *)
OutSet == {outseq[i] : i \in 1..Len(outseq)}

TypeOK == /\ \A x \in fl : x.lane \in 0..(w-1) /\ x.stage \in 0..(s-1) /\ x.dwell \in 0..MaxD
          /\ n \in 0..MaxItems

(* an accepted item is either in flight or has left, never both, and leaves once *)
Conservation == /\ Ids(fl) \cap OutSet = {}
                /\ Ids(fl) \cup OutSet = 1..n
                /\ Cardinality(Ids(fl)) = Cardinality(fl)
                /\ Len(outseq) = Cardinality(OutSet)

LaneExclusive == \A x, y \in fl : (x.lane = y.lane /\ x.stage = y.stage) => x = y

(* with a sink that always had room: nothing overstays, and what leaves has been
   inside for exactly s + d ticks *)
LatencyInv == clean => \A x \in fl : x.age < s + x.d0
LatencyExact ==
  [][clean' => \A x \in fl : (x.id \notin Ids(fl')) => (x.age + 1 = s + x.d0)]_vars

OneLaneFifo == (w = 1) => \A i \in 1..Len(outseq) : outseq[i] = i

(* liveness (Pipeline_live.cfg): under weak fairness of ticks with full room
   every accepted item eventually leaves *)
LiveSpec == Spec /\ WF_vars(Tick(w))
NeverStranded == \A i \in 1..MaxItems : (i \in Ids(fl)) ~> (i \in OutSet)
=========================================================================
