SPECIFICATION Spec
CONSTANTS
  W = 7
  Shapes <- ShapesT
  MaxLen = 6
  MaxWrites = 2
VIEW View
ACTION_CONSTRAINT Emit
INVARIANT Bounded
PROPERTY StepOK
CHECK_DEADLOCK FALSE
