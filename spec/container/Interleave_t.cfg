SPECIFICATION Spec
CONSTANTS
  Sizes = {1, 2, 3, 4, 5, 6, 7, 8}
  Ns = {1, 2, 3, 4}
  Offsets = {0, 1, 2, 3, 4, 5, 6, 7, 8, 9, 10, 11, 12, 13, 14, 15, 16, 17, 18, 20, 21, 24, 28, 30, 32, 33}
  Rounds = 3
INVARIANT Partition
INVARIANT Bijection
INVARIANT Monotone
INVARIANT Contiguous
INVARIANT Glued
INVARIANT StartsAtZero
INVARIANT ClosedForm
INVARIANT Covered
CHECK_DEADLOCK FALSE
