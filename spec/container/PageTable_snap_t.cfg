SPECIFICATION Spec
CONSTANTS
  NP = 3
  NV = 1
  NPA = 2
  PageVals <- PagesSmall
  Offs = {0, 4095}
  Snapshots = TRUE
VIEW View
ACTION_CONSTRAINT Emit
INVARIANT TypeOK
PROPERTY MapStep
PROPERTY Effect
PROPERTY FindAgrees
PROPERTY ReverseSound
PROPERTY RestoreExact
CHECK_DEADLOCK FALSE
