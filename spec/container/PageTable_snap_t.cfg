SPECIFICATION Spec
CONSTANTS
  NP = 2
  NV = 2
  NPA = 2
  PageVals <- PagesTwo
  Offs = {0}
  Snapshots = TRUE
VIEW View
ACTION_CONSTRAINT Emit
INVARIANT TypeOK
PROPERTY MapStep
PROPERTY Effect
PROPERTY FindAgrees
PROPERTY ReverseSound
PROPERTY RestoreExact
CHECK_DEADLOCK FALSE
