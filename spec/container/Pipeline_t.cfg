SPECIFICATION Spec
CONSTANTS
  MaxW = 3
  MaxS = 3
  MaxD = 2
  MaxItems = 4
VIEW ViewObs
ACTION_CONSTRAINT Emit
INVARIANT TypeOK
INVARIANT LaneExclusive
CHECK_DEADLOCK FALSE
