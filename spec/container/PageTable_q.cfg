SPECIFICATION Spec
CONSTANTS
  NP = 2
  NV = 2
  NPA = 2
  PageVals <- PagesFull
  Offs = {0, 4095}
VIEW View
ACTION_CONSTRAINT Emit
INVARIANT TypeOK
PROPERTY MapStep
PROPERTY Effect
PROPERTY FindAgrees
PROPERTY ReverseSound
CHECK_DEADLOCK FALSE
