SPECIFICATION Spec
CONSTANTS
  MinWays = 0
  MaxWays = 3
  NKeys = 1
  Snapshots = TRUE
VIEW View
ACTION_CONSTRAINT Emit
INVARIANT TypeOK
INVARIANT LeastRecentFirst
PROPERTY EvictIsLRU
PROPERTY VisitIsMRU
PROPERTY Independent
PROPERTY RestoreExact
CHECK_DEADLOCK FALSE
