SPECIFICATION Spec
CONSTANTS
  MinWays = 2
  MaxWays = 2
  NKeys = 2
  Snapshots = TRUE
VIEW View
ACTION_CONSTRAINT Emit
INVARIANT TypeOK
INVARIANT LeastRecentFirst
PROPERTY EvictIsLRU
PROPERTY VisitIsMRU
PROPERTY Independent
PROPERTY RestoreExact
CHECK_DEADLOCK FALSE
