---------------------------- MODULE Buffer ----------------------------
(* C14 — queueing.Buffer as the bounded FIFO list the statement describes.
   One action per public operation; `last` carries the operation record
   (op, arg, expected result) for behaviour replay on the real object.    *)
EXTENDS Naturals, Sequences, TLC, Json
CONSTANTS MaxCap, Vals
VARIABLES cap, q, last
vars == <<cap, q, last>>
St == [cap |-> cap, q |-> q]
St2 == [cap |-> cap', q |-> q']

Init == /\ cap \in 0..MaxCap
        /\ q = <<>>
        /\ last = [op |-> "new", arg |-> cap, res |-> 0]
        /\ PrintT(<<"INIT", ToJson(St)>>)

Op(o, a, r) == last' = [op |-> o, arg |-> a, res |-> r]
Same == UNCHANGED <<cap, q>>

CanPush  == Same /\ Op("canpush", 0, Len(q) < cap)
Size     == Same /\ Op("size", 0, Len(q))
Capacity == Same /\ Op("capacity", 0, cap)
Peek     == Same /\ Op("peek", 0, IF q = <<>> THEN 0 ELSE Head(q))
Elements == Same /\ Op("elements", 0, q)
Push(v)  == \/ /\ Len(q) < cap /\ q' = Append(q, v) /\ UNCHANGED cap /\ Op("push", v, "ok")
            \/ /\ Len(q) >= cap /\ Same /\ Op("push", v, "refused")
Pop      == /\ q' = (IF q = <<>> THEN q ELSE Tail(q)) /\ UNCHANGED cap
            /\ Op("pop", 0, IF q = <<>> THEN 0 ELSE Head(q))
UpdateFront(v) == /\ q' = (IF q = <<>> THEN q ELSE <<v>> \o Tail(q)) /\ UNCHANGED cap
                  /\ Op("updatefront", v, "ok")
Clear    == /\ q' = <<>> /\ UNCHANGED cap /\ Op("clear", 0, "ok")
(* snapshot (Elements) then Restore into a fresh buffer of the same name/capacity *)
SnapRestore == Same /\ Op("snaprestore", 0, "ok")
(* MarshalJSON then UnmarshalJSON into a zero Buffer *)
JsonRT   == Same /\ Op("jsonrt", 0, "ok")
(* UnmarshalJSON of this buffer's JSON into ANOTHER live buffer that holds other elements
   (checkpoint reload into an existing component): the target becomes equal to this buffer *)
JsonIntoUsed == Same /\ Op("jsonintoused", 0, "ok")
(* Restore of an arbitrary content: accepted iff it fits *)
Restore(els) == \/ /\ Len(els) <= cap /\ q' = els /\ UNCHANGED cap /\ Op("restore", els, "ok")
                \/ /\ Len(els) > cap /\ Same /\ Op("restore", els, "refused")

SeqsUpTo(n) == UNION {[1..k -> Vals] : k \in 0..n}

Next == \/ CanPush \/ Size \/ Capacity \/ Peek \/ Elements \/ Pop \/ Clear \/ SnapRestore \/ JsonRT \/ JsonIntoUsed
        \/ \E v \in Vals : Push(v) \/ UpdateFront(v)
        \/ \E els \in SeqsUpTo(MaxCap + 1) : Restore(els)
Spec == Init /\ [][Next]_vars

View == <<cap, q>>
Emit == PrintT(<<"EDGE", ToJson([s |-> St, a |-> last', t |-> St2])>>)

Bounded == Len(q) <= cap
FifoStep == [][\/ q' = q
               \/ \E v \in Vals : q' = Append(q, v)
               \/ (q # <<>> /\ q' = Tail(q))
               \/ (q # <<>> /\ \E v \in Vals : q' = <<v>> \o Tail(q))
               \/ q' = <<>>
               \/ last'.op = "restore"]_vars
=======================================================================
