SPECIFICATION LiveSpec
CONSTANTS
  MaxW = 2
  MaxS = 3
  MaxD = 2
  MaxItems = 3
INVARIANT Conservation
PROPERTY NeverStranded
CHECK_DEADLOCK FALSE
