SPECIFICATION Spec
CONSTANTS
  MaxW = 3
  MaxS = 3
  MaxD = 2
  MaxItems = 4
VIEW View
INVARIANT TypeOK
INVARIANT Conservation
INVARIANT LaneExclusive
INVARIANT LatencyInv
INVARIANT OneLaneFifo
PROPERTY LatencyExact
CHECK_DEADLOCK FALSE
