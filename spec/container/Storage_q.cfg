SPECIFICATION Spec
CONSTANTS
  W = 5
  Shapes <- ShapesQ
  MaxLen = 4
  MaxWrites = 2
VIEW View
ACTION_CONSTRAINT Emit
INVARIANT Bounded
PROPERTY StepOK
CHECK_DEADLOCK FALSE
