SPECIFICATION Spec
CONSTANTS
  Sizes = {1, 2, 3, 4}
  Ns = {1, 2, 3}
  Offsets = {0, 1, 2, 3, 4, 5, 6, 7, 8, 12}
  Rounds = 2
INVARIANT Partition
INVARIANT Bijection
INVARIANT Monotone
INVARIANT Contiguous
INVARIANT Glued
INVARIANT StartsAtZero
INVARIANT ClosedForm
INVARIANT Covered
CHECK_DEADLOCK FALSE
