---------------------------- MODULE Interleave ----------------------------
(* C24 — interleaved address conversion, defined from the statement.

   Reading (fixed after reading what `Offset` means in the code: the
   interleaved region starts at the offset):  the external addresses from the
   offset upwards are cut into stripes of `size` consecutive addresses, stripe
   number 0 starting at the offset; stripes are dealt round-robin to the `n`
   elements (stripe k belongs to element k mod n).  An element owns the
   addresses of its stripes.  The element's internal address space is
   0, 1, 2, ...; the conversion is THE order-preserving one-to-one map of the
   owned addresses onto it, i.e.

        internal(a) = number of addresses owned by the same element that are
                      smaller than a                                  (rank)

   Nothing is said about addresses below the offset: they do not occur here.

   Every <<size, n, off>> is one initial state; `owner` and `internal` are the
   tables over the explored address range, computed from the definitions above
   (sets and counting — no division).  TLC checks, per configuration, that the
   tables have the properties the statement names (one-to-one and onto, in
   order, contiguous within a stripe, consecutive stripes of an element are
   glued together) and that they coincide with the closed arithmetic form,
   and prints one CASE line per configuration for the replay on the real
   converters / port mapper / bank selection.                              *)
EXTENDS Integers, Sequences, FiniteSets, TLC, Json
CONSTANTS Sizes, Ns, Offsets,
          Rounds      \* the explored range is Rounds full rounds plus one stripe plus one address
VARIABLES size, n, off, owner, internal
vars == <<size, n, off, owner, internal>>

ASSUME /\ Sizes \subseteq Nat \ {0} /\ Ns \subseteq Nat \ {0} /\ Offsets \subseteq Nat
       /\ Rounds \in Nat \ {0}

RangeLen(s, m)  == Rounds * s * m + s + 1
Range(s, m, o)  == o .. o + RangeLen(s, m) - 1
NStripes(s, m)  == Rounds * m + 2

(* ---- the statement's notions as sets ---------------------------------- *)
Stripe(s, o, k)     == {o + k * s + j : j \in 0 .. s - 1}
StripesOf(s, m, o, a) == {k \in 0 .. NStripes(s, m) - 1 : a \in Stripe(s, o, k)}
StripeOf(s, m, o, a)  == CHOOSE k \in StripesOf(s, m, o, a) : TRUE
OwnerOf(s, m, o, a)   == StripeOf(s, m, o, a) % m

Init == /\ size \in Sizes /\ n \in Ns /\ off \in Offsets
        /\ owner = [a \in Range(size, n, off) |-> OwnerOf(size, n, off, a)]
        /\ internal = [a \in Range(size, n, off) |->
                          Cardinality({b \in Range(size, n, off) : b < a /\ owner[b] = owner[a]})]
        /\ PrintT(<<"CASE", ToJson([size |-> size, n |-> n, off |-> off,
                                    rows |-> [t \in 1 .. RangeLen(size, n) |->
                                                <<off + t - 1, owner[off + t - 1], internal[off + t - 1]>>]])>>)

Next == UNCHANGED vars
Spec == Init /\ [][Next]_vars

R        == Range(size, n, off)
Owned(i) == {a \in R : owner[a] = i}
Elems    == 0 .. n - 1

(* ---- properties of the tables ------------------------------------------ *)
(* every address of the range lies in exactly one stripe, owners are elements *)
Partition == \A a \in R : /\ Cardinality(StripesOf(size, n, off, a)) = 1
                          /\ owner[a] \in Elems
(* one-to-one and onto 0 .. |owned|-1 *)
Bijection == \A i \in Elems :
                /\ \A a, b \in Owned(i) : a # b => internal[a] # internal[b]
                /\ {internal[a] : a \in Owned(i)} = 0 .. Cardinality(Owned(i)) - 1
(* in order *)
Monotone == \A i \in Elems : \A a, b \in Owned(i) : a < b => internal[a] < internal[b]
(* a contiguous external range within one stripe maps to a contiguous internal range *)
Contiguous == \A a \in R : (a + 1 \in R /\ StripeOf(size, n, off, a) = StripeOf(size, n, off, a + 1))
                              => internal[a + 1] = internal[a] + 1
(* the last address of a stripe and the first address of the element's next stripe are neighbours *)
Glued == \A a \in R : (a + 1 \in R /\ a + (n - 1) * size + 1 \in R
                        /\ StripeOf(size, n, off, a) # StripeOf(size, n, off, a + 1))
                         => /\ owner[a + (n - 1) * size + 1] = owner[a]
                            /\ internal[a + (n - 1) * size + 1] = internal[a] + 1
(* the first address of every element's first stripe is internal address 0 *)
StartsAtZero == \A i \in Elems : internal[off + i * size] = 0 /\ owner[off + i * size] = i
(* closed form *)
ClosedForm == \A a \in R : /\ owner[a] = ((a - off) \div size) % n
                           /\ internal[a] = ((a - off) \div (size * n)) * size + ((a - off) % size)
(* the explored range really contains Rounds full rounds for every element *)
Covered == Cardinality(R) = RangeLen(size, n) /\ \A i \in Elems : Cardinality(Owned(i)) >= Rounds * size
=======================================================================
