--------------------------- MODULE TraceCommon ---------------------------
(* Shared plumbing of every trace specification: the recorded trace (ndjson, one
   record per specification action, file named by the TRACE_FILE environment
   variable), the position variable's helpers and acceptance by high-water mark.
   Run with -workers 1 (TLCSet registers are per worker).                      *)
EXTENDS Naturals, Sequences, TLC, Json, IOUtils
Trace == ndJsonDeserialize(IOEnv.TRACE_FILE)
TraceLen == Len(Trace)
(* register 1: highest trace position reached (initialised by TraceMarkInit) *)
TraceMarkInit == TLCSet(1, 1)
TraceMark(l) == IF l > TLCGet(1) THEN TLCSet(1, l) ELSE TRUE
TraceAccepted == IF TLCGet(1) = TraceLen + 1 THEN TRUE
                 ELSE /\ PrintT(<<"REJECTED", ToJson([matched |-> TLCGet(1) - 1, len |-> TraceLen,
                                                      next |-> IF TLCGet(1) <= TraceLen THEN Trace[TLCGet(1)] ELSE [e |-> "eof"]])>>)
                      /\ FALSE
===========================================================================
