----------------------------- MODULE CtrlTrace -----------------------------
(* B2 for C18: the rules of the statement evaluated over a trace recorded at the
   agent's OWN ports (hooks of its Control and Top ports, one serial event order)
   while a driver sends verb sequences and live data traffic to a real memory agent.

   Monitor style: the structure (pending control requests, data requests received /
   accepted / answered, running-or-paused as the acknowledgments define it) is tracked
   exactly; every rule is a soft check that prints a CASE record naming the rule.

     creq  control request received at the Control port          {id, v}
     crsp  control response emitted at the Control port           {id, v, out, dst}
     dreq  data request received at the Top port                  {id}
     dacc  data request taken from the Top buffer by the agent    {id}
     drsp  data response emitted at the Top port                  {id}   (0 = no known request)
     st    projected component state after the tick that sent exactly one ack {ctl, q}
     end   engine ran dry                                         {ctl, q, timeout, panic, epi}

   Rules (class names):
     one response per request, carrying command and id, in request order:
        response_without_pending_request, response_out_of_request_order,
        response_command_mismatch, response_not_addressed_to_requester,
        control_request_never_answered
     refusals (matrix of CONTROL_PROTOCOL.md, CtrlMatrix.tla):
        unsupported_verb_not_refused_as_unsupported,
        conditional_verb_while_running_not_refused_as_illegal, supported_legal_verb_refused
     data_response_while_paused   (a drain in progress is the one exception: Drain
                                   is defined as letting in-flight work finish)
     drain_ack_not_quiescent, post_state (projected state after pause/drain/enable/reset/...)
     response_to_pre_reset_request
     request_queued_during_pause_not_served_after_enable (request_never_served: note only) *)
EXTENDS CtrlMatrix, Integers, TLC, TraceCommon
VARIABLES kind, pend, seen, running, queued, acc, stale, qdp, lastAck, l
tvars == <<kind, pend, seen, running, queued, acc, stale, qdp, lastAck, l>>
Ev == Trace[l]

Report(class, d) == PrintT(<<"CASE", ToJson([class |-> class, l |-> l, d |-> d])>>)
Soft(cond, class, d) == IF cond THEN TRUE ELSE Report(class, d)

None == [v |-> "none", out |-> "none"]
TInit == /\ kind = "universal" /\ pend = <<>> /\ seen = {} /\ running = TRUE /\ queued = {} /\ acc = {}
         /\ stale = {} /\ qdp = {} /\ lastAck = None /\ l = 1 /\ TraceMarkInit

TBegin == /\ Ev.e = "begin" /\ Ev.kind \in Kinds
          /\ kind' = Ev.kind /\ pend' = <<>> /\ seen' = {} /\ running' = TRUE /\ queued' = {} /\ acc' = {}
          /\ stale' = {} /\ qdp' = {} /\ lastAck' = None

TCreq == /\ Ev.e = "creq" /\ Ev.v \in Verbs
         /\ Soft(Ev.id \notin seen, "duplicate_request_id", [id |-> Ev.id])
         /\ pend' = Append(pend, [id |-> Ev.id, v |-> Ev.v]) /\ seen' = seen \cup {Ev.id}
         /\ UNCHANGED <<kind, running, queued, acc, stale, qdp, lastAck>>

Pending(id) == \E i \in DOMAIN pend : pend[i].id = id
ReqOf(id) == pend[CHOOSE i \in DOMAIN pend : pend[i].id = id]
RefusalClass(exp) == IF exp = "unsupported" THEN "unsupported_verb_not_refused_as_unsupported"
                     ELSE IF exp = "illegal" THEN "conditional_verb_while_running_not_refused_as_illegal"
                     ELSE "supported_legal_verb_refused"
TCrsp == /\ Ev.e = "crsp"
         /\ Soft(Ev.dst, "response_not_addressed_to_requester", [id |-> Ev.id])
         /\ IF ~Pending(Ev.id)
            THEN /\ Report("response_without_pending_request", [id |-> Ev.id, v |-> Ev.v, answered_before |-> Ev.id \in seen])
                 /\ UNCHANGED <<kind, pend, seen, running, queued, acc, stale, qdp, lastAck>>
            ELSE LET rq == ReqOf(Ev.id)
                     inorder == Head(pend).id = Ev.id
                     exp == Outcome(kind, rq.v, running)
                     done == Ev.out = "ok"
                 IN /\ Soft(inorder, "response_out_of_request_order", [id |-> Ev.id, v |-> rq.v, head |-> Head(pend)])
                    /\ Soft(rq.v = Ev.v, "response_command_mismatch", [id |-> Ev.id, request |-> rq.v, response |-> Ev.v])
                    /\ inorder => Soft(Ev.out = exp, RefusalClass(exp), [v |-> rq.v, running |-> running, expected |-> exp, got |-> Ev.out])
                    /\ (done /\ rq.v = "drain") => Soft(acc = {}, "drain_ack_not_quiescent", [accepted_unanswered |-> acc])
                    /\ pend' = SelectSeq(pend, LAMBDA x : x.id # Ev.id)
                    /\ running' = RunningAfter(rq.v, IF done THEN "ok" ELSE "refused", running)
                    /\ IF done /\ rq.v = "reset"
                       THEN stale' = stale \cup queued \cup acc /\ queued' = {} /\ acc' = {} /\ qdp' = {}
                       ELSE UNCHANGED <<stale, queued, acc, qdp>>
                    /\ lastAck' = [v |-> rq.v, out |-> Ev.out]
                    /\ UNCHANGED <<kind, seen>>

TDreq == /\ Ev.e = "dreq"
         /\ queued' = queued \cup {Ev.id}
         /\ qdp' = (IF running THEN qdp ELSE qdp \cup {Ev.id})
         /\ UNCHANGED <<kind, pend, seen, running, acc, stale, lastAck>>
TDacc == /\ Ev.e = "dacc"
         /\ IF Ev.id \in queued THEN acc' = acc \cup {Ev.id} /\ queued' = queued \ {Ev.id} ELSE UNCHANGED <<acc, queued>>
         /\ UNCHANGED <<kind, pend, seen, running, stale, qdp, lastAck>>
Draining == pend # <<>> /\ Head(pend).v = "drain"
TDrsp == /\ Ev.e = "drsp"
         /\ Soft(Ev.id \notin stale, "response_to_pre_reset_request", [id |-> Ev.id])
         /\ Soft(running \/ Draining, "data_response_while_paused",
                 [id |-> Ev.id, during |-> IF pend = <<>> THEN "none" ELSE Head(pend).v])
         /\ acc' = acc \ {Ev.id} /\ queued' = queued \ {Ev.id} /\ qdp' = qdp \ {Ev.id}
         /\ UNCHANGED <<kind, pend, seen, running, stale, lastAck>>

PostOK(v, ctl, q) == CASE v \in {"pause", "invalidate", "flush"} -> ctl = "paused"
                       [] v = "drain" -> ctl = "paused" /\ q
                       [] v = "enable" -> ctl = "enabled"
                       [] v = "reset" -> ctl = "enabled" /\ q
                       [] OTHER -> TRUE
TSt == /\ Ev.e = "st"
       /\ (lastAck.out = "ok") => Soft(PostOK(lastAck.v, Ev.ctl, Ev.q), "post_state", [after |-> lastAck.v, ctl |-> Ev.ctl, quiescent |-> Ev.q])
       /\ UNCHANGED <<kind, pend, seen, running, queued, acc, stale, qdp, lastAck>>

TEnd == /\ Ev.e = "end"
        /\ ~Ev.panic =>
             /\ Soft(pend = <<>>, "control_request_never_answered", [pending |-> pend, timeout |-> Ev.timeout])
             /\ (running /\ pend = <<>> /\ Ev.epi) =>
                  /\ Soft(qdp = {}, "request_queued_during_pause_not_served_after_enable", [ids |-> qdp])
                  /\ Soft((queued \cup acc) \ qdp = {}, "request_never_served", [ids |-> (queued \cup acc) \ qdp])
                  /\ Soft(Ev.ctl = "enabled", "post_state", [after |-> "enable", ctl |-> Ev.ctl, quiescent |-> Ev.q])
        /\ UNCHANGED <<kind, pend, seen, running, queued, acc, stale, qdp, lastAck>>

TNext == l <= TraceLen /\ l' = l + 1 /\ (TBegin \/ TCreq \/ TCrsp \/ TDreq \/ TDacc \/ TDrsp \/ TSt \/ TEnd)
TSpec == TInit /\ [][TNext]_tvars
Mark == TraceMark(l)
(* hard invariant of the tracked structure *)
Disjoint == queued \cap acc = {} /\ qdp \subseteq queued \cup acc
=============================================================================
