----------------------------- MODULE FlushRules -----------------------------
(* C17 — the rule the statement gives for a flush restricted by address or process,
   over what can be observed of a cache: its directory before and after the flush
   (one slot per way: tag, process id, valid, dirty) and the lines it wrote to its
   lower module in between.

     "writes back exactly the matching dirty lines, leaves every line valid, and
      leaves non-matching dirty lines dirty"

   A filter F = [addrs, pid]: addrs a set of byte addresses (empty = every address; an
   address selects the line containing it), pid a process id (0 = every process).
   A slot matches when both parts match.                                          *)
EXTENDS Integers, Sequences, FiniteSets
LineOf(a, bs) == (a \div bs) * bs
Matches(b, F, bs) == /\ F.pid = 0 \/ b.pid = F.pid
                     /\ F.addrs = {} \/ b.tag \in {LineOf(a, bs) : a \in F.addrs}
Selected(b, F, bs) == b.valid /\ b.dirty /\ Matches(b, F, bs)
(* slot rules; b = before, a = after *)
StaysValid(b, a) == b.valid => (a.valid /\ a.tag = b.tag /\ a.pid = b.pid)
NothingAppears(b, a) == ~b.valid => ~a.valid
DirtyRule(b, a, F, bs) == b.valid => (a.dirty <=> (b.dirty /\ ~Matches(b, F, bs)))
(* the lines written downwards are exactly the selected ones, each once per selected slot *)
Count(seq, x) == Cardinality({i \in 1..Len(seq) : seq[i] = x})
WrittenExactly(before, wrote, F, bs) ==
    LET sel == {i \in 1..Len(before) : Selected(before[i], F, bs)} IN
    /\ \A i \in sel : Count(wrote, before[i].tag) = Cardinality({j \in sel : before[j].tag = before[i].tag})
    /\ \A k \in 1..Len(wrote) : \E i \in sel : before[i].tag = wrote[k]
(* wrote minus one occurrence of every element of rem (write-backs that were already queued
   in the cache's write buffer when the flush was requested are not the flush's doing) *)
RECURSIVE RemoveOnce(_, _)
RemoveOnce(s, x) == IF s = <<>> THEN <<>> ELSE IF Head(s) = x THEN Tail(s) ELSE <<Head(s)>> \o RemoveOnce(Tail(s), x)
RECURSIVE Without(_, _)
Without(s, rem) == IF rem = <<>> THEN s ELSE Without(RemoveOnce(s, Head(rem)), Tail(rem))
FlushFilteredOK(before, after, wrote, F, bs) ==
    /\ Len(after) = Len(before)
    /\ \A i \in 1..Len(before) : /\ StaysValid(before[i], after[i]) /\ NothingAppears(before[i], after[i])
                                 /\ DirtyRule(before[i], after[i], F, bs)
    /\ WrittenExactly(before, wrote, F, bs)
=============================================================================
