SPECIFICATION Spec
CONSTANTS
  MaxT = 5
  T <- ToyFaw
  Fam = "ddr"
  BankKeys <- FiveBanks
  Rows = {0}
  CmdKinds <- FawKinds
  Free = FALSE
INVARIANT NoFawWitness
CHECK_DEADLOCK FALSE
VIEW MonView
