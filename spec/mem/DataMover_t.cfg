SPECIFICATION Spec
CONSTANTS
  N = 64
  Grans = {4, 8, 12, 16}
  Bufs = {0, 6, 14, 16, 24, 64}
  Addrs = {0, 4, 8, 12, 16, 32}
  Sizes = {0, 3, 4, 8, 12, 16, 20, 24, 32}
  MaxReqs = 2
  Grans2 = {4, 12, 16}
  Bufs2 = {6, 16, 24}
  Addrs2 = {0, 48}
  Sizes2 = {8, 16}
INVARIANT TypeOK
INVARIANT FifoOneAck
INVARIANT ConfigIndependent
INVARIANT Untouched
INVARIANT Emit
PROPERTY ExactCopy
CHECK_DEADLOCK FALSE
