SPECIFICATION Spec
CONSTANTS
  Addr = {0, 1}
  Byte = {0, 1}
  Ids = {i1, i2, i3}
  MaxLen = 2
  MaxOut = 2
  Requester = "R"
  Ports = {"R", "X"}
  CheckOverlap = TRUE
  Faulty = FALSE
SYMMETRY IdSym
INVARIANT MemIsFlat
INVARIANT ReadsFlat
INVARIANT AtMostOnce
INVARIANT EndsAnswered
INVARIANT NoOverlapInv
INVARIANT NothingBad
PROPERTY ExpectedStable
CHECK_DEADLOCK FALSE
