---------------------------- MODULE DirectoryTrace ----------------------------
(* C19 — validation of directory states recorded from real caches (harness driver
   cachedir).  Each line of the ndjson file named by TRACE_FILE is one observed
   directory value `d` (shape of DirectoryDefs) with the observation point `at`;
   consecutive records are consecutive observations of one cache (taken at every
   hook invocation inside the cache's pipeline and after every engine event, a
   record is written whenever the projected directory changed).

   Every record must be WellFormed and every step must satisfy StepOK (a way that
   holds another line after the step was neither locked nor read before it).  One
   state per record; a REJECTED line is printed for every record that contradicts
   the statement (witnesses that are new with respect to the previous record), and
   JUDGED at the end, so that one known defect does not hide another.           *)
EXTENDS Integers, Sequences, FiniteSets, TLC, Json, IOUtils, DirectoryDefs
Trace == ndJsonDeserialize(IOEnv.TRACE_FILE)
VARIABLE i
D(k) == Trace[k].d

NewOrder(k) == IF k = 1 THEN BadOrderSets(D(1)) ELSE BadOrderSets(D(k)) \ BadOrderSets(D(k - 1))
NewDups(k) == IF k = 1 THEN DupPairs(D(1)) ELSE DupPairs(D(k)) \ DupPairs(D(k - 1))
NewMisplaced(k) == IF k = 1 THEN Misplaced(D(1)) ELSE Misplaced(D(k)) \ Misplaced(D(k - 1))
NewNegative(k) == IF k = 1 THEN NegativeReaders(D(1)) ELSE NegativeReaders(D(k)) \ NegativeReaders(D(k - 1))
ShapeChanged(k) == k > 1 /\ ~SameShape(D(k - 1), D(k))
BusyReplaced(k) == IF k = 1 \/ ShapeChanged(k) THEN {} ELSE ReplacedBusy(D(k - 1), D(k))

Bad(k) == \/ NewOrder(k) # {} \/ NewDups(k) # {} \/ NewMisplaced(k) # {} \/ NewNegative(k) # {}
          \/ ShapeChanged(k) \/ BusyReplaced(k) # {}
Verdict(k) == [i |-> k, at |-> Trace[k].at,
               order |-> NewOrder(k), dups |-> NewDups(k), misplaced |-> NewMisplaced(k),
               negative |-> NewNegative(k), shape |-> ShapeChanged(k), busyreplaced |-> BusyReplaced(k),
               d |-> D(k), prev |-> IF k > 1 THEN D(k - 1) ELSE <<>>]

Init == i = 1
Next == i < Len(Trace) /\ i' = i + 1
Spec == Init /\ [][Next]_i
Report == (i <= Len(Trace) /\ Bad(i)) => PrintT(<<"REJECTED", ToJson(Verdict(i))>>)
Judged == PrintT(<<"JUDGED", ToJson([n |-> Len(Trace), states |-> TLCGet("stats").distinct])>>)
===============================================================================
