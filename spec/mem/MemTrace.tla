------------------------------ MODULE MemTrace ------------------------------
(* B2 for C16: the requester-side events recorded from a real stack (real caches, ROBs,
   controllers and direct connections on the real serial engine) are checked against
   MemHier.  A monitor: the requester's own steps (issue) are structural and must fit —
   in particular the precondition "no two in-flight requests touch a common byte" is a
   hard condition on the recorded trace — while every response is classified with
   MemHier!Class, the statement's per-response rule, against the flat memory `mem`
   that this specification maintains from the acknowledged writes.  A response of a class
   other than "ok" prints one CASE record (first occurrence of the class in the run) and
   validation goes on; a response that names an unanswered request retires it.

   Records (ndjson, one per step):
     config  run size requester desc          a new run: everything is reset
     issue   id k addr len data mask          k = read | write; mask = <<>> means all bytes
     rsp     to k dst data                    k = data | done | other
     quiesce unissued livelock                the engine stopped
     panic   msg                              the real code panicked (recovered by the driver)
   Addresses are relative to the footprint base (0 .. size-1).                       *)
EXTENDS MemHier, TraceCommon
VARIABLES l, run, size
tvars == <<vars, l, run, size>>
Ev == Trace[l]

TraceAddr == Nat
TraceIds == Nat
TraceByte == 0..255

Report(class, d) == PrintT(<<"CASE", ToJson([class |-> class, run |-> run, l |-> l, d |-> d])>>)
(* one report per class and run *)
Flag(class, d) == /\ IF class \in bad THEN TRUE ELSE Report(class, d)
                  /\ bad' = bad \cup {class}

TInit == Init /\ l = 1 /\ run = 0 /\ size = 0 /\ TraceMarkInit

TConfig == /\ Ev.e = "config"
           /\ mem' = <<>> /\ outstanding' = {} /\ answered' = {} /\ bad' = {} /\ ended' = FALSE
           /\ run' = Ev.run /\ size' = Ev.size
           /\ UNCHANGED <<acked, log>>

(* the requester's step: it must honour its side of the contract, or the trace is rejected *)
TIssue == /\ Ev.e = "issue" /\ ~ended
          /\ LET r == [id |-> Ev.id, k |-> Ev.k, addr |-> Ev.addr, len |-> Ev.len, data |-> Ev.data, mask |-> Ev.mask] IN
             /\ r.k \in {"read", "write"} /\ r.len >= 1
             /\ Fresh(r.id)
             /\ r.addr >= 0 /\ r.addr + r.len <= size
             /\ r.k = "write" => Len(r.data) = r.len /\ (r.mask = <<>> \/ Len(r.mask) = r.len)
             /\ \A s \in outstanding : ~Touches(r, s)
             /\ outstanding' = outstanding \cup {r}
          /\ UNCHANGED <<mem, answered, acked, log, bad, ended, run, size>>

TRsp == /\ Ev.e = "rsp"
        /\ LET rsp == [to |-> Ev.to, k |-> Ev.k, dst |-> Ev.dst, data |-> Ev.data]
               c == Class(rsp) IN
           IF c = "ok"
           THEN LET r == Req(rsp.to) IN
                /\ outstanding' = outstanding \ {r}
                /\ answered' = answered \cup {r.id}
                /\ mem' = (IF r.k = "write" THEN Apply(mem, r) ELSE mem)
                /\ UNCHANGED bad
           ELSE /\ Flag(c, IF Known(rsp.to)
                           THEN [rsp |-> rsp, req |-> Req(rsp.to),
                                 want |-> IF Req(rsp.to).k = "read" THEN Expected(mem, Req(rsp.to)) ELSE <<>>]
                           ELSE [rsp |-> rsp])
                /\ IF Known(rsp.to)
                   THEN outstanding' = outstanding \ {Req(rsp.to)} /\ answered' = answered \cup {rsp.to}
                   ELSE UNCHANGED <<outstanding, answered>>
                /\ UNCHANGED mem
        /\ UNCHANGED <<acked, log, ended, run, size>>

(* "the run never ends with a request unanswered" *)
TQuiesce == /\ Ev.e = "quiesce"
            /\ IF outstanding = {} THEN UNCHANGED bad
               ELSE Flag(IF Ev.livelock THEN "never_answered_livelock" ELSE "never_answered",
                         [ids |-> {r.id : r \in outstanding}, unissued |-> Ev.unissued])
            /\ ended' = TRUE
            /\ UNCHANGED <<mem, outstanding, answered, acked, log, run, size>>

(* the real code panicked while serving the run (recovered by the driver) *)
TPanic == /\ Ev.e = "panic" /\ Flag("panic", [msg |-> Ev.msg])
          /\ UNCHANGED <<mem, outstanding, answered, acked, log, ended, run, size>>

TStep == TConfig \/ TIssue \/ TRsp \/ TQuiesce \/ TPanic
TNext == l <= TraceLen /\ l' = l + 1 /\ TStep
TSpec == TInit /\ [][TNext]_tvars
Mark == TraceMark(l)
(* the structure the monitor relies on *)
TraceShape == /\ \A r, s \in outstanding : r # s => (r.id # s.id /\ ~Touches(r, s))
              /\ \A r \in outstanding : r.id \notin answered
=============================================================================
