----------------------------- MODULE FlushTrace -----------------------------
(* B2 for C17: a C16 run (MemTrace) during which the requester drains and flushes every
   cache top-down through the control ports.  Additional records:

     ctl     comp kind cmd ok err answered     acknowledgment of Drain / Enable
     flush   comp kind bs addrs pid ok before after pending wrote reads
                                               one Flush: the filter, the cache's directory
                                               (slot by slot) before the request and after the
                                               acknowledgment, the lines written downwards in
                                               between (wrote) and the eviction write-backs that
                                               were already queued in its write buffer (pending)
     backing vals                              the controllers' storages over the footprint,
                                               read after the last cache was flushed

   Rules (FlushRules, Flush): every control command is acknowledged with success; each
   flush satisfies FlushFilteredOK; after the last flush the backing storage equals the
   flat memory `mem` at every written address that no unanswered write is touching.  *)
EXTENDS MemTrace, FlushRules

ByFlush == Without(Ev.wrote, Ev.pending)
Filter == [addrs |-> {Ev.addrs[i] : i \in 1..Len(Ev.addrs)}, pid |-> Ev.pid]
BadSlots(P(_)) == {i \in 1..Len(Ev.before) : ~P(i)}
FlushClass ==
    LET F == Filter bs == Ev.bs b == Ev.before a == Ev.after IN
    IF ~Ev.ok THEN "flush_refused"
    ELSE IF Len(a) # Len(b) THEN "flush_directory_changed_shape"
    ELSE IF \E i \in 1..Len(b) : ~StaysValid(b[i], a[i]) THEN "flush_line_no_longer_valid"
    ELSE IF \E i \in 1..Len(b) : ~NothingAppears(b[i], a[i]) THEN "flush_line_appeared"
    ELSE IF \E i \in 1..Len(b) : Selected(b[i], F, bs) /\ a[i].dirty THEN "flush_matching_dirty_line_left_dirty"
    ELSE IF \E i \in 1..Len(b) : b[i].valid /\ b[i].dirty /\ ~Matches(b[i], F, bs) /\ ~a[i].dirty THEN "flush_nonmatching_dirty_line_cleaned"
    ELSE IF \E i \in 1..Len(b) : ~DirtyRule(b[i], a[i], F, bs) THEN "flush_clean_line_became_dirty"
    ELSE IF ~WrittenExactly(b, ByFlush, F, bs) THEN "flush_wrote_other_than_matching_dirty_lines"
    ELSE IF ~FlushFilteredOK(b, a, ByFlush, F, bs) THEN "flush_rule"
    ELSE "ok"

TCtl == /\ Ev.e = "ctl"
        /\ IF Ev.ok THEN UNCHANGED bad
           ELSE Flag(IF Ev.answered THEN "control_refused" ELSE "control_never_acknowledged",
                     [comp |-> Ev.comp, kind |-> Ev.kind, cmd |-> Ev.cmd, err |-> Ev.err])
        /\ UNCHANGED <<mem, outstanding, answered, acked, log, ended, run, size>>

TFlush == /\ Ev.e = "flush"
          /\ LET cl == FlushClass IN
             IF cl = "ok" THEN UNCHANGED bad
             ELSE Flag(cl, [comp |-> Ev.comp, kind |-> Ev.kind, addrs |-> Ev.addrs, pid |-> Ev.pid, wrote |-> Ev.wrote, pending |-> Ev.pending,
                            slots |-> {<<Ev.before[i], Ev.after[i]>> : i \in {j \in 1..Len(Ev.before) :
                                           j <= Len(Ev.after) /\ (Ev.before[j].valid \/ Ev.after[j].valid)}}])
          /\ UNCHANGED <<mem, outstanding, answered, acked, log, ended, run, size>>

(* bytes an unanswered write may be changing right now *)
InFlux == UNION {Range(r) : r \in {s \in outstanding : s.k = "write"}}
TBacking == /\ Ev.e = "backing" /\ Len(Ev.vals) = size
            /\ LET stale == {a \in DOMAIN mem \ InFlux : Ev.vals[a + 1] # mem[a]} IN
               IF stale = {} THEN UNCHANGED bad
               ELSE Flag("backing_not_current",
                         [count |-> Cardinality(stale),
                          first |-> LET a == CHOOSE x \in stale : \A y \in stale : x <= y IN
                                    [addr |-> a, backing |-> Ev.vals[a + 1], flat |-> mem[a]]])
            /\ UNCHANGED <<mem, outstanding, answered, acked, log, ended, run, size>>

FNext == l <= TraceLen /\ l' = l + 1 /\ (TStep \/ TCtl \/ TFlush \/ TBacking)
FSpec == TInit /\ [][FNext]_tvars
=============================================================================
