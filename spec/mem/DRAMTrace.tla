------------------------------ MODULE DRAMTrace ------------------------------
(* B2 for C22: a trace recorded from real mem/dram controllers (harness family
   dramchk: every preset, both page policies, several queue configurations, a
   seeded contended request stream on a real serial engine; commands collected by
   hook H1 at the single point where the controller issues a command to a bank) is
   judged against the statement:

     - the commands each bank receives follow the DRAM state machine
       (DRAMRules!StateViolations);
     - consecutive commands respect the minimum separations computed HERE from
       the Spec numbers in the config record (DRAMRules!Rules, tFAW) — the oracle
       model-checked by DRAMBank.tla;
     - every request completes, exactly once, with the right kind of response,
       and a read returns the last written data: `mem` is the flat byte memory a
       requester expects (zero initially); a write with a DirtyMask writes the
       masked bytes only.  The driver never has a write in flight together with
       another request on the same byte, so "last written" is unambiguous and a
       write can be applied when it is sent.

   The specification is a monitor (see TickTrace.tla): the structure is tracked
   exactly, every rule is a soft check printing a CASE record [class, l, sys, d]
   and the trace goes on being judged.  A trace that does not fit the structure
   (malformed record) is rejected.  One trace file holds several systems, each
   starting with a config record.

   Record shapes:
     [e |-> "config", sys, preset, fam, policy, queue, sp (Spec numbers), unit]
     [e |-> "req", id, op ("read" | "write"), a, n, d (write data), m (mask or <<>>)]
     [e |-> "cmd", t (cycle of the controller clock), tc, k, r, g, b, row]
     [e |-> "rsp", id, op, d (read data)]
     [e |-> "end", out (requests the requester still waits for), t, sent]        *)
EXTENDS DRAMRules, TLC, Json, TraceCommon
VARIABLES cfgv, banks, acts, lastT, mem, skipped, pend, stats, l
tvars == <<cfgv, banks, acts, lastT, mem, skipped, pend, stats, l>>
Ev == Trace[l]

Report(class, d) == PrintT(<<"CASE", ToJson([class |-> class, l |-> l, sys |-> cfgv.sys, d |-> d])>>)
Soft(cond, class, d) == IF cond THEN TRUE ELSE Report(class, d)
SoftAll(S, cmd) == \A v \in S : Report(v.rule, [cmd |-> cmd, prev |-> v.prev, gap |-> v.gap, min |-> v.min,
                                                preset |-> cfgv.preset, policy |-> cfgv.policy, queue |-> cfgv.queue])

NoStats == [cmds |-> 0, reqs |-> 0, rsps |-> 0, hits |-> 0]
TInit == /\ cfgv = [sys |-> -1, preset |-> "", fam |-> "", policy |-> "", queue |-> "", sp |-> <<>>]
         /\ banks = <<>> /\ acts = <<>> /\ lastT = 0 /\ mem = <<>> /\ skipped = {} /\ pend = <<>>
         /\ stats = NoStats /\ l = 1 /\ TraceMarkInit

TConfig == /\ Ev.e = "config"
           /\ cfgv' = [sys |-> Ev.sys, preset |-> Ev.preset, fam |-> Ev.fam, policy |-> Ev.policy, queue |-> Ev.queue, sp |-> Ev.sp]
           /\ banks' = <<>> /\ acts' = [r \in 0..(Ev.sp.num_rank - 1) |-> <<>>] /\ lastT' = 0
           /\ mem' = <<>> /\ skipped' = {} /\ pend' = <<>> /\ stats' = NoStats

(* ---------------------------------------------------------------- commands *)
Fresh == [s |-> ClosedSt, last |-> NoLast]
TCmd ==
    /\ Ev.e = "cmd"
    /\ LET c == [k |-> Ev.k, r |-> Ev.r, g |-> Ev.g, b |-> Ev.b, row |-> Ev.row, t |-> Ev.t]
           key == <<c.r, c.g, c.b>>
           known == IF key \in DOMAIN banks THEN banks ELSE (key :> Fresh) @@ banks
           others == {known[o].s : o \in {x \in DOMAIN known : x[1] = c.r /\ x # key}}
           sv == StateViolations(known[key].s, others, c)
       IN
       /\ Soft(c.k \in Kinds, "unknown_command_kind", [cmd |-> c])
       /\ Soft(c.t >= lastT, "time_backwards", [cmd |-> c, last |-> lastT])
       /\ Soft(/\ c.r \in 0..(cfgv.sp.num_rank - 1) /\ c.g \in 0..(cfgv.sp.num_bank_group - 1)
               /\ c.b \in 0..(cfgv.sp.num_bank - 1) /\ c.row \in 0..(cfgv.sp.num_row - 1),
               "location_outside_geometry", [cmd |-> c])
       /\ \A n \in sv : Report(n, [cmd |-> c, bank |-> known[key].s,
                                   preset |-> cfgv.preset, policy |-> cfgv.policy, queue |-> cfgv.queue])
       /\ SoftAll(TimingViolations(cfgv.sp, cfgv.fam, known, c), c)
       /\ SoftAll(FawViolation(cfgv.sp, acts[c.r], c), c)
       /\ banks' = [known EXCEPT ![key] = [s |-> NextState(@.s, c),
                                           last |-> IF c.k \in TimedKinds THEN [@.last EXCEPT ![c.k] = c.t] ELSE @.last]]
       /\ acts' = IF c.k = "ACT" THEN [acts EXCEPT ![c.r] = PushAct(@, c.t)] ELSE acts
       /\ lastT' = c.t
       /\ stats' = [stats EXCEPT !.cmds = @ + 1,
                                 !.hits = @ + (IF c.k \in Cols /\ known[key].last["ACT"] >= 0
                                                  /\ \E k2 \in Cols : known[key].last[k2] > known[key].last["ACT"] THEN 1 ELSE 0)]
    /\ UNCHANGED <<cfgv, mem, skipped, pend>>

(* ---------------------------------------------------------------- requests *)
Byte(a) == IF a \in DOMAIN mem THEN mem[a] ELSE 0
Range(a, n) == a..(a + n - 1)
TReq ==
    /\ Ev.e = "req"
    /\ Soft(Ev.id \notin DOMAIN pend, "duplicate_request_id", [id |-> Ev.id])
    /\ IF Ev.op = "write"
       THEN LET masked == Len(Ev.m) > 0
                put == {a \in Range(Ev.a, Ev.n) : ~masked \/ Ev.m[a - Ev.a + 1]}
            IN /\ mem' = [a \in put |-> Ev.d[a - Ev.a + 1]] @@ mem
               /\ skipped' = (skipped \ put) \cup (Range(Ev.a, Ev.n) \ put)
               /\ pend' = (Ev.id :> [op |-> "write", a |-> Ev.a, n |-> Ev.n, want |-> <<>>]) @@ pend
       ELSE /\ pend' = (Ev.id :> [op |-> "read", a |-> Ev.a, n |-> Ev.n,
                                  want |-> [i \in 1..Ev.n |-> Byte(Ev.a + i - 1)]]) @@ pend
            /\ UNCHANGED <<mem, skipped>>
    /\ stats' = [stats EXCEPT !.reqs = @ + 1]
    /\ UNCHANGED <<cfgv, banks, acts, lastT>>

Rest(f, id) == [x \in DOMAIN f \ {id} |-> f[x]]
TRsp ==
    /\ Ev.e = "rsp"
    /\ IF Ev.id \notin DOMAIN pend
       THEN Report("response_without_request", [id |-> Ev.id, op |-> Ev.op]) /\ UNCHANGED pend
       ELSE LET p == pend[Ev.id]
                wrong == IF p.op = "read" /\ Ev.op = "read" /\ Len(Ev.d) = p.n
                         THEN {i \in 1..p.n : Ev.d[i] # p.want[i]} ELSE {}
            IN /\ Soft(Ev.op = p.op, "response_kind_mismatch", [id |-> Ev.id, want |-> p.op, got |-> Ev.op])
               /\ Soft(p.op # "read" \/ Ev.op # "read" \/ Len(Ev.d) = p.n, "read_data_length_mismatch",
                       [id |-> Ev.id, want |-> p.n, got |-> Len(Ev.d)])
               /\ Soft(wrong = {},
                       IF \A i \in wrong : (p.a + i - 1) \in skipped
                       THEN "masked_write_changed_unmasked_bytes" ELSE "read_data_mismatch",
                       [id |-> Ev.id, a |-> p.a, n |-> p.n, offsets |-> wrong, want |-> p.want, got |-> Ev.d,
                        preset |-> cfgv.preset, policy |-> cfgv.policy, queue |-> cfgv.queue])
               /\ pend' = Rest(pend, Ev.id)
    /\ stats' = [stats EXCEPT !.rsps = @ + 1]
    /\ UNCHANGED <<cfgv, banks, acts, lastT, mem, skipped>>

TEnd == /\ Ev.e = "end"
        /\ Soft(Ev.out = 0 /\ DOMAIN pend = {}, "request_never_completed",
                [out |-> Ev.out, ids |-> DOMAIN pend, preset |-> cfgv.preset, policy |-> cfgv.policy, queue |-> cfgv.queue])
        /\ PrintT(<<"STAT", ToJson([sys |-> cfgv.sys, l |-> l, cmds |-> stats.cmds, reqs |-> stats.reqs, rsps |-> stats.rsps,
                                    col_after_col |-> stats.hits, banks |-> Cardinality(DOMAIN banks),
                                    bytes |-> Cardinality(DOMAIN mem)])>>)
        /\ UNCHANGED <<cfgv, banks, acts, lastT, mem, skipped, pend, stats>>

TNext == l <= TraceLen /\ l' = l + 1 /\ (TConfig \/ TCmd \/ TReq \/ TRsp \/ TEnd)
TSpec == TInit /\ [][TNext]_tvars
Mark == TraceMark(l)
(* hard invariant of the tracked structure: time stamps only *)
Sane == lastT >= 0
==============================================================================
