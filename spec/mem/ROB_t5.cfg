SPECIFICATION Spec
CONSTANTS
  NReq = 5
  Caps = {3, 5}
  Kinds = {"read", "write"}
  WhoPats = {"pair"}
  Resets = FALSE
  Quiets = {FALSE}
INVARIANT TypeOK
INVARIANT InOrder
INVARIANT OwnResult
INVARIANT PosInjective
INVARIANT Emit
PROPERTY AnswerStep
CHECK_DEADLOCK FALSE
