SPECIFICATION TSpec
INVARIANT Sane
CONSTRAINT Mark
POSTCONDITION TraceAccepted
CHECK_DEADLOCK FALSE
