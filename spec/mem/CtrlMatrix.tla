---------------------------- MODULE CtrlMatrix ----------------------------
(* C18 — the verbs and the support matrix of mem/CONTROL_PROTOCOL.md, transcribed
   from the document ("The six verbs", "Support matrix (final state)"), NOT from
   the switch statements of the middlewares.  A disagreement between this table and
   the code is a finding candidate.                                              *)
EXTENDS Naturals, Sequences, FiniteSets

Verbs      == {"pause", "drain", "enable", "reset", "invalidate", "flush"}
Universal  == {"pause", "drain", "enable", "reset"}       \* "every memory agent supports them"
Conditional == {"invalidate", "flush"}                     \* need paused/drained, filterable
AsyncVerbs == {"drain", "flush"}

Kinds == {"universal", "transcache", "cache"}
(* rows of the matrix: Universal(), TranslationCacheLike(), CacheLike() *)
Support == [universal  |-> Universal,
            transcache |-> Universal \cup {"invalidate"},
            cache      |-> Universal \cup {"invalidate", "flush"}]

(* the twelve agents of the matrix ("no-op" = supported) *)
AgentKind == [writeback          |-> "cache",
              writethroughcache  |-> "cache",
              tlb                |-> "transcache",
              mmuCache           |-> "transcache",
              mmu                |-> "universal",
              gmmu               |-> "universal",
              addresstranslator  |-> "universal",
              rob                |-> "universal",
              idealmemcontroller |-> "universal",
              dram               |-> "universal",
              simplebankedmemory |-> "universal",
              datamover          |-> "universal"]

(* Outcome the statement demands for verb v handled while the agent is in control
   state c ("running" = enabled):  unsupported verbs are refused as unsupported
   (whatever the state), invalidate/flush while running are refused as illegal,
   everything else is carried out.                                               *)
Outcome(kind, v, running) ==
    IF v \notin Support[kind] THEN "unsupported"
    ELSE IF v \in Conditional /\ running THEN "illegal"
    ELSE "ok"

(* control state (running?) the statement demands after verb v was answered with
   outcome o from state `running` *)
RunningAfter(v, o, running) ==
    IF o # "ok" THEN running
    ELSE IF v \in {"pause", "drain"} THEN FALSE
    ELSE IF v \in {"enable", "reset"} THEN TRUE
    ELSE running
===========================================================================
