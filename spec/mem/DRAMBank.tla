------------------------------ MODULE DRAMBank ------------------------------
(* C22 — the command-legality oracle of DRAMRules.tla, model-checked on a toy:
   two banks of one rank (same bank group or different bank groups, chosen by the
   cfg; five banks and activates only for the four-activate window), two rows, a
   small timing record, MaxT cycles, at most one command per cycle.

   The monitor DRAMTrace.tla judges a recorded command stream incrementally: per
   bank Closed | Open(row) and the issue cycle of the latest command of each
   kind (plus the latest four activates of the rank).  Here TLC checks, for every
   command stream within the bounds, that this incremental judgement is exactly
   the declarative reading of the statement over the whole history:

     - a column command addresses the row of the latest activate of its bank and
       no precharge (explicit or automatic) of that bank lies in between; an
       activate finds no such unclosed activate ("a row is activated before it is
       read or written, and precharged before another row is activated");
     - EVERY earlier command (not just the latest of its kind) is at least the
       rule's minimum before a later one it constrains;
     - at most four activates of a rank in any tFAW cycles.

   Free = TRUE : an adversary issues any command at any cycle; `ok` is the
                 monitor's running verdict, exploration of a stream stops after
                 its first rejected command.  INVARIANT Equivalent.  Every rule
                 must be the sole reason of some rejection (SOLE lines) — no rule
                 is vacuous or subsumed by another in the toy.
   Free = FALSE: only accepted commands are issued: every behaviour is a legal
                 schedule; NoWitness / NoFawWitness are EXPECTED to be violated (a
                 legal schedule doing activate, read, write, precharge, activate
                 of another row on one bank and activate, auto-precharge read on
                 the other exists; five activates fit under tFAW: the rules are
                 satisfiable).  With a VIEW (MonView) TLC explores one
                 representative history per monitor state.                       *)
EXTENDS DRAMRules, TLC, Json
CONSTANTS MaxT, T, Fam, BankKeys, Rows, CmdKinds, Free
VARIABLES now, issued, banks, acts, hist, ok, prog
vars == <<now, issued, banks, acts, hist, ok, prog>>

(* toy numbers: every minimum is at least 2 where a rule must be observable with one
   command per cycle, and small enough for every rule to bite within MaxT <= 6 *)
ToyT == [t_al |-> 0, t_cwl |-> 0, burst_cycle |-> 1, t_rcd |-> 2, t_rcdrd |-> 3, t_rcdwr |-> 2,
         t_ras |-> 3, t_rp |-> 2, t_rc |-> 6, t_rtp |-> 2, t_wr |-> 1,
         t_rrds |-> 2, t_rrdl |-> 3, t_ccds |-> 2, t_ccdl |-> 3, t_wtrs |-> 1, t_wtrl |-> 2,
         t_ppd |-> 2, t_faw |-> 0, num_bank_group |-> 2]
(* additive latency: column commands may be posted early *)
ToyAL == [ToyT EXCEPT !.t_al = 1]
(* four-activate window: five banks of one rank, activates only *)
ToyFaw == [t_al |-> 0, t_cwl |-> 0, burst_cycle |-> 1, t_rcd |-> 1, t_rcdrd |-> 1, t_rcdwr |-> 1,
           t_ras |-> 1, t_rp |-> 1, t_rc |-> 2, t_rtp |-> 0, t_wr |-> 0,
           t_rrds |-> 1, t_rrdl |-> 1, t_ccds |-> 1, t_ccdl |-> 1, t_wtrs |-> 0, t_wtrl |-> 0,
           t_ppd |-> 0, t_faw |-> 5, num_bank_group |-> 5]
FiveBanks == {<<0, 0, 0>>, <<0, 1, 0>>, <<0, 2, 0>>, <<0, 3, 0>>, <<0, 4, 0>>}
SameGroup == {<<0, 0, 0>>, <<0, 0, 1>>}
OtherGroup == {<<0, 0, 0>>, <<0, 1, 0>>}
AllKinds == {"ACT", "RD", "RDA", "WR", "WRA", "PRE", "REF", "REFb"}
RowKinds == {"ACT", "RD", "RDA", "WR", "WRA"}
FawKinds == {"ACT"}
OpenKinds == {"ACT", "RD", "WR", "PRE"}
CloseKinds == {"ACT", "RDA", "WRA", "PRE"}
WitKinds == {"ACT", "RD", "RDA", "WR", "PRE"}

Cmd(k, key, row) == [k |-> k, r |-> key[1], g |-> key[2], b |-> key[3], row |-> row, t |-> now]
Key(c) == <<c.r, c.g, c.b>>

Init == /\ now = 0 /\ issued = FALSE /\ hist = <<>> /\ ok = TRUE
        /\ banks = [key \in BankKeys |-> [s |-> ClosedSt, last |-> NoLast]]
        /\ acts = <<>> /\ prog = <<0, 0>>

(* the monitor's judgement of one command (the same operators DRAMTrace uses) *)
Verdict(c) ==
    LET key == Key(c)
        others == {banks[o].s : o \in {x \in DOMAIN banks : x[1] = c.r /\ x # key}}
    IN {[rule |-> n] : n \in StateViolations(banks[key].s, others, c)}
       \cup {[rule |-> v.rule] : v \in TimingViolations(T, Fam, banks, c) \cup FawViolation(T, acts, c)}

(* progress of the non-vacuity witness (greedy subsequence match per bank) *)
PatA == <<<<"ACT", 0>>, <<"RD", 0>>, <<"WR", 0>>, <<"PRE", 0>>, <<"ACT", 1>>>>
PatB == <<<<"ACT", 1>>, <<"RDA", 1>>>>
BankA == <<0, 0, 0>>
BankB == CHOOSE key \in BankKeys : key # BankA
Step(pat, n, key, c) == IF Key(c) = key /\ n < Len(pat) /\ c.k = pat[n + 1][1] /\ (c.k = "PRE" \/ c.row = pat[n + 1][2])
                        THEN n + 1 ELSE n

Apply(c) ==
    LET key == Key(c) IN
    /\ banks' = [banks EXCEPT ![key] = [s |-> NextState(@.s, c),
                                        last |-> IF c.k \in TimedKinds THEN [@.last EXCEPT ![c.k] = c.t] ELSE @.last]]
    /\ acts' = IF c.k = "ACT" THEN PushAct(acts, c.t) ELSE acts
    /\ prog' = IF Free THEN prog ELSE <<Step(PatA, prog[1], BankA, c), Step(PatB, prog[2], BankB, c)>>

(* index of a rule name, for the per-rule "seen as sole reason" registers *)
NameSeq == <<"tRCD_activate_to_read", "tRCD_activate_to_write", "tRAS_activate_to_precharge", "tRP_precharge_to_activate",
             "tRC_activate_to_activate", "tRTP_read_to_precharge", "tWR_write_to_precharge",
             "tRTP_tRP_autoprecharge_read_to_activate", "tWR_tRP_autoprecharge_write_to_activate",
             "tRRD_L_activate_to_activate", "tRRD_S_activate_to_activate", "tCCD_L_read_to_read", "tCCD_S_read_to_read",
             "tCCD_L_write_to_write", "tCCD_S_write_to_write", "tWTR_L_write_to_read", "tWTR_S_write_to_read",
             "tPPD_precharge_to_precharge", "tFAW_four_activate_window", "column_command_to_closed_bank",
             "column_command_to_other_row", "activate_without_precharge", "refresh_of_open_bank">>
AllRuleNames == {NameSeq[i] : i \in DOMAIN NameSeq}
ASSUME {ru.name : ru \in Rules(T, Fam)} \subseteq AllRuleNames
Idx(n) == 100 + CHOOSE i \in DOMAIN NameSeq : NameSeq[i] = n
Sole(v, c) == IF Cardinality(v) # 1 THEN TRUE
              ELSE LET n == (CHOOSE x \in v : TRUE).rule IN
                   IF TLCGet(Idx(n)) THEN TRUE
                   ELSE TLCSet(Idx(n), TRUE) /\ PrintT(<<"SOLE", ToJson([rule |-> n, cmd |-> c, hist |-> hist])>>)

Issue(c) == /\ ok /\ ~issued
            /\ LET v == Verdict(c) IN
               /\ Free \/ v = {}
               /\ ok' = (v = {})
               /\ (Free => Sole(v, c))
            /\ Apply(c) /\ hist' = Append(hist, c) /\ issued' = TRUE /\ UNCHANGED now
Tick == ok /\ now < MaxT /\ now' = now + 1 /\ issued' = FALSE /\ UNCHANGED <<banks, acts, hist, ok, prog>>
Next == \/ Tick
        \/ \E key \in BankKeys, k \in CmdKinds :
             \/ k \in RowKinds /\ \E row \in Rows : Issue(Cmd(k, key, row))
             \/ k \notin RowKinds /\ Issue(Cmd(k, key, 0))
InitRegs == \A n \in AllRuleNames : TLCSet(Idx(n), FALSE)
Spec == Init /\ InitRegs /\ [][Next]_vars

(* ------------------------------------------------ declarative reading of C22 *)
OnBank(h, i, c) == h[i].r = c.r /\ h[i].g = c.g /\ h[i].b = c.b
(* an activate at i of c's bank that nothing has closed before position j *)
UnclosedAct(h, i, j) == /\ h[i].k = "ACT" /\ OnBank(h, i, h[j])
                        /\ \A m \in (i + 1)..(j - 1) : ~(OnBank(h, m, h[j]) /\ h[m].k \in Closers)
OpenSomewhere(h, j, sameBankOnly) ==
    \E i \in 1..(j - 1) : /\ h[i].k = "ACT" /\ h[i].r = h[j].r
                          /\ (sameBankOnly => OnBank(h, i, h[j]))
                          /\ \A m \in (i + 1)..(j - 1) : ~(OnBank(h, m, h[i]) /\ h[m].k \in Closers)
StateLegal(h, j) ==
    LET c == h[j] IN
    /\ c.k \in Cols => \E i \in 1..(j - 1) : UnclosedAct(h, i, j) /\ h[i].row = c.row
                                              /\ \A m \in (i + 1)..(j - 1) : ~(OnBank(h, m, c) /\ h[m].k = "ACT")
    /\ c.k = "ACT" => ~\E i \in 1..(j - 1) : UnclosedAct(h, i, j)
    /\ c.k = "REFb" => ~OpenSomewhere(h, j, TRUE)
    /\ c.k = "REF" => ~OpenSomewhere(h, j, FALSE)
TimingLegal(h, j) ==
    /\ \A i \in 1..(j - 1), ru \in Rules(T, Fam) : ~PairBreaks(ru, h[i], h[j])
    /\ (h[j].k = "ACT" /\ T.t_faw > 0) =>
          Cardinality({i \in 1..j : h[i].k = "ACT" /\ h[i].r = h[j].r /\ h[j].t - h[i].t < T.t_faw}) <= 4
DeclOK(h) == \A j \in 1..Len(h) : StateLegal(h, j) /\ TimingLegal(h, j)

(* Streams are only extended while accepted, so by induction over the exploration
   it suffices to judge the last command against the whole history before it.   *)
Equivalent == hist = <<>> \/ ok = (StateLegal(hist, Len(hist)) /\ TimingLegal(hist, Len(hist)))
EquivalentFull == ok = DeclOK(hist)

(* -------------------------------------------------------- non-vacuity witness *)
(* Free = FALSE.  Expected to be VIOLATED: a legal schedule exists in which one bank
   sees activate(row 0), read, write, precharge, activate(row 1) and the other
   activate(row 1), auto-precharge read.                                         *)
NoWitness == ~(prog = <<Len(PatA), Len(PatB)>>)
(* Expected to be VIOLATED with the ToyFaw numbers: five activates of the rank fit
   in the bounds although every one respects the four-activate window.           *)
NoFawWitness == Cardinality({i \in 1..Len(hist) : hist[i].k = "ACT"}) < 5
(* explore one representative history per monitor state *)
MonView == <<now, issued, banks, acts, ok, prog>>
(* legal schedules never break the declarative reading *)
LegalIsLegal == DeclOK(hist)
=============================================================================
