---------------------------- MODULE DirectoryDefs ----------------------------
(* C19 — the statement's predicates over a plain directory value, shared by the model
   (Directory.tla) and the validator of traces recorded from real caches
   (DirectoryTrace.tla).

   A directory value D is a sequence of sets; a set is <<order, blocks>> where order
   is the recency list of the set (ways, numbered from 1, least recently used first)
   and blocks is the sequence of its ways; a block is the tuple
   <<valid, locked, readers, pid, line, home>> — home is the set the block's line maps
   to (numbered from 1).                                                           *)
EXTENDS Integers, Sequences, FiniteSets

OrderOf(set) == set[1]
BlocksOf(set) == set[2]
Valid(b) == b[1]
Locked(b) == b[2]
Readers(b) == b[3]
Pid(b) == b[4]
Line(b) == b[5]
Home(b) == b[6]

Slots(D) == UNION {{<<s, w>> : w \in DOMAIN BlocksOf(D[s])} : s \in DOMAIN D}
Blk(D, sw) == BlocksOf(D[sw[1]])[sw[2]]

(* each set lists each of its ways exactly once in its recency order *)
OrderWellFormedSet(set) ==
  /\ Len(OrderOf(set)) = Len(BlocksOf(set))
  /\ \A w \in DOMAIN BlocksOf(set) :
       Cardinality({k \in DOMAIN OrderOf(set) : OrderOf(set)[k] = w}) = 1
BadOrderSets(D) == {s \in DOMAIN D : ~OrderWellFormedSet(D[s])}
OrderWellFormed(D) == BadOrderSets(D) = {}

(* no two valid blocks hold the same line for the same process *)
SameLine(a, b) == Pid(a) = Pid(b) /\ Line(a) = Line(b)
Before(x, y) == x[1] < y[1] \/ (x[1] = y[1] /\ x[2] < y[2])
DupPairs(D) == {p \in Slots(D) \X Slots(D) :
                  /\ Before(p[1], p[2])
                  /\ Valid(Blk(D, p[1])) /\ Valid(Blk(D, p[2]))
                  /\ SameLine(Blk(D, p[1]), Blk(D, p[2]))}
NoDupValid(D) == DupPairs(D) = {}

(* every valid block sits in the set its line maps to *)
Misplaced(D) == {x \in Slots(D) : Valid(Blk(D, x)) /\ Home(Blk(D, x)) # x[1]}
RightSet(D) == Misplaced(D) = {}

(* outstanding reader counts never go negative *)
NegativeReaders(D) == {x \in Slots(D) : Readers(Blk(D, x)) < 0}
ReadersNonNegative(D) == NegativeReaders(D) = {}

WellFormed(D) == OrderWellFormed(D) /\ NoDupValid(D) /\ RightSet(D) /\ ReadersNonNegative(D)

(* a block that is locked or has readers is never chosen for replacement: if a way
   holds a different line after a step, it was neither locked nor read before it *)
Busy(b) == Locked(b) \/ Readers(b) > 0
Replaced(b, b2) == Valid(b2) /\ (~Valid(b) \/ ~SameLine(b, b2))
SameShape(D, D2) == /\ DOMAIN D = DOMAIN D2
                    /\ \A s \in DOMAIN D : DOMAIN BlocksOf(D[s]) = DOMAIN BlocksOf(D2[s])
ReplacedBusy(D, D2) == {x \in Slots(D) : Replaced(Blk(D, x), Blk(D2, x)) /\ Busy(Blk(D, x))}
StepOK(D, D2) == SameShape(D, D2) /\ ReplacedBusy(D, D2) = {}
=============================================================================
