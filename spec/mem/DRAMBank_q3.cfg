SPECIFICATION Spec
CONSTANTS
  MaxT = 6
  T <- ToyT
  Fam = "gddr"
  BankKeys <- SameGroup
  Rows = {0, 1}
  CmdKinds <- CloseKinds
  Free = TRUE
INVARIANT Equivalent
CHECK_DEADLOCK FALSE
VIEW MonView
