----------------------------- MODULE DRAMRules -----------------------------
(* C22 — what "protocol-legal order and timing" means, stated from the property
   statement, the names of the dram.Spec timing fields and the DRAM conventions
   those names stand for.  Nothing here is read off builder.go:generateTiming or
   the CyclesToCmdAvailable countdowns; it is the independent oracle used both by
   DRAMBank.tla (model-checked on a toy) and DRAMTrace.tla (monitor of traces
   recorded from the real controller).

   T is a record of the Spec numbers the built component reports (JSON tag names
   of dram.Spec: t_al, t_cwl, t_rcd, t_rcdrd, t_rcdwr, t_ras, t_rp, t_rc, t_rtp,
   t_wr, t_rrds, t_rrdl, t_ccds, t_ccdl, t_wtrs, t_wtrl, t_ppd, t_faw,
   burst_cycle, num_bank_group); fam is the protocol family of the preset
   ("ddr" | "gddr" | "hbm").

   A command is a record [k, r, g, b, row, t]: kind mnemonic, rank, bank group,
   bank, row, issue cycle.                                                       *)
EXTENDS Integers, Sequences, FiniteSets

Reads   == {"RD", "RDA"}
Writes  == {"WR", "WRA"}
Cols    == Reads \cup Writes
AutoPre == {"RDA", "WRA"}
Closers == {"PRE", "RDA", "WRA"}
Refs    == {"REF", "REFb", "SREFE", "SREFX"}
Kinds   == Cols \cup {"ACT", "PRE"} \cup Refs
TimedKinds == Cols \cup {"ACT", "PRE"}

Max(a, b) == IF a >= b THEN a ELSE b
Min(a, b) == IF a <= b THEN a ELSE b

(* ---------------------------------------------------------------- bank state *)
ClosedSt  == [st |-> "closed", row |-> -1]
OpenSt(r) == [st |-> "open", row |-> r]
SRefSt    == [st |-> "sref", row |-> -1]

(* Set of rule names of the state machine that command c breaks when the addressed
   bank is in state s and `others` is the set of states of the other banks of the
   same rank that have been seen.  Statement: a row is activated before it is read
   or written, and precharged before another row is activated.  A precharge of an
   idle bank is a no-op in every DRAM protocol and is left free.  Refresh and
   self-refresh commands are only checked against this state machine.            *)
StateViolations(s, others, c) ==
    (IF c.k \in Cols /\ s.st # "open" THEN {"column_command_to_closed_bank"} ELSE {})
    \cup (IF c.k \in Cols /\ s.st = "open" /\ s.row # c.row THEN {"column_command_to_other_row"} ELSE {})
    \cup (IF c.k = "ACT" /\ s.st = "open" THEN {"activate_without_precharge"} ELSE {})
    \cup (IF c.k = "REFb" /\ s.st = "open" THEN {"refresh_of_open_bank"} ELSE {})
    \cup (IF c.k \in {"REF", "SREFE"} /\ (s.st = "open" \/ \E o \in others : o.st = "open")
          THEN {"refresh_of_open_bank"} ELSE {})
    \cup (IF c.k # "SREFX" /\ s.st = "sref" THEN {"command_in_self_refresh"} ELSE {})
    \cup (IF c.k = "SREFX" /\ s.st # "sref" THEN {"self_refresh_exit_without_entry"} ELSE {})

(* State of the addressed bank after c (also after an illegal c: the monitor
   resynchronises on what the command implies).                                  *)
NextState(s, c) ==
    CASE c.k = "ACT"            -> OpenSt(c.row)
      [] c.k \in {"RD", "WR"}   -> OpenSt(c.row)
      [] c.k \in Closers        -> ClosedSt
      [] c.k = "SREFE"          -> SRefSt
      [] c.k = "SREFX"          -> ClosedSt
      [] OTHER                  -> s

(* ------------------------------------------------------ minimum separations *)
(* relation of an earlier command's bank to the bank of a later command        *)
Rel(p, c) == IF p.r # c.r THEN "other_rank"
             ELSE IF p.g # c.g THEN "rank"           \* same rank, other bank group
             ELSE IF p.b # c.b THEN "group"          \* same bank group, other bank
             ELSE "bank"

(* activate-to-column: one tRCD for the DDR family, separate read / write values
   for GDDR and HBM; an additive latency lets the column command be posted tAL
   cycles early.                                                                 *)
RcdRd(T, fam) == (IF fam \in {"gddr", "hbm"} THEN T.t_rcdrd ELSE T.t_rcd) - T.t_al
RcdWr(T, fam) == (IF fam \in {"gddr", "hbm"} THEN T.t_rcdwr ELSE T.t_rcd) - T.t_al
(* cycles from a write command to the end of its data burst: write latency
   (tAL + tCWL) plus the burst; write recovery and write-to-read count from there *)
WrEnd(T) == T.t_al + T.t_cwl + T.burst_cycle
RowCycle(T) == Max(T.t_rc, T.t_ras + T.t_rp)
(* _L applies inside a bank group, _S across bank groups; a device without bank
   groups has a single value, and since the Spec still carries two numbers the
   smaller one is demanded (convention ambiguous => the weaker rule).           *)
LongOf(T, l, s)  == IF T.num_bank_group > 1 THEN l ELSE Min(l, s)
ShortOf(T, l, s) == IF T.num_bank_group > 1 THEN s ELSE Min(l, s)

Rule(n, f, t, rel, m) == [name |-> n, from |-> f, to |-> t, rel |-> rel, min |-> m]
Rules(T, fam) == {
    (* named by the statement *)
    Rule("tRCD_activate_to_read",       {"ACT"}, Reads,   {"bank"}, RcdRd(T, fam)),
    Rule("tRCD_activate_to_write",      {"ACT"}, Writes,  {"bank"}, RcdWr(T, fam)),
    Rule("tRAS_activate_to_precharge",  {"ACT"}, {"PRE"}, {"bank"}, T.t_ras),
    Rule("tRP_precharge_to_activate",   {"PRE"}, {"ACT"}, {"bank"}, T.t_rp),
    (* other configured separations whose meaning is fixed by their field names *)
    Rule("tRC_activate_to_activate",    {"ACT"}, {"ACT"}, {"bank"}, RowCycle(T)),
    Rule("tRTP_read_to_precharge",      {"RD"},  {"PRE"}, {"bank"}, T.t_al + T.t_rtp),
    Rule("tWR_write_to_precharge",      {"WR"},  {"PRE"}, {"bank"}, WrEnd(T) + T.t_wr),
    (* auto-precharge: the implied precharge cannot start before tRTP / tWR      *)
    Rule("tRTP_tRP_autoprecharge_read_to_activate",  {"RDA"}, {"ACT"}, {"bank"}, T.t_al + T.t_rtp + T.t_rp),
    Rule("tWR_tRP_autoprecharge_write_to_activate",  {"WRA"}, {"ACT"}, {"bank"}, WrEnd(T) + T.t_wr + T.t_rp),
    Rule("tRRD_L_activate_to_activate", {"ACT"}, {"ACT"}, {"group"}, LongOf(T, T.t_rrdl, T.t_rrds)),
    Rule("tRRD_S_activate_to_activate", {"ACT"}, {"ACT"}, {"rank"},  ShortOf(T, T.t_rrdl, T.t_rrds)),
    Rule("tCCD_L_read_to_read",         Reads,  Reads,  {"bank", "group"}, LongOf(T, T.t_ccdl, T.t_ccds)),
    Rule("tCCD_S_read_to_read",         Reads,  Reads,  {"rank"},          ShortOf(T, T.t_ccdl, T.t_ccds)),
    Rule("tCCD_L_write_to_write",       Writes, Writes, {"bank", "group"}, LongOf(T, T.t_ccdl, T.t_ccds)),
    Rule("tCCD_S_write_to_write",       Writes, Writes, {"rank"},          ShortOf(T, T.t_ccdl, T.t_ccds)),
    Rule("tWTR_L_write_to_read",        Writes, Reads,  {"bank", "group"}, WrEnd(T) + LongOf(T, T.t_wtrl, T.t_wtrs)),
    Rule("tWTR_S_write_to_read",        Writes, Reads,  {"rank"},          WrEnd(T) + ShortOf(T, T.t_wtrl, T.t_wtrs)),
    Rule("tPPD_precharge_to_precharge", {"PRE"}, {"PRE"}, {"group", "rank"}, IF fam = "gddr" THEN T.t_ppd ELSE 0)
}
(* Left free on purpose (conventions differ between protocols / simulators):
   read-to-write bus turnaround, rank-to-rank switching (tRTRS), data-bus
   occupancy, one-command-per-cycle, every refresh / self-refresh interval.     *)

(* pairwise form: does the ordered pair (earlier p, later c) break rule ru?     *)
PairBreaks(ru, p, c) == /\ p.k \in ru.from /\ c.k \in ru.to /\ Rel(p, c) \in ru.rel
                        /\ c.t - p.t < ru.min

(* -------------------------------------------------- incremental (monitor) form *)
(* per bank: the issue cycle of the latest command of each timed kind (-1: none) *)
NoLast == [k \in TimedKinds |-> -1]
(* banks: function  <<r, g, b>> -> [s |-> bank state, last |-> [kind -> cycle]]
   over the banks seen so far.  Result: set of [rule, prev, gap, min] records.  *)
TimingViolations(T, fam, banks, c) ==
    LET rs == {x \in Rules(T, fam) : c.k \in x.to /\ x.min > 0}
        bad == {x \in rs \X {y \in DOMAIN banks : y[1] = c.r} \X TimedKinds :
                  /\ x[3] \in x[1].from
                  /\ Rel([r |-> x[2][1], g |-> x[2][2], b |-> x[2][3]], c) \in x[1].rel
                  /\ banks[x[2]].last[x[3]] >= 0
                  /\ c.t - banks[x[2]].last[x[3]] < x[1].min}
    IN {[rule |-> x[1].name,
         prev |-> [k |-> x[3], r |-> x[2][1], g |-> x[2][2], b |-> x[2][3], t |-> banks[x[2]].last[x[3]]],
         gap |-> c.t - banks[x[2]].last[x[3]], min |-> x[1].min] : x \in bad}

(* four-activate window: at most four activates of one rank in any tFAW cycles.
   acts: the issue cycles of the latest (up to four) activates of the rank, oldest
   first.  Declaratively (DRAMBank!TimingLegal): the activates issued less than
   tFAW cycles before c in its rank, together with c, number more than four.    *)
FawViolation(T, acts, c) ==
    IF c.k = "ACT" /\ T.t_faw > 0 /\ Len(acts) >= 4 /\ c.t - acts[Len(acts) - 3] < T.t_faw
    THEN {[rule |-> "tFAW_four_activate_window",
           prev |-> [k |-> "ACT", r |-> c.r, g |-> -1, b |-> -1, t |-> acts[Len(acts) - 3]],
           gap |-> c.t - acts[Len(acts) - 3], min |-> T.t_faw]}
    ELSE {}
PushAct(acts, t) == IF Len(acts) < 4 THEN Append(acts, t) ELSE Append(Tail(acts), t)

============================================================================
