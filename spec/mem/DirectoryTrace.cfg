SPECIFICATION Spec
INVARIANT Report
POSTCONDITION Judged
CHECK_DEADLOCK FALSE
