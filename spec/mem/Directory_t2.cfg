SPECIFICATION Spec
CONSTANTS
  NumSets = 2
  NumWays = 2
  PIDs = {1, 2}
  NumLines = 2
  SharedLines = 2
  MaxRC = 1
VIEW View
ACTION_CONSTRAINT Emit
INVARIANT InvWellFormed
INVARIANT InvalidIsIdle
PROPERTY NeverReplaceBusy
PROPERTY VictimAnswer
CHECK_DEADLOCK FALSE
