SPECIFICATION Spec
CONSTANTS
  MaxCmds = 4
  MaxReqs = 1
  TrafficChoices = {TRUE, FALSE}
  KindChoices = {"universal", "transcache", "cache"}
  Emit = TRUE
INVARIANTS TypeOK OneRspPerReq RspInReqOrder Refusals Settles AsyncHead EmitB
PROPERTIES PausedSilent DrainPost ResetPost NoLateRsp OneAtATime
CHECK_DEADLOCK FALSE
