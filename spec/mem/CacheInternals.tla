--------------------------- MODULE CacheInternals ---------------------------
(* Consistency conditions of the memory components' own State — beyond the C16 statement.

   C16 demands that every request is answered exactly once with flat-memory data.  The
   components achieve that with bookkeeping structures kept in their checkpointable State:
   MSHRs, transaction tables referenced by index from stage buffers and pipelines, write
   buffers and eviction lists, the ROB's ordered table, per-bank pipelines, DRAM queues.
   This module states, from the documented meaning of those State fields alone, what a
   sound State looks like.  It is a monitor over a trace of PROJECTED States (one record
   per sample: the State of every component of a stack after every N-th handled engine
   event, and once more when the engine has stopped; see the harness file
   drivers/memhier/internals.go for the projection): every rule is evaluated on every
   component that has the parts the rule needs (`have`); a failing rule prints one CASE
   record per (run, rule, component kind) and validation goes on.  A part that the
   projection could not build because the State schema changed is simply absent from
   `have` (reported as DRIFT by the check, never as a failure).

   Rules
     mshr_unique            at most one MSHR entry per (PID, line)
     mshr_capacity          no more entries than the configured capacity
     mshr_waiter            every entry has a waiting transaction or a fetch outstanding
     mshr_waiters_live      the transactions waiting on an entry exist and are not marked removed
     ref_exists             an index held by a stage buffer / pipeline names an existing slot
     ref_live               ... and that slot is not marked removed
     ref_once               no slot is held twice by the same buffer / pipeline
     buffer_capacity        every buffer embedded in the State respects its capacity
     pipeline_shape         pipeline items sit in existing stages and lanes, one per (lane, stage)
     eviction_lists         pending / in-flight eviction and fetch indices are distinct and in range
     evicting_not_clean     a line being evicted is not at the same time valid-and-clean in the directory
     active_bound           (writethroughcache) live transactions <= MaxNumConcurrentTrans
     rob_order              ROB entries are in acceptance order (increasing bottom request IDs)
     rob_capacity           no more entries than the buffer size
     rob_response           a read entry marked HasRsp holds response data
     bank_selection         an item in bank b's pipeline / post-pipeline buffer has an address that selects b
     dram_queues            sub-transaction and command queues within capacity; queued references name live transactions
     settled_empty          when the engine has stopped with every request answered, all of these are empty *)
EXTENDS Integers, Sequences, FiniteSets, TLC, TraceCommon
VARIABLES l, run, bad
tvars == <<l, run, bad>>
Ev == Trace[l]

Range(s) == {s[i] : i \in 1..Len(s)}
Distinct(s) == Cardinality(Range(s)) = Len(s)
Has(c, part) == part \in Range(c.have)
NSlots(c) == Len(c.slots)
InRange(c, i) == i >= 0 /\ i < NSlots(c)
Live(c, i) == InRange(c, i) /\ ~c.slots[i + 1]
RefBufs(c) == {b \in Range(c.bufs) : b.refs}
RefPipes(c) == {p \in Range(c.pipes) : p.refs}
PipeRefs(p) == [i \in 1..Len(p.items) |-> p.items[i].item]
AllRefs(c) == UNION ({Range(b.items) : b \in RefBufs(c)} \cup {Range(PipeRefs(p)) : p \in RefPipes(c)})
WTKinds == {"writearound", "writeevict", "writethrough"}

(* ---- the rules: [rule, needs, applies, ok] *)
Rules(c, settled) == <<
  [rule |-> "mshr_unique", needs |-> {"mshr"},
   ok |-> \A i, j \in 1..Len(c.mshr.entries) : i # j =>
             <<c.mshr.entries[i].pid, c.mshr.entries[i].line>> # <<c.mshr.entries[j].pid, c.mshr.entries[j].line>>],
  [rule |-> "mshr_capacity", needs |-> {"mshr"}, ok |-> Len(c.mshr.entries) <= c.mshr.cap],
  [rule |-> "mshr_waiter", needs |-> {"mshr"},
   ok |-> \A i \in 1..Len(c.mshr.entries) : c.mshr.entries[i].nwait >= 1 \/ c.mshr.entries[i].fetch],
  [rule |-> "mshr_waiters_live", needs |-> {"mshr", "slots"},
   ok |-> \A i \in 1..Len(c.mshr.entries) : \A w \in Range(c.mshr.entries[i].wait) : Live(c, w)],
  [rule |-> "ref_exists", needs |-> {"slots", "bufs", "pipes"}, ok |-> \A i \in AllRefs(c) : InRange(c, i)],
  [rule |-> "ref_live", needs |-> {"slots", "bufs", "pipes"}, ok |-> \A i \in AllRefs(c) : InRange(c, i) => Live(c, i)],
  [rule |-> "ref_once", needs |-> {"bufs", "pipes"},
   ok |-> (\A b \in RefBufs(c) : Distinct(b.items)) /\ (\A p \in RefPipes(c) : Distinct(PipeRefs(p)))],
  [rule |-> "buffer_capacity", needs |-> {"bufs"}, ok |-> \A b \in Range(c.bufs) : Len(b.items) <= b.cap],
  [rule |-> "pipeline_shape", needs |-> {"pipes"},
   ok |-> \A p \in Range(c.pipes) :
            /\ \A i \in 1..Len(p.items) : /\ p.items[i].lane >= 0 /\ p.items[i].lane < p.width
                                          /\ p.items[i].stage >= 0 /\ p.items[i].stage < p.stages
            /\ \A i, j \in 1..Len(p.items) : i # j => <<p.items[i].lane, p.items[i].stage>> # <<p.items[j].lane, p.items[j].stage>>],
  [rule |-> "eviction_lists", needs |-> {"slots", "evictions"},
   ok |-> /\ Distinct(c.pending) /\ Distinct(c.inflight_evict) /\ Distinct(c.inflight_fetch)
          /\ Range(c.pending) \cap Range(c.inflight_evict) = {}
          /\ \A i \in Range(c.pending) \cup Range(c.inflight_evict) \cup Range(c.inflight_fetch) : InRange(c, i)],
  [rule |-> "evicting_not_clean", needs |-> {"evictions"}, ok |-> Range(c.evicting) \cap Range(c.valid_clean) = {}],
  [rule |-> "active_bound", needs |-> {"slots"},
   ok |-> c.kind \in WTKinds => Cardinality({i \in 1..NSlots(c) : ~c.slots[i]}) <= c.max_active],
  [rule |-> "rob_order", needs |-> {"rob"},
   ok |-> \A i \in 1..(Len(c.rob.entries) - 1) : c.rob.entries[i].bottom < c.rob.entries[i + 1].bottom],
  [rule |-> "rob_capacity", needs |-> {"rob"}, ok |-> Len(c.rob.entries) <= c.rob.cap],
  [rule |-> "rob_response", needs |-> {"rob"},
   ok |-> \A i \in 1..Len(c.rob.entries) : (c.rob.entries[i].has_rsp /\ c.rob.entries[i].read) => c.rob.entries[i].rsp_len > 0],
  [rule |-> "bank_selection", needs |-> {"banks"},
   ok |-> \A i \in 1..Len(c.banks.items) : LET it == c.banks.items[i] IN
             it.bank = ((it.hi * c.banks.per_4k) + (it.lo \div it.div)) % c.banks.n],
  [rule |-> "dram_queues", needs |-> {"dram"},
   ok |-> /\ c.dram.sub <= c.dram.tq_cap
          /\ \A q \in 1..Len(c.dram.queues) : c.dram.queues[q] <= c.dram.cq_cap
          /\ Range(c.dram.refs) \subseteq Range(c.dram.tx)],
  [rule |-> "settled_empty", needs |-> {},
   ok |-> settled =>
          /\ Has(c, "mshr") => c.mshr.entries = <<>>
          /\ Has(c, "slots") => \A i \in 1..NSlots(c) : c.slots[i]
          /\ Has(c, "bufs") => \A b \in Range(c.bufs) : b.items = <<>>
          /\ Has(c, "pipes") => \A p \in Range(c.pipes) : p.items = <<>>
          /\ Has(c, "evictions") => (c.pending = <<>> /\ c.inflight_evict = <<>> /\ c.inflight_fetch = <<>> /\ c.evicting = <<>>)
          /\ Has(c, "rob") => c.rob.entries = <<>>
          /\ Has(c, "banks") => c.banks.items = <<>>
          /\ Has(c, "dram") => (c.dram.tx = <<>> /\ c.dram.sub = 0 /\ \A q \in 1..Len(c.dram.queues) : c.dram.queues[q] = 0)]
>>

Failing(c, settled) == LET rs == Rules(c, settled) IN
    {rs[k].rule : k \in {j \in 1..Len(rs) : rs[j].needs \subseteq Range(c.have) /\ ~rs[j].ok}}

Report(rule, c, n) == PrintT(<<"CASE", ToJson([rule |-> rule, run |-> run', l |-> l, n |-> n, comp |-> c.name, kind |-> c.kind, state |-> c])>>)

TInit == l = 1 /\ run = 0 /\ bad = {} /\ TraceMarkInit
TState == /\ Ev.e = "state"
          /\ run' = Ev.run
          /\ LET old == IF Ev.run = run THEN bad ELSE {}
                 per == [k \in 1..Len(Ev.comps) |-> Failing(Ev.comps[k], Ev.settled)]
                 real == UNION {{<<r, Ev.comps[k].kind, k>> : r \in per[k]} : k \in 1..Len(Ev.comps)}
                 (* one report per (rule, component kind) and run: the first component that fails *)
                 new == {f \in real : <<f[1], f[2]>> \notin old /\ \A g \in real : (g[1] = f[1] /\ g[2] = f[2]) => g[3] >= f[3]} IN
             /\ \A f \in new : Report(f[1], Ev.comps[f[3]], Ev.n)
             /\ bad' = old \cup {<<f[1], f[2]>> : f \in real}
TNext == l <= TraceLen /\ l' = l + 1 /\ TState
TSpec == TInit /\ [][TNext]_tvars
Mark == TraceMark(l)
=============================================================================
