-------------------------------- MODULE Flush --------------------------------
(* C17 — an abstract hierarchy of NC write-back caches over a backing memory, at line
   granularity, to fix what "draining and flushing every cache" must achieve and what a
   filtered flush may do.

   flat[l]      the flat memory of C16 (value of the latest acknowledged write, 0 = never written)
   c[k][l]      cache k (1 = top): [st |-> "I" | "C" | "D", v |-> value]
   back[l]      backing memory

   Write allocates dirty in the top cache; Fill brings a line from below (clean); Evict
   drops a line, writing it one level down when dirty; FlushFiltered(k, F) is the
   statement's filtered flush; DrainFlushAll flushes every cache with the empty filter
   in the order Order (the statement's guarantee holds top-down; Flush_control.cfg uses
   bottom-up and TLC refutes Current).

   Checked: Transparent (what a requester sees is flat), Current (after DrainFlushAll,
   backing = flat at every written line, until the next write), and FilterRule: every
   FlushFiltered step (action property; `last` is kept out of the VIEW) satisfies FlushRules!FlushFilteredOK on the directory projection,
   i.e. the constructive step and the declarative rule used on the real traces agree. *)
EXTENDS FlushRules, TLC
CONSTANTS Lines, Vals, NC, NPID, Order, FilterAddrs
PIDOf == [l \in Lines |-> 1 + (l % NPID)]
VARIABLES flat, c, back, current, last
vars == <<flat, c, back, current, last>>
Levels == 1..NC
Empty == [st |-> "I", v |-> 0]
Init == /\ flat = [l \in Lines |-> 0] /\ back = [l \in Lines |-> 0]
        /\ c = [k \in Levels |-> [l \in Lines |-> Empty]]
        /\ current = FALSE /\ last = [op |-> "init"]

RECURSIVE Visible(_, _)
Visible(k, l) == IF k > NC THEN back[l] ELSE IF c[k][l].st # "I" THEN c[k][l].v ELSE Visible(k + 1, l)

(* directory projection of cache k: one slot per line, in the order of Lines *)
Order1 == CHOOSE s \in [1..Cardinality(Lines) -> Lines] : \A i, j \in DOMAIN s : i # j => s[i] # s[j]
Dir(cc, k) == [i \in 1..Cardinality(Lines) |->
                 LET l == Order1[i] IN [tag |-> l, pid |-> PIDOf[l], valid |-> cc[k][l].st # "I", dirty |-> cc[k][l].st = "D"]]

(* write line l with value v from cache k one level down *)
Down(cc, bb, k, l, v) == IF k = NC THEN <<cc, [bb EXCEPT ![l] = v]>>
                         ELSE <<[cc EXCEPT ![k + 1][l] = [st |-> "D", v |-> v]], bb>>

Write(l, v) == /\ flat' = [flat EXCEPT ![l] = v]
               /\ c' = [c EXCEPT ![1][l] = [st |-> "D", v |-> v]]
               /\ current' = FALSE /\ last' = [op |-> "write"] /\ UNCHANGED back
Fill(k, l) == /\ c[k][l].st = "I"
              /\ c' = [c EXCEPT ![k][l] = [st |-> "C", v |-> Visible(k + 1, l)]]
              /\ last' = [op |-> "fill"] /\ UNCHANGED <<flat, back, current>>
Evict(k, l) == /\ c[k][l].st # "I"
               /\ LET r == IF c[k][l].st = "D" THEN Down(c, back, k, l, c[k][l].v) ELSE <<c, back>> IN
                  /\ c' = [r[1] EXCEPT ![k][l] = Empty] /\ back' = r[2]
               /\ last' = [op |-> "evict"] /\ UNCHANGED <<flat, current>>

(* flush of cache k under filter F, line by line *)
RECURSIVE FlushLines(_, _, _, _, _)
FlushLines(cc, bb, k, F, todo) ==
    IF todo = {} THEN <<cc, bb, <<>>>>
    ELSE LET l == CHOOSE x \in todo : TRUE
             slot == [tag |-> l, pid |-> PIDOf[l], valid |-> cc[k][l].st # "I", dirty |-> cc[k][l].st = "D"]
             r == IF Selected(slot, F, 1) THEN Down([cc EXCEPT ![k][l].st = "C"], bb, k, l, cc[k][l].v) ELSE <<cc, bb>>
             rest == FlushLines(r[1], r[2], k, F, todo \ {l}) IN
         <<rest[1], rest[2], IF Selected(slot, F, 1) THEN <<l>> \o rest[3] ELSE rest[3]>>
FlushFiltered(k, F) == LET r == FlushLines(c, back, k, F, Lines) IN
    /\ c' = r[1] /\ back' = r[2]
    /\ last' = [op |-> "flush", k |-> k, F |-> F, wrote |-> r[3]]
    /\ UNCHANGED <<flat, current>>

All == [addrs |-> {}, pid |-> 0]
RECURSIVE FlushAllFrom(_, _, _)
FlushAllFrom(cc, bb, ks) == IF ks = <<>> THEN <<cc, bb>>
                            ELSE LET r == FlushLines(cc, bb, Head(ks), All, Lines) IN FlushAllFrom(r[1], r[2], Tail(ks))
TopDown == [i \in 1..NC |-> i]
BottomUp == [i \in 1..NC |-> NC + 1 - i]
DrainFlushAll == LET r == FlushAllFrom(c, back, IF Order = "topdown" THEN TopDown ELSE BottomUp) IN
    /\ c' = r[1] /\ back' = r[2] /\ current' = TRUE
    /\ last' = [op |-> "flushall"] /\ UNCHANGED flat

Filters == [addrs : FilterAddrs, pid : {0} \cup {PIDOf[l] : l \in Lines}]
Next == \/ \E l \in Lines, v \in Vals : Write(l, v)
        \/ \E k \in Levels, l \in Lines : Fill(k, l) \/ Evict(k, l)
        \/ \E k \in Levels, F \in Filters : FlushFiltered(k, F)
        \/ DrainFlushAll
Spec == Init /\ [][Next]_vars

Transparent == \A l \in Lines : Visible(1, l) = flat[l]
Current == current => \A l \in Lines : flat[l] # 0 => back[l] = flat[l]
FilterRule == [][last'.op = "flush" =>
                    FlushFilteredOK(Dir(c, last'.k), Dir(c', last'.k), last'.wrote, last'.F, 1)]_vars
(* a flush never changes what a requester sees *)
FlushInvisible == [][last'.op \in {"flush", "flushall"} => \A l \in Lines : Visible(1, l)' = Visible(1, l)]_vars
View == <<flat, c, back, current>>
=============================================================================
