SPECIFICATION Spec
CONSTANTS
  Addr = {0, 1}
  Byte = {0, 1}
  Ids = {i1, i2}
  MaxLen = 1
  MaxOut = 2
  Requester = "R"
  Ports = {"R", "X"}
  CheckOverlap = TRUE
  Faulty = TRUE
INVARIANT MemIsFlat
INVARIANT ReadsFlat
INVARIANT AtMostOnce
INVARIANT NoOverlapInv
PROPERTY ExpectedStable
CHECK_DEADLOCK FALSE
