------------------------------ MODULE MemHier ------------------------------
(* C16 — what a requester may observe from ANY memory hierarchy, as the statement
   gives it: a flat byte memory, zero-initial, to which the acknowledged writes are
   applied under their dirty masks.  The hierarchy is a black box; only the
   requester-side events exist:

     IssueRead(id,a,n)  IssueWrite(id,a,data,mask)     the requester sends a request
     Respond(rsp)                                      a response reaches the requester
     Quiesce                                           the run ends (nothing left to do)

   The requester never has two requests in flight that touch a common byte
   (NoOverlap), so the bytes a read must return do not depend on the order in which
   the hierarchy acknowledges concurrent requests (ExpectedStable, checked by TLC;
   MemHier_control2.cfg drops the precondition and TLC refutes it).

   Class(rsp) is the per-response rule of the statement: the response names a
   request that is still unanswered (exactly one response per request), has the
   matching kind, is addressed to the sender, and — for reads — carries exactly the
   bytes of the flat memory.  Next only takes responses of class "ok"; with
   Faulty = TRUE (MemHier_control.cfg) any response of the universe may arrive and
   is recorded in `bad`, which shows that every rule can fail.

   `mem` is kept sparse (a function on the written addresses) so that the same
   operators serve the trace specification MemTrace, where Addr = Nat.          *)
EXTENDS Integers, Sequences, FiniteSets, TLC, Json
CONSTANTS Addr,        \* byte addresses
          Byte,        \* byte values (0 \in Byte)
          Ids,         \* request identifiers
          MaxLen,      \* longest request
          MaxOut,      \* most requests in flight
          Requester,   \* the requester's port
          Ports,       \* every port a response could be addressed to
          CheckOverlap,\* TRUE: the requester honours the precondition
          Faulty       \* TRUE: the hierarchy may answer anything
VARIABLES mem, outstanding, answered, acked, log, bad, ended
vars == <<mem, outstanding, answered, acked, log, bad, ended>>

Val(m, a) == IF a \in DOMAIN m THEN m[a] ELSE 0
Range(r) == r.addr .. (r.addr + r.len - 1)
Written(r) == {r.addr + i - 1 : i \in {j \in 1..r.len : r.mask = <<>> \/ r.mask[j]}}
(* the flat memory after acknowledging write r *)
Apply(m, r) == [a \in Written(r) |-> r.data[a - r.addr + 1]] @@ m
Expected(m, r) == [i \in 1..r.len |-> Val(m, r.addr + i - 1)]
Touches(r, s) == Range(r) \cap Range(s) # {}
Req(id) == CHOOSE r \in outstanding : r.id = id
Known(id) == \E r \in outstanding : r.id = id

(* ---- the statement's rule for one response *)
Class(rsp) ==
    IF ~Known(rsp.to) THEN (IF rsp.to \in answered THEN "duplicate_response" ELSE "response_to_unknown_request")
    ELSE LET r == Req(rsp.to) IN
         IF rsp.k # (IF r.k = "read" THEN "data" ELSE "done") THEN "wrong_kind"
         ELSE IF rsp.dst # Requester THEN "wrong_destination"
         ELSE IF r.k = "read" /\ Len(rsp.data) # r.len THEN "wrong_length"
         ELSE IF r.k = "read" /\ rsp.data # Expected(mem, r) THEN "wrong_data"
         ELSE "ok"

Init == /\ mem = <<>> /\ outstanding = {} /\ answered = {} /\ acked = <<>> /\ log = <<>> /\ bad = {} /\ ended = FALSE
        /\ TLCSet(2, {})
(* control model: every class is announced once (register 2; run with one worker) *)
Announce(c) == IF c \in TLCGet(2) THEN TRUE
               ELSE TLCSet(2, TLCGet(2) \cup {c}) /\ PrintT(<<"CASE", ToJson([class |-> c])>>)

Fresh(id) == id \notin answered /\ ~Known(id)
Issue(r) == /\ ~ended /\ Fresh(r.id) /\ Cardinality(outstanding) < MaxOut
            /\ Range(r) \subseteq Addr
            /\ CheckOverlap => \A s \in outstanding : ~Touches(r, s)
            /\ outstanding' = outstanding \cup {r}
            /\ UNCHANGED <<mem, answered, acked, log, bad, ended>>
IssueRead(id, a, n) == Issue([id |-> id, k |-> "read", addr |-> a, len |-> n, data |-> <<>>, mask |-> <<>>])
IssueWrite(id, a, d, m) == /\ m = <<>> \/ Len(m) = Len(d)
                           /\ Issue([id |-> id, k |-> "write", addr |-> a, len |-> Len(d), data |-> d, mask |-> m])

(* a response the statement allows: the request is answered, a write takes effect *)
Accept(rsp) == LET r == Req(rsp.to) IN
    /\ outstanding' = outstanding \ {r}
    /\ answered' = answered \cup {r.id}
    /\ mem' = (IF r.k = "write" THEN Apply(mem, r) ELSE mem)
    /\ acked' = (IF r.k = "write" THEN Append(acked, r) ELSE acked)
    /\ log' = Append(log, [r |-> r, data |-> rsp.data, seen |-> Len(acked)])
Respond(rsp) == /\ ~ended /\ Class(rsp) = "ok" /\ Accept(rsp) /\ UNCHANGED <<bad, ended>>
(* a response the statement forbids (control model only): recorded; a response that at
   least names an unanswered request still retires it *)
Misbehave(rsp) == /\ Faulty /\ ~ended /\ Class(rsp) # "ok"
                  /\ bad' = bad \cup {Class(rsp)} /\ Announce(Class(rsp))
                  /\ IF Known(rsp.to) THEN /\ outstanding' = outstanding \ {Req(rsp.to)}
                                           /\ answered' = answered \cup {rsp.to}
                     ELSE UNCHANGED <<outstanding, answered>>
                  /\ UNCHANGED <<mem, acked, log, ended>>
(* the run ends; the statement demands that nothing is unanswered then *)
Quiesce == /\ ~ended /\ (outstanding = {} \/ Faulty)
           /\ ended' = TRUE
           /\ bad' = (IF outstanding = {} THEN bad ELSE bad \cup {"never_answered"})
           /\ (outstanding # {} => Announce("never_answered"))
           /\ UNCHANGED <<mem, outstanding, answered, acked, log>>

SeqsOf(S, n) == UNION {[1..k -> S] : k \in 1..n}
(* the finite universes of the model (constant: TLC evaluates them once) *)
Rsps == [to : Ids, k : {"data", "done"}, dst : Ports, data : {<<>>} \cup SeqsOf(Byte, MaxLen)]
ReadShapes == {[k |-> "read", addr |-> a, len |-> n, data |-> <<>>, mask |-> <<>>] : a \in Addr, n \in 1..MaxLen}
WriteShapes == UNION {{[k |-> "write", addr |-> a, len |-> Len(d), data |-> d, mask |-> m] :
                         a \in Addr, m \in {<<>>} \cup [1..Len(d) -> BOOLEAN]} : d \in SeqsOf(Byte \ {0}, MaxLen)}
Shapes == {q \in ReadShapes \cup WriteShapes : Range(q) \subseteq Addr}
WithId(q, id) == [id |-> id, k |-> q.k, addr |-> q.addr, len |-> q.len, data |-> q.data, mask |-> q.mask]
Next == \/ \E id \in Ids, q \in Shapes : Issue(WithId(q, id))
        \/ \E rsp \in Rsps : Respond(rsp) \/ Misbehave(rsp)
        \/ Quiesce
Spec == Init /\ [][Next]_vars

(* ---- properties TLC checks on the specification itself ---- *)
(* the flat memory defined from the history of acknowledged writes alone: the value of a
   byte is what the latest acknowledged write that covers it (under its mask) put there *)
RECURSIVE FlatAt(_, _, _)
FlatAt(h, k, a) == IF k = 0 THEN 0
                   ELSE IF a \in Written(h[k]) THEN h[k].data[a - h[k].addr + 1]
                   ELSE FlatAt(h, k - 1, a)
MemIsFlat == \A a \in Addr : Val(mem, a) = FlatAt(acked, Len(acked), a)
(* every read answer that was let through carried the flat memory of that moment *)
ReadsFlat == \A i \in 1..Len(log) : log[i].r.k = "read" =>
                log[i].data = [j \in 1..log[i].r.len |-> FlatAt(acked, log[i].seen, log[i].r.addr + j - 1)]
(* never two responses for one request, every response for a request that was issued *)
AtMostOnce == \A i, j \in 1..Len(log) : i # j => log[i].r.id # log[j].r.id
EndsAnswered == (ended /\ ~Faulty) => outstanding = {}
NoOverlapInv == CheckOverlap => \A r, s \in outstanding : r # s => ~Touches(r, s)
(* under the precondition the bytes an outstanding read must return cannot change *)
ExpectedStable == [][\A r \in outstanding \cap outstanding' :
                        r.k = "read" => Expected(mem', r) = Expected(mem, r)]_vars
IdSym == Permutations(Ids)
(* control: a faulty hierarchy is caught *)
NothingBad == bad = {}
=============================================================================
