SPECIFICATION Spec
CONSTANTS
  MaxT = 5
  T <- ToyFaw
  Fam = "ddr"
  BankKeys <- FiveBanks
  Rows = {0}
  CmdKinds <- FawKinds
  Free = TRUE
INVARIANT Equivalent
CHECK_DEADLOCK FALSE
VIEW MonView
