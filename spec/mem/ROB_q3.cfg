SPECIFICATION Spec
CONSTANTS
  NReq = 3
  Caps = {1, 2, 3}
  Kinds = {"read", "write"}
  WhoPats = {"same", "alt"}
  Resets = FALSE
  Quiets = {TRUE, FALSE}
INVARIANT TypeOK
INVARIANT InOrder
INVARIANT OwnResult
INVARIANT PosInjective
INVARIANT Emit
PROPERTY AnswerStep
CHECK_DEADLOCK FALSE
