----------------------------- MODULE CtrlProto -----------------------------
(* C18 — one memory agent under the uniform control protocol, as the statement and
   mem/CONTROL_PROTOCOL.md describe it (independent of any middleware):

     ctl      control state  Enabled | Paused | Draining | Flushing
     cmdQ     control requests received and not yet answered (request order);
              commands are handled one at a time: while Draining/Flushing the head
              is the command in progress and nothing else is dequeued
     data     the life of each data request: new -> queued (in the Top buffer) ->
              inflight (accepted) -> served | dropped (by a reset)
     sent/rsps  history of requests / responses

   The environment may send any verb (with or without a filter) at any moment, so
   the model covers pipelined and paced senders; data requests arrive at any moment
   when traffic is on.  TLC checks the statement's rules as invariants and action
   properties, and emits one BEHAVIOUR per (matrix row, traffic, verb sequence)
   with the outcome of every verb and the final control state, for replay on each
   of the twelve real agents.                                                    *)
EXTENDS CtrlMatrix, TLC, Json
CONSTANTS MaxCmds, MaxReqs, TrafficChoices, KindChoices, Emit
VARIABLES kind, traffic, ctl, cmdQ, sent, rsps, data, quiet
vars == <<kind, traffic, ctl, cmdQ, sent, rsps, data, quiet>>

Letters == [v : Universal, f : {FALSE}] \cup [v : Conditional, f : BOOLEAN]
Reqs == 1..MaxReqs
Last(s) == s[Len(s)]

Init == /\ kind \in KindChoices /\ traffic \in TrafficChoices
        /\ ctl = "Enabled" /\ cmdQ = <<>> /\ sent = <<>> /\ rsps = <<>>
        /\ data = [r \in Reqs |-> "new"] /\ quiet = FALSE

(* ---- environment *)
Send(x) == /\ Len(sent) < MaxCmds
           /\ sent' = Append(sent, x)
           /\ cmdQ' = Append(cmdQ, [id |-> Len(sent) + 1, v |-> x.v])
           /\ UNCHANGED <<kind, traffic, ctl, rsps, data, quiet>>
Arrive(r) == /\ traffic /\ data[r] = "new" /\ \A q \in Reqs : q < r => data[q] # "new"
             /\ data' = [data EXCEPT ![r] = "queued"]
             /\ UNCHANGED <<kind, traffic, ctl, cmdQ, sent, rsps, quiet>>

(* ---- data path: accepts only when enabled; in-flight work advances when enabled,
        and while a drain is in progress (that is what Drain asks for) *)
Accept(r) == /\ ctl = "Enabled" /\ data[r] = "queued"
             /\ data' = [data EXCEPT ![r] = "inflight"]
             /\ UNCHANGED <<kind, traffic, ctl, cmdQ, sent, rsps, quiet>>
DataRsp(r) == /\ ctl \in {"Enabled", "Draining"} /\ data[r] = "inflight"
              /\ data' = [data EXCEPT ![r] = "served"]
              /\ UNCHANGED <<kind, traffic, ctl, cmdQ, sent, rsps, quiet>>

(* ---- control path *)
Ack(c, o) == /\ rsps' = Append(rsps, [id |-> c.id, v |-> c.v, out |-> o])
             /\ cmdQ' = Tail(cmdQ)
Idle == ctl \in {"Enabled", "Paused"} /\ cmdQ # <<>>
RefuseUnsupported == /\ Idle /\ Head(cmdQ).v \notin Support[kind]
                     /\ Ack(Head(cmdQ), "unsupported")
                     /\ UNCHANGED <<kind, traffic, ctl, sent, data, quiet>>
RefuseIllegal == /\ Idle /\ Head(cmdQ).v \in Support[kind] \cap Conditional /\ ctl = "Enabled"
                 /\ Ack(Head(cmdQ), "illegal")
                 /\ UNCHANGED <<kind, traffic, ctl, sent, data, quiet>>
AckSync == /\ Idle /\ Head(cmdQ).v \in Support[kind]
           /\ LET v == Head(cmdQ).v IN
              \/ /\ v = "pause" /\ ctl' = "Paused" /\ quiet' = TRUE /\ UNCHANGED data
              \/ /\ v = "enable" /\ ctl' = "Enabled" /\ quiet' = FALSE /\ UNCHANGED data
              \/ /\ v = "invalidate" /\ ctl = "Paused" /\ UNCHANGED <<ctl, quiet, data>>
           /\ Ack(Head(cmdQ), "ok")
           /\ UNCHANGED <<kind, traffic, sent>>
Reset == /\ Idle /\ Head(cmdQ).v = "reset" /\ "reset" \in Support[kind]
         /\ ctl' = "Enabled" /\ quiet' = FALSE
         /\ data' = [r \in Reqs |-> IF data[r] \in {"queued", "inflight"} THEN "dropped" ELSE data[r]]
         /\ Ack(Head(cmdQ), "ok")
         /\ UNCHANGED <<kind, traffic, sent>>
StartDrain == /\ Idle /\ Head(cmdQ).v = "drain" /\ "drain" \in Support[kind]
              /\ ctl' = "Draining"
              /\ UNCHANGED <<kind, traffic, cmdQ, sent, rsps, data, quiet>>
AckDrain == /\ ctl = "Draining" /\ \A r \in Reqs : data[r] # "inflight"
            /\ ctl' = "Paused" /\ quiet' = TRUE
            /\ Ack(Head(cmdQ), "ok")
            /\ UNCHANGED <<kind, traffic, sent, data>>
StartFlush == /\ Idle /\ Head(cmdQ).v = "flush" /\ "flush" \in Support[kind] /\ ctl = "Paused"
              /\ ctl' = "Flushing"
              /\ UNCHANGED <<kind, traffic, cmdQ, sent, rsps, data, quiet>>
AckFlush == /\ ctl = "Flushing"
            /\ ctl' = "Paused"
            /\ Ack(Head(cmdQ), "ok")
            /\ UNCHANGED <<kind, traffic, sent, data, quiet>>

Control == RefuseUnsupported \/ RefuseIllegal \/ AckSync \/ Reset \/ StartDrain \/ AckDrain \/ StartFlush \/ AckFlush
Next == \/ \E x \in Letters : Send(x)
        \/ \E r \in Reqs : Arrive(r) \/ Accept(r) \/ DataRsp(r)
        \/ Control
Spec == Init /\ [][Next]_vars
Fair == /\ WF_vars(Control)
        /\ \A r \in Reqs : WF_vars(Accept(r)) /\ WF_vars(DataRsp(r))
LiveSpec == Spec /\ Fair

(* ---- what the statement demands, stated independently of the actions above:
        "commands are handled one at a time" => the outcome of the i-th verb is the
        matrix outcome in the state the first i-1 verbs leave *)
RECURSIVE RunAfter(_, _)
RunAfter(s, i) == IF i = 0 THEN TRUE
                  ELSE LET r == RunAfter(s, i - 1) IN RunningAfter(s[i].v, Outcome(kind, s[i].v, r), r)
Expected(s, i) == Outcome(kind, s[i].v, RunAfter(s, i - 1))

TypeOK == /\ ctl \in {"Enabled", "Paused", "Draining", "Flushing"}
          /\ data \in [Reqs -> {"new", "queued", "inflight", "served", "dropped"}]
          /\ Len(sent) <= MaxCmds
OneRspPerReq == /\ Len(rsps) + Len(cmdQ) = Len(sent)
                /\ \A i \in DOMAIN cmdQ : cmdQ[i].id = Len(rsps) + i
RspInReqOrder == \A i \in DOMAIN rsps : rsps[i].id = i /\ rsps[i].v = sent[i].v
Refusals == \A i \in DOMAIN rsps : rsps[i].out = Expected(sent, i)
Settles == cmdQ = <<>> => /\ ctl = (IF RunAfter(sent, Len(sent)) THEN "Enabled" ELSE "Paused")
                          /\ quiet = (ctl = "Paused")
AsyncHead == ctl \in {"Draining", "Flushing"} => cmdQ # <<>> /\ Head(cmdQ).v = (IF ctl = "Draining" THEN "drain" ELSE "flush")

Acked(v) == Len(rsps') = Len(rsps) + 1 /\ Last(rsps').v = v /\ Last(rsps').out = "ok"
Served(r) == data[r] = "inflight" /\ data'[r] = "served"
PausedSilent == [][\A r \in Reqs : Served(r) => (~quiet \/ ctl = "Draining")]_vars
DrainPost == [][Acked("drain") => ctl' = "Paused" /\ \A r \in Reqs : data'[r] # "inflight"]_vars
ResetPost == [][Acked("reset") => ctl' = "Enabled" /\ \A r \in Reqs : data'[r] \notin {"queued", "inflight"}]_vars
NoLateRsp == [][\A r \in Reqs : (data[r] = "dropped" => data'[r] = "dropped") /\ (data[r] = "served" => data'[r] = "served")]_vars
OneAtATime == [][Len(rsps') <= Len(rsps) + 1 /\ (ctl \in {"Draining", "Flushing"} /\ cmdQ' # cmdQ /\ Len(sent') = Len(sent) => Acked(Head(cmdQ).v))]_vars

(* liveness (CtrlProto_live.cfg): every request is answered; requests queued during a
   pause are served once the agent stays enabled *)
AllAnswered == <>[](cmdQ = <<>>)
QueuedServed == <>[](ctl = "Enabled") => <>[](\A r \in Reqs : data[r] \notin {"queued", "inflight"})

(* ---- emission: one record per (row, traffic, verb sequence) in the state where every
        verb was answered and no data request has arrived yet (unique per sequence) *)
Outs == [i \in DOMAIN rsps |-> rsps[i].out]
EmitB == (Emit /\ sent # <<>> /\ cmdQ = <<>> /\ \A r \in Reqs : data[r] = "new") =>
            PrintT(<<"BEHAVIOUR", ToJson([kind |-> kind, traffic |-> traffic,
                                          seq |-> [i \in DOMAIN sent |-> <<sent[i].v, sent[i].f>>],
                                          out |-> Outs, ctl |-> ctl])>>)
EmitMatrix == PrintT(<<"CASE", ToJson([agents |-> AgentKind,
                                        support |-> [k \in Kinds |-> Support[k]]])>>)
ASSUME EmitMatrix
=============================================================================
