------------------------------ MODULE Directory ------------------------------
(* C19 — cache directories stay well-formed: the set-associative directory of
   mem/cache (DirectoryState + DirectoryLookup / DirectoryFindVictim / DirectoryVisit
   / DirectoryReset) as the statement describes it.

   NumSets sets of NumWays ways.  A block is invalid, or holds a line of a process
   and may be locked (a fill or a write in flight) or have outstanding readers.
   Recency is kept per set as a rank (1 = least recently visited); the recency list
   of a set is the ways sorted by rank.  Lines are abstract ids 1..NumLines; line l
   maps to set (l % NumSets) + 1 — the harness chooses concrete line addresses whose
   real set index (cache.DirectorySetID) is exactly that.

   Operations = the exported functions plus the block updates done the way the
   caches do them around those functions (fill a victim, lock for a write, unlock,
   start/end a read hit, invalidate).  A locked block or one with readers is never
   the target of a fill (the callers' guard), lookups never return an invalid block,
   and the victim search must return a way that is neither locked nor read whenever
   the set has one (when every way is busy any answer is acceptable: the caller
   stalls).  Which of several idle ways is the victim is left free — the statement
   does not say; `res.ways` is the set of acceptable answers.                     *)
EXTENDS Integers, Sequences, FiniteSets, TLC, Json, DirectoryDefs
CONSTANTS NumSets, NumWays, PIDs, NumLines, SharedLines, MaxRC
VARIABLES blk, rank, last
vars == <<blk, rank, last>>

Sets == 1..NumSets
Ways == 1..NumWays
Lines == 1..NumLines
SetOf(l) == (l % NumSets) + 1
(* the (process, line) pairs in use: lines 1..SharedLines by every process, the others
   only by the smallest process id (keeps the quick model small, still two processes) *)
MinPid == CHOOSE p \in PIDs : \A o \in PIDs : p <= o
Keys == {k \in PIDs \X Lines : k[2] <= SharedLines \/ k[1] = MinPid}

Empty == [valid |-> FALSE, locked |-> FALSE, rc |-> 0, pid |-> 0, line |-> 0]
IsBusy(b) == b.locked \/ b.rc > 0

(* the recency list of set s: ways by increasing rank *)
Order(r, s) == [k \in Ways |-> CHOOSE w \in Ways : r[s][w] = k]
(* the directory value in the shape of DirectoryDefs *)
Tup(b) == <<b.valid, b.locked, b.rc, b.pid, b.line, IF b.valid THEN SetOf(b.line) ELSE 0>>
Val(b, r) == [s \in Sets |-> <<Order(r, s), [w \in Ways |-> Tup(b[s][w])]>>]
St == Val(blk, rank)
St2 == Val(blk', rank')

Init == /\ blk = [s \in Sets |-> [w \in Ways |-> Empty]]
        /\ rank = [s \in Sets |-> [w \in Ways |-> w]]
        /\ last = [op |-> "reset", arg |-> <<>>, res |-> "ok"]
        /\ PrintT(<<"INIT", ToJson(St)>>)

Op(o, a, r) == last' = [op |-> o, arg |-> a, res |-> r]
Same == UNCHANGED <<blk, rank>>

(* w becomes the most recently visited way of s: everything above it moves down *)
Touch(s, w) == rank' = [rank EXCEPT ![s] = [v \in Ways |->
                          IF v = w THEN NumWays
                          ELSE IF rank[s][v] > rank[s][w] THEN rank[s][v] - 1 ELSE rank[s][v]]]

Holders(p, l) == {w \in Ways : LET b == blk[SetOf(l)][w] IN b.valid /\ b.pid = p /\ b.line = l}

Lookup(p, l) ==
  /\ Same
  /\ IF Holders(p, l) = {}
     THEN Op("lookup", [pid |-> p, line |-> l], [set |-> SetOf(l), way |-> 0, found |-> FALSE])
     ELSE \E w \in Holders(p, l) :
            Op("lookup", [pid |-> p, line |-> l], [set |-> SetOf(l), way |-> w, found |-> TRUE])

Idle(s) == {w \in Ways : ~IsBusy(blk[s][w])}
FindVictim(l) ==
  /\ Same
  /\ LET s == SetOf(l)
     IN Op("findvictim", [line |-> l],
           [set |-> s, ways |-> IF Idle(s) = {} THEN Ways ELSE Idle(s), allbusy |-> Idle(s) = {}])

Visit(s, w) == /\ Touch(s, w) /\ UNCHANGED blk /\ Op("visit", [set |-> s, way |-> w], "ok")

(* install line l of process p in way w of its set: only an idle way is ever chosen,
   and only when the line is not already present *)
Fill(p, l, w) ==
  LET s == SetOf(l) IN
  /\ ~IsBusy(blk[s][w])
  /\ Holders(p, l) = {}
  /\ blk' = [blk EXCEPT ![s][w] = [valid |-> TRUE, locked |-> TRUE, rc |-> 0, pid |-> p, line |-> l]]
  /\ Touch(s, w)
  /\ Op("fill", [set |-> s, way |-> w, pid |-> p, line |-> l], "ok")

Lock(s, w) == /\ blk[s][w].valid /\ ~IsBusy(blk[s][w])
              /\ blk' = [blk EXCEPT ![s][w].locked = TRUE]
              /\ Touch(s, w)
              /\ Op("lock", [set |-> s, way |-> w], "ok")
Unlock(s, w) == /\ blk[s][w].locked
                /\ blk' = [blk EXCEPT ![s][w].locked = FALSE]
                /\ UNCHANGED rank
                /\ Op("unlock", [set |-> s, way |-> w], "ok")
StartRead(s, w) == /\ blk[s][w].valid /\ ~blk[s][w].locked /\ blk[s][w].rc < MaxRC
                   /\ blk' = [blk EXCEPT ![s][w].rc = @ + 1]
                   /\ Touch(s, w)
                   /\ Op("startread", [set |-> s, way |-> w], "ok")
EndRead(s, w) == /\ blk[s][w].rc > 0
                 /\ blk' = [blk EXCEPT ![s][w].rc = @ - 1]
                 /\ UNCHANGED rank
                 /\ Op("endread", [set |-> s, way |-> w], "ok")
Invalidate(s, w) == /\ blk[s][w].valid /\ ~IsBusy(blk[s][w])
                    /\ blk' = [blk EXCEPT ![s][w] = Empty]
                    /\ UNCHANGED rank
                    /\ Op("invalidate", [set |-> s, way |-> w], "ok")
Reset == /\ blk' = [s \in Sets |-> [w \in Ways |-> Empty]]
         /\ rank' = [s \in Sets |-> [w \in Ways |-> w]]
         /\ Op("reset", <<>>, "ok")

Next == \/ \E k \in Keys : Lookup(k[1], k[2]) \/ (\E w \in Ways : Fill(k[1], k[2], w))
        \/ \E l \in Lines : FindVictim(l)
        \/ \E s \in Sets, w \in Ways : \/ Visit(s, w) \/ Lock(s, w) \/ Unlock(s, w) \/ StartRead(s, w)
                                       \/ EndRead(s, w) \/ Invalidate(s, w)
        \/ Reset
Spec == Init /\ [][Next]_vars

View == <<blk, rank>>
Emit == PrintT(<<"EDGE", ToJson([s |-> St, a |-> last', t |-> St2])>>)

(* the statement, on the model itself *)
RankIsPermutation == \A s \in Sets : \A k \in Ways : Cardinality({w \in Ways : rank[s][w] = k}) = 1
InvWellFormed == RankIsPermutation /\ WellFormed(St)
InvalidIsIdle == \A s \in Sets, w \in Ways : ~blk[s][w].valid => blk[s][w] = Empty
NeverReplaceBusy == [][StepOK(St, St2)]_vars
(* the victim search has an idle answer whenever the callers' guard would accept one *)
VictimAnswer == [][last'.op = "findvictim" =>
                     /\ last'.res.ways # {}
                     /\ (~last'.res.allbusy => \A w \in last'.res.ways : ~IsBusy(blk[last'.res.set][w]))]_vars
=============================================================================
