---------------------------- MODULE DataMover ----------------------------
(* C23 — a data mover as the statement describes it: two byte memories (inside,
   outside), a FIFO of move requests, and ONE abstract action per request that
   copies exactly [sa, sa+size) of the source side, as it is when the request's
   turn comes, to [da, da+size) of the destination side, changes nothing else
   and produces one acknowledgment.  Granularities and the buffer size are part
   of the configuration but — by the statement — have no influence on the result;
   they are enumerated so that the real mover is exercised with each of them.

   Memory cells hold a provenance code: the preloaded cell whose content they
   hold (side index * N + address).  The driver preloads both real memories with
   known bytes and translates codes back into bytes, so that one behaviour can
   be replayed at several byte scales (a cell = 1 byte, or 16 bytes, which maps
   the granularities {4,8,12,16} to {64,128,192,256}).

   A behaviour is: choose a configuration; submit 1..MaxReqs accepted requests
   (a later one either queued behind the earlier ones or sent after their
   acknowledgments); serve them in order.  Every complete behaviour is printed
   as a CASE for replay on the real mover.                                      *)
EXTENDS Integers, Sequences, FiniteSets, TLC, Json

CONSTANTS N,        \* cells per memory, addresses 0..N-1
          Grans,    \* byte granularities a side may have (single-request behaviours)
          Bufs,     \* buffer sizes                        (single-request behaviours)
          Addrs,    \* candidate addresses                 (single-request behaviours)
          Sizes,    \* candidate sizes                     (single-request behaviours)
          MaxReqs,  \* longest behaviour
          Grans2, Bufs2, Addrs2, Sizes2   \* the (narrower) sets for multi-request behaviours

VARIABLES cfg,      \* [ig, og, buf, multi]
          mem,      \* [inside |-> [0..N-1 -> code], outside |-> ...]
          pending,  \* FIFO of requests not served yet
          subm,     \* all requests in submission order
          done      \* sequence of [req, mem] : acknowledgments so far with the memories at that instant
vars == <<cfg, mem, pending, subm, done>>

Sides == {"inside", "outside"}
SideIx(s) == IF s = "inside" THEN 0 ELSE 1
Gran(c, s) == IF s = "inside" THEN c.ig ELSE c.og
Cells == 0..(N - 1)
Fresh == [s \in Sides |-> [a \in Cells |-> SideIx(s) * N + a]]

Range(a, n) == {x \in Cells : a <= x /\ x < a + n}

(* What the data mover accepts: addresses aligned to the granularity of their side
   (anything else is refused outright) and ranges inside the memories.            *)
Accepted(c, r) ==
    /\ r.sa % Gran(c, r.src) = 0
    /\ r.da % Gran(c, r.dst) = 0
    /\ r.sa + r.size <= N
    /\ r.da + r.size <= N
(* Every buffer size is an accepted configuration: the builder validates nothing, so the
   statement's "one acknowledgment per request" is demanded for all of them (buffers
   smaller than a granule and non-multiples of either granularity included).           *)

(* Keeps the two recorded defect classes apart (see checks/c23.py): a request whose
   ranges overlap on one side with the destination ahead of the source is only
   generated with a size that is a multiple of the destination granularity.       *)
ForwardOverlap(r) == r.src = r.dst /\ r.sa < r.da /\ r.da < r.sa + r.size
Separable(c, r) == ForwardOverlap(r) => r.size % Gran(c, r.dst) = 0

Reqs(as, ss) == [src : Sides, dst : Sides, sa : as, da : as, size : ss]

(* ---- the move: the snapshot of the source range, shifted onto the destination
   addresses, overrides the destination side's memory                              *)
Shifted(m, r) == [a \in Range(r.da, r.size) |-> m[r.src][r.sa + (a - r.da)]]
Override(f, g) == [a \in DOMAIN f |-> IF a \in DOMAIN g THEN g[a] ELSE f[a]]
Move(m, r) == [m EXCEPT ![r.dst] = Override(m[r.dst], Shifted(m, r))]

Init == /\ cfg \in [ig : Grans, og : Grans, buf : Bufs, multi : {FALSE}]
                   \cup [ig : Grans2, og : Grans2, buf : Bufs2, multi : {TRUE}]
        /\ (cfg.multi => MaxReqs > 1)
        /\ mem = Fresh
        /\ pending = <<>> /\ subm = <<>> /\ done = <<>>

(* a later request is either queued right behind the first one or sent when everything
   before it has been acknowledged; other interleavings add nothing the mover can see *)
CanSubmit == /\ Len(subm) < (IF cfg.multi THEN MaxReqs ELSE 1)
             /\ (done = <<>> \/ pending = <<>>)
Submit(r) ==
    /\ Accepted(cfg, r) /\ Separable(cfg, r)
    /\ LET q == [src |-> r.src, dst |-> r.dst, sa |-> r.sa, da |-> r.da, size |-> r.size,
                 after |-> Len(done)]
       IN /\ pending' = Append(pending, q) /\ subm' = Append(subm, q)
    /\ UNCHANGED <<cfg, mem, done>>

Serve ==
    /\ pending # <<>>
    /\ LET r == Head(pending) IN
         /\ mem' = Move(mem, r)
         /\ done' = Append(done, [req |-> r, mem |-> Move(mem, r)])
    /\ pending' = Tail(pending)
    /\ UNCHANGED <<cfg, subm>>

Next == \/ CanSubmit /\ \E r \in (IF cfg.multi THEN Reqs(Addrs2, Sizes2) ELSE Reqs(Addrs, Sizes)) : Submit(r)
        \/ Serve
Spec == Init /\ [][Next]_vars

(* ---- what TLC checks on the specification itself ---- *)
TypeOK == /\ \A s \in Sides : DOMAIN mem[s] = Cells /\ \A a \in Cells : mem[s][a] \in 0..(2 * N - 1)
          /\ Len(pending) + Len(done) = Len(subm)

(* the statement, declaratively, for every acknowledged move *)
ExactCopy ==
    [][(done' # done) =>
         LET r == Head(pending) IN
           /\ \A i \in 0..(r.size - 1) : mem'[r.dst][r.da + i] = mem[r.src][r.sa + i]
           /\ \A s \in Sides : \A a \in Cells :
                 ~(s = r.dst /\ r.da <= a /\ a < r.da + r.size) => mem'[s][a] = mem[s][a]]_vars
(* one acknowledgment per request, in arrival order *)
FifoOneAck == /\ \A k \in 1..Len(done) : done[k].req = subm[k]
              /\ \A k \in 1..Len(pending) : pending[k] = subm[Len(done) + k]
(* granularities and buffer never influence the outcome: the memories at the k-th
   acknowledgment are a function of the requests alone                             *)
RECURSIVE Replay(_, _)
Replay(m, k) == IF k = 0 THEN m ELSE Move(Replay(m, k - 1), subm[k])
ConfigIndependent == \A k \in 1..Len(done) : done[k].mem = Replay(Fresh, k)
(* nothing is created: every cell holds some preloaded cell's content, and a cell of
   one side only ever receives content through a move whose destination is that side *)
Untouched == \A s \in Sides : (\A k \in 1..Len(done) : done[k].req.dst # s) => mem[s] = Fresh[s]

Complete == pending = <<>> /\ subm # <<>> /\ (cfg.multi => Len(subm) = MaxReqs)
Code(m) == <<[a \in 1..N |-> m["inside"][a - 1]], [a \in 1..N |-> m["outside"][a - 1]]>>
Emit == Complete =>
          PrintT(<<"CASE", ToJson([ig |-> cfg.ig, og |-> cfg.og, buf |-> cfg.buf, n |-> N,
                                   reqs |-> subm,
                                   exp |-> [k \in 1..Len(done) |-> Code(done[k].mem)]])>>)
=======================================================================
