SPECIFICATION Spec
CONSTANTS
  NReq = 4
  Caps = {3}
  Kinds = {"read", "write"}
  WhoPats = {"alt"}
  Resets = TRUE
  Quiets = {FALSE}
INVARIANT TypeOK
INVARIANT InOrder
INVARIANT OwnResult
INVARIANT PosInjective
INVARIANT Emit
PROPERTY AnswerStep
CHECK_DEADLOCK FALSE
