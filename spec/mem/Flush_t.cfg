SPECIFICATION Spec
CONSTANTS
  Lines = {0, 1, 2}
  Vals = {1, 2}
  NC = 2
  NPID = 2
  Order = "topdown"
  FilterAddrs = {{}, {0}, {1, 2}}
INVARIANT Transparent
INVARIANT Current
PROPERTY FlushInvisible
PROPERTY FilterRule
VIEW View
CHECK_DEADLOCK FALSE
