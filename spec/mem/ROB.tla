------------------------------- MODULE ROB -------------------------------
(* C21 — a reorder buffer as the statement describes it.  Requests are numbered
   1..NReq in the order the buffer ACCEPTS them; request k is a read or a write
   (kinds[k]) from requester who[k].  A lower unit completes accepted requests in
   ANY order, at any time (a "quiet" step stands for a long pause of the lower
   unit; completions without a quiet step between them come back to back), and
   tags each result with its completion position.  The buffer holds at most Cap
   accepted-and-unanswered requests.  It answers only its OLDEST unanswered
   request, and only once the lower unit has completed that one; the answer
   carries the lower unit's result for that very request, goes to its requester
   and names its number (the original ID).  A reset of the buffer (optional, at most
   once) discards the accepted requests that are still unanswered: they are never
   answered, and a result the lower unit delivers for one of them later is ignored.

   `script` records what the lower unit did (which request it completed after how
   many had arrived, and the pauses): that is the part of a behaviour the driver
   can impose on the real reorder buffer.  `answers` is what must then be observed
   at the top port.  Complete behaviours are printed as BEHAVIOUR lines.          *)
EXTENDS Naturals, Sequences, FiniteSets, TLC, Json

CONSTANTS NReq,      \* requests per behaviour
          Caps,      \* buffer sizes
          Kinds,     \* {"read", "write"}
          WhoPats,   \* subset of {"same", "alt", "pair"}: how requests are assigned to the requesters A and B
          Quiets,    \* BOOLEAN subset: {FALSE} = no pauses, {TRUE, FALSE} = optional pause between completions
          Resets     \* BOOLEAN: TRUE = the buffer may be reset once (control port) while requests are outstanding

VARIABLES cap, kinds, who,
          nAcc,      \* requests accepted so far (1..nAcc)
          pos,       \* pos[k] = completion position of request k at the lower unit, 0 = not completed
          nComp,     \* completions so far
          base,      \* requests settled so far: answered, or dropped by a reset (the oldest open request is base+1)
          dropped,   \* requests a reset discarded before they were answered: they never get an answer
          resets,    \* resets so far
          answers,   \* sequence of answers at the top port
          script     \* sequence of lower-unit steps
vars == <<cap, kinds, who, nAcc, pos, nComp, base, dropped, resets, answers, script>>

Req == 1..NReq
WhoOf(p) == [k \in Req |-> CASE p = "same" -> "A"
                            [] p = "alt"  -> IF k % 2 = 1 THEN "A" ELSE "B"
                            [] OTHER      -> IF (k - 1) % 4 < 2 THEN "A" ELSE "B"]
Whos == {WhoOf(p) : p \in WhoPats}

Init == /\ cap \in Caps
        /\ kinds \in [Req -> Kinds]
        /\ who \in Whos
        /\ nAcc = 0 /\ nComp = 0 /\ base = 0 /\ dropped = {} /\ resets = 0
        /\ pos = [k \in Req |-> 0]
        /\ answers = <<>> /\ script = <<>>

(* the buffer accepts the next request when it has room *)
Accept == /\ nAcc < NReq
          /\ nAcc - base < cap
          /\ nAcc' = nAcc + 1
          /\ UNCHANGED <<cap, kinds, who, pos, nComp, base, dropped, resets, answers, script>>

(* the lower unit completes any accepted, not yet completed request — also one that a reset has
   dropped in the meantime (its late result must then be ignored) *)
Complete(k) == /\ k <= nAcc /\ pos[k] = 0
               /\ pos' = [pos EXCEPT ![k] = nComp + 1]
               /\ nComp' = nComp + 1
               /\ script' = Append(script, [op |-> "complete", req |-> k, arrived |-> nAcc])
               /\ UNCHANGED <<cap, kinds, who, nAcc, base, dropped, resets, answers>>

(* the lower unit pauses (only between two completions) *)
Quiet == /\ TRUE \in Quiets
         /\ 0 < nComp /\ nComp < NReq
         /\ script[Len(script)].op # "quiet"
         /\ script' = Append(script, [op |-> "quiet", req |-> 0, arrived |-> nAcc])
         /\ UNCHANGED <<cap, kinds, who, nAcc, pos, nComp, base, dropped, resets, answers>>

(* the answer to request k: the lower unit's result for k, to k's requester, naming k *)
Answer(k) == [req |-> k, kind |-> kinds[k], to |-> who[k], data |-> <<k, pos[k]>>]

(* the buffer answers its oldest unanswered request once that one is completed *)
Release == /\ base < nAcc
           /\ pos[base + 1] # 0
           /\ answers' = Append(answers, Answer(base + 1))
           /\ base' = base + 1
           /\ UNCHANGED <<cap, kinds, who, nAcc, pos, nComp, dropped, resets, script>>

(* a reset (control port) discards every accepted request that has not been answered; requests
   accepted afterwards are served as before.  It is taken when nothing is ready to be answered
   (the driver lets the buffer settle first) and while something is open and more is to come. *)
Reset == /\ Resets /\ resets = 0
         /\ base < nAcc /\ pos[base + 1] = 0 /\ nAcc < NReq
         /\ dropped' = dropped \cup ((base + 1)..nAcc)
         /\ base' = nAcc
         /\ resets' = resets + 1
         /\ script' = Append(script, [op |-> "reset", req |-> 0, arrived |-> nAcc])
         /\ UNCHANGED <<cap, kinds, who, nAcc, pos, nComp, answers>>

Next == Accept \/ Release \/ Quiet \/ Reset \/ \E k \in Req : Complete(k)
Spec == Init /\ [][Next]_vars

(* ---- what TLC checks on the specification itself ---- *)
TypeOK == /\ base <= nAcc /\ nComp <= nAcc /\ nAcc <= NReq
          /\ nAcc - base <= cap
          /\ dropped \subseteq 1..base
          /\ Len(answers) = base - Cardinality(dropped)
(* answers come in exactly the acceptance order, one for every settled request that was not dropped ... *)
InOrder == /\ \A i, j \in 1..Len(answers) : i < j => answers[i].req < answers[j].req
           /\ {answers[i].req : i \in 1..Len(answers)} = (1..base) \ dropped
(* ... each with the lower unit's result for that same request, its requester and kind *)
OwnResult == \A i \in 1..Len(answers) :
               LET k == answers[i].req IN
               /\ answers[i].data = <<k, pos[k]>> /\ pos[k] # 0
               /\ answers[i].to = who[k] /\ answers[i].kind = kinds[k]
(* the completion positions are a permutation of the completed requests: any order is possible *)
PosInjective == \A j, k \in Req : (j # k /\ pos[j] # 0) => pos[j] # pos[k]
(* one answer per step, never retracted, never ahead of the lower unit *)
AnswerStep == [][\/ answers' = answers
                 \/ /\ Len(answers') = Len(answers) + 1
                    /\ SubSeq(answers', 1, Len(answers)) = answers
                    /\ pos[answers'[Len(answers')].req] # 0]_vars
(* a behaviour is complete when every request is settled and the lower unit has completed every
   request (a dropped one's late result included) *)
Complete_ == base = NReq /\ nComp = NReq

Emit == Complete_ =>
          PrintT(<<"BEHAVIOUR", ToJson([cap |-> cap, kinds |-> kinds, who |-> who, dropped |-> dropped,
                                        script |-> script, answers |-> answers])>>)
=======================================================================
