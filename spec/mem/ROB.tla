------------------------------- MODULE ROB -------------------------------
(* C21 — a reorder buffer as the statement describes it.  Requests are numbered
   1..NReq in the order the buffer ACCEPTS them; request k is a read or a write
   (kinds[k]) from requester who[k].  A lower unit completes accepted requests in
   ANY order, at any time (a "quiet" step stands for a long pause of the lower
   unit; completions without a quiet step between them come back to back), and
   tags each result with its completion position.  The buffer holds at most Cap
   accepted-and-unanswered requests.  It answers only its OLDEST unanswered
   request, and only once the lower unit has completed that one; the answer
   carries the lower unit's result for that very request, goes to its requester
   and names its number (the original ID).

   `script` records what the lower unit did (which request it completed after how
   many had arrived, and the pauses): that is the part of a behaviour the driver
   can impose on the real reorder buffer.  `answers` is what must then be observed
   at the top port.  Complete behaviours are printed as BEHAVIOUR lines.          *)
EXTENDS Naturals, Sequences, FiniteSets, TLC, Json

CONSTANTS NReq,      \* requests per behaviour
          Caps,      \* buffer sizes
          Kinds,     \* {"read", "write"}
          WhoPats,   \* subset of {"same", "alt", "pair"}: how requests are assigned to the requesters A and B
          Quiets     \* BOOLEAN subset: {FALSE} = no pauses, {TRUE, FALSE} = optional pause between completions

VARIABLES cap, kinds, who,
          nAcc,      \* requests accepted so far (1..nAcc)
          pos,       \* pos[k] = completion position of request k at the lower unit, 0 = not completed
          nComp,     \* completions so far
          nAns,      \* answers sent so far
          answers,   \* sequence of answers at the top port
          script     \* sequence of lower-unit steps
vars == <<cap, kinds, who, nAcc, pos, nComp, nAns, answers, script>>

Req == 1..NReq
WhoOf(p) == [k \in Req |-> CASE p = "same" -> "A"
                            [] p = "alt"  -> IF k % 2 = 1 THEN "A" ELSE "B"
                            [] OTHER      -> IF (k - 1) % 4 < 2 THEN "A" ELSE "B"]
Whos == {WhoOf(p) : p \in WhoPats}

Init == /\ cap \in Caps
        /\ kinds \in [Req -> Kinds]
        /\ who \in Whos
        /\ nAcc = 0 /\ nComp = 0 /\ nAns = 0
        /\ pos = [k \in Req |-> 0]
        /\ answers = <<>> /\ script = <<>>

(* the buffer accepts the next request when it has room *)
Accept == /\ nAcc < NReq
          /\ nAcc - nAns < cap
          /\ nAcc' = nAcc + 1
          /\ UNCHANGED <<cap, kinds, who, pos, nComp, nAns, answers, script>>

(* the lower unit completes any accepted, not yet completed request *)
Complete(k) == /\ k <= nAcc /\ pos[k] = 0
               /\ pos' = [pos EXCEPT ![k] = nComp + 1]
               /\ nComp' = nComp + 1
               /\ script' = Append(script, [op |-> "complete", req |-> k, arrived |-> nAcc])
               /\ UNCHANGED <<cap, kinds, who, nAcc, nAns, answers>>

(* the lower unit pauses (only between two completions) *)
Quiet == /\ TRUE \in Quiets
         /\ 0 < nComp /\ nComp < NReq
         /\ script[Len(script)].op # "quiet"
         /\ script' = Append(script, [op |-> "quiet", req |-> 0, arrived |-> nAcc])
         /\ UNCHANGED <<cap, kinds, who, nAcc, pos, nComp, nAns, answers>>

(* the answer to request k: the lower unit's result for k, to k's requester, naming k *)
Answer(k) == [req |-> k, kind |-> kinds[k], to |-> who[k], data |-> <<k, pos[k]>>]

(* the buffer answers its oldest unanswered request once that one is completed *)
Release == /\ nAns < nAcc
           /\ pos[nAns + 1] # 0
           /\ answers' = Append(answers, Answer(nAns + 1))
           /\ nAns' = nAns + 1
           /\ UNCHANGED <<cap, kinds, who, nAcc, pos, nComp, script>>

Next == Accept \/ Release \/ Quiet \/ \E k \in Req : Complete(k)
Spec == Init /\ [][Next]_vars

(* ---- what TLC checks on the specification itself ---- *)
TypeOK == /\ nAns <= nComp /\ nComp <= nAcc /\ nAcc <= NReq
          /\ nAcc - nAns <= cap
          /\ Len(answers) = nAns
(* answers come in exactly the acceptance order ... *)
InOrder == \A i \in 1..Len(answers) : answers[i].req = i
(* ... each with the lower unit's result for that same request, its requester and kind *)
OwnResult == \A i \in 1..Len(answers) :
               /\ answers[i].data = <<i, pos[i]>> /\ pos[i] # 0
               /\ answers[i].to = who[i] /\ answers[i].kind = kinds[i]
(* the completion positions are a permutation of the completed requests: any order is possible *)
PosInjective == \A j, k \in Req : (j # k /\ pos[j] # 0) => pos[j] # pos[k]
(* one answer per step, never retracted, never ahead of the lower unit *)
AnswerStep == [][\/ answers' = answers
                 \/ /\ Len(answers') = Len(answers) + 1
                    /\ SubSeq(answers', 1, Len(answers)) = answers
                    /\ pos[Len(answers')] # 0]_vars
(* reordering is real: some behaviour completes a younger request first and is still answered in order *)
Complete_ == nAns = NReq

Emit == Complete_ =>
          PrintT(<<"BEHAVIOUR", ToJson([cap |-> cap, kinds |-> kinds, who |-> who,
                                        script |-> script, answers |-> answers])>>)
=======================================================================
