SPECIFICATION TSpec
CONSTANTS
  Addr <- TraceAddr
  Byte <- TraceByte
  Ids <- TraceIds
  MaxLen = 128
  MaxOut = 64
  Requester = "Agent.Mem"
  Ports = {"Agent.Mem"}
  CheckOverlap = TRUE
  Faulty = FALSE
INVARIANT TraceShape
CONSTRAINT Mark
POSTCONDITION TraceAccepted
CHECK_DEADLOCK FALSE
