SPECIFICATION Spec
CONSTANTS
  N = 48
  Grans = {4, 8, 12, 16}
  Bufs = {6, 14, 40}
  Addrs = {0, 4, 12, 16}
  Sizes = {0, 3, 8, 12, 16, 24, 32}
  MaxReqs = 2
  Grans2 = {4, 16}
  Bufs2 = {6, 16}
  Addrs2 = {0, 16}
  Sizes2 = {16}
INVARIANT TypeOK
INVARIANT FifoOneAck
INVARIANT ConfigIndependent
INVARIANT Untouched
INVARIANT Emit
PROPERTY ExactCopy
CHECK_DEADLOCK FALSE
