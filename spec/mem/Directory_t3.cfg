SPECIFICATION Spec
CONSTANTS
  NumSets = 1
  NumWays = 3
  PIDs = {1}
  NumLines = 3
  SharedLines = 3
  MaxRC = 2
VIEW View
ACTION_CONSTRAINT Emit
INVARIANT InvWellFormed
INVARIANT InvalidIsIdle
PROPERTY NeverReplaceBusy
PROPERTY VictimAnswer
CHECK_DEADLOCK FALSE
