SPECIFICATION TSpec
INVARIANT Disjoint
CONSTRAINT Mark
POSTCONDITION TraceAccepted
CHECK_DEADLOCK FALSE
