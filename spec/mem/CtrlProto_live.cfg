SPECIFICATION LiveSpec
CONSTANTS
  MaxCmds = 2
  MaxReqs = 2
  TrafficChoices = {TRUE}
  KindChoices = {"universal", "transcache", "cache"}
  Emit = FALSE
INVARIANTS TypeOK OneRspPerReq
PROPERTIES AllAnswered QueuedServed
CHECK_DEADLOCK FALSE
