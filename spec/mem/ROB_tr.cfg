SPECIFICATION Spec
CONSTANTS
  NReq = 4
  Caps = {2, 3, 4}
  Kinds = {"read", "write"}
  WhoPats = {"same", "alt"}
  Resets = TRUE
  Quiets = {FALSE}
INVARIANT TypeOK
INVARIANT InOrder
INVARIANT OwnResult
INVARIANT PosInjective
INVARIANT Emit
PROPERTY AnswerStep
CHECK_DEADLOCK FALSE
