SPECIFICATION Spec
CONSTANTS
  MaxT = 7
  T <- ToyT
  Fam = "ddr"
  BankKeys <- SameGroup
  Rows = {0, 1}
  CmdKinds <- WitKinds
  Free = FALSE
INVARIANT NoWitness
CHECK_DEADLOCK FALSE
VIEW MonView
