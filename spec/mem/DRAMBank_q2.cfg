SPECIFICATION Spec
CONSTANTS
  MaxT = 5
  T <- ToyT
  Fam = "ddr"
  BankKeys <- OtherGroup
  Rows = {0, 1}
  CmdKinds <- OpenKinds
  Free = TRUE
INVARIANT Equivalent
CHECK_DEADLOCK FALSE
VIEW MonView
