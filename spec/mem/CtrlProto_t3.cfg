SPECIFICATION Spec
CONSTANTS
  MaxCmds = 3
  MaxReqs = 2
  TrafficChoices = {TRUE, FALSE}
  KindChoices = {"universal", "transcache", "cache"}
  Emit = TRUE
INVARIANTS TypeOK OneRspPerReq RspInReqOrder Refusals Settles AsyncHead EmitB
PROPERTIES PausedSilent DrainPost ResetPost NoLateRsp OneAtATime
CHECK_DEADLOCK FALSE
