SPECIFICATION Spec
CONSTANTS
  MaxT = 4
  T <- ToyT
  Fam = "gddr"
  BankKeys <- SameGroup
  Rows = {0, 1}
  CmdKinds <- AllKinds
  Free = TRUE
INVARIANT Equivalent
CHECK_DEADLOCK FALSE
