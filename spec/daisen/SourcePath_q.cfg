SPECIFICATION Spec
CONSTANTS
  MaxLen = 3
INVARIANT TwoDefinitionsAgree
INVARIANT KeyIsClean
INVARIANT Idempotent
INVARIANT UnmatchedDotDotEscapes
INVARIANT RootJoin
INVARIANT ServedOnlyInside
CHECK_DEADLOCK FALSE
