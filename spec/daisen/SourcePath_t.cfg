SPECIFICATION Spec
CONSTANTS
  MaxLen = 4
INVARIANT TwoDefinitionsAgree
INVARIANT KeyIsClean
INVARIANT Idempotent
INVARIANT UnmatchedDotDotEscapes
INVARIANT RootJoin
INVARIANT ServedOnlyInside
CHECK_DEADLOCK FALSE
