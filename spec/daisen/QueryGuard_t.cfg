SPECIFICATION Spec
CONSTANTS
  Conns = {1, 2}
  MaxCalls = 3
  MaxWrites = 3
  ResetCtx = "detached"
INVARIANT TypeOK
INVARIANT DBUnchanged
INVARIANT NoNewFile
INVARIANT CapsRespected
INVARIANT PoolUsable
INVARIANT StillReadOnly
INVARIANT LiveRead
PROPERTY ToolNeverWrites
CHECK_DEADLOCK FALSE
