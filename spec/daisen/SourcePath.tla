---------------------------- MODULE SourcePath ----------------------------
(* C39 — the source tools only serve the recorded source.

   The statement: the code listing / reading / search tools return only content
   recorded in the trace's source archive, for any requested path, and refuse
   paths that escape it; hostile archives (path traversal, oversized entries)
   are ignored or rejected.

   Paths are sequences of segments over a small alphabet, optionally with an
   absolute prefix; Text(p) is the string "/"-joined.  Where a path leads is
   defined here by walking the segments with a stack (Walk) — and a second,
   independent definition by counting (Escapes2) is checked against it by TLC
   on every path of the grammar, together with the normalisation lemmas the
   binding relies on.  The module then enumerates
     * request paths, each with the verdict the statement demands, and
     * archive entry names (x size class), each with the keys under which the
       entry may be served,
   as CASE lines; the binding turns them into real requests and real archives. *)
EXTENDS Naturals, Sequences, FiniteSets, TLC, Json
CONSTANTS MaxLen

(* "r" and "s" are the recorded roots, "a" and "b" names inside them; "C:" and "..." and "a\b" are ordinary
   (if odd-looking) names for a slash-separated tree; "", "." and ".." are the special segments *)
Names == {"r", "s", "a", "b", "C:", "...", "a\\b"}
Special == {"", ".", ".."}
Seg == (Names \ {"s"}) \cup Special                 \* "s" only appears in hand-picked entries
SmallSeg == {"r", "a", "b", "", ".", ".."}

SeqsUpTo(S, n) == UNION {[1..k -> S] : k \in 0..n}
(* the full alphabet up to MaxLen - 1 segments, the small one up to MaxLen *)
PathSegs == SeqsUpTo(Seg, MaxLen - 1) \cup SeqsUpTo(SmallSeg, MaxLen)
(* a relative path whose first segment is empty reads "/..." — that text is the absolute path, which is in the set as such *)
Paths == {p \in [abs : BOOLEAN, segs : PathSegs] : p.abs \/ p.segs = <<>> \/ p.segs[1] # ""}

(* ---- where a path leads: definition 1, a walk with a stack --------------------------- *)
RECURSIVE WalkFrom(_, _, _, _)
WalkFrom(segs, i, stack, up) ==
    IF i > Len(segs) THEN [up |-> up, stack |-> stack]
    ELSE LET s == segs[i] IN
         IF s \in {"", "."} THEN WalkFrom(segs, i + 1, stack, up)
         ELSE IF s = ".." THEN (IF stack = <<>> THEN WalkFrom(segs, i + 1, stack, up + 1)
                                ELSE WalkFrom(segs, i + 1, SubSeq(stack, 1, Len(stack) - 1), up))
         ELSE WalkFrom(segs, i + 1, Append(stack, s), up)
Walk(segs) == WalkFrom(segs, 1, <<>>, 0)

Escapes(p) == p.abs \/ Walk(p.segs).up > 0          \* leaves the tree it is relative to
Key(p) == Walk(p.segs).stack                        \* the node it names when it does not escape (<<>> = the root itself)

(* ---- definition 2, by counting: some prefix holds more ".." than names ---------------- *)
RECURSIVE Count(_, _, _)
Count(segs, n, S) == IF n = 0 THEN 0 ELSE Count(segs, n - 1, S) + (IF segs[n] \in S THEN 1 ELSE 0)
Escapes2(p) == p.abs \/ \E n \in 1..Len(p.segs) : Count(p.segs, n, {".."}) > Count(p.segs, n, Names)

(* ---- the recorded tree ----------------------------------------------------------------
   two roots; files are named by their key (sequence of names from the file-system root) *)
Recorded == { <<"r", "a">>, <<"r", "b", "a">>, <<"r", "b", "b">>, <<"r", "C:">>, <<"s", "a">> }
Dirs == { <<>>, <<"r">>, <<"r", "b">>, <<"s">> }

(* what the statement demands of a request *)
Verdict(p) == IF Escapes(p) THEN "refuse"
              ELSE IF Key(p) \in Recorded THEN "file"
              ELSE IF Key(p) \in Dirs THEN "dir"
              ELSE "absent"

(* ---- archive entries --------------------------------------------------------------------
   an entry of root R's archive with name e (a path) and a size class.  Where may it be served?
     good          relative, no special segment, at least one name: exactly at R \o e
     normalisable  relative, stays below R, some special segments: at R \o Key(e), or not at all
     absolute      leading "/": confined below R at R \o Key(e), or not at all
     names_root    names R itself: at R, or not at all
     escaping      climbs above R: not at all
   and an oversized entry is never served, whatever its name.                                *)
EntryClass(e) == IF Walk(e.segs).up > 0 THEN "escaping"
                 ELSE IF Key(e) = <<>> THEN "names_root"
                 ELSE IF e.abs THEN "absolute"
                 ELSE IF \E i \in 1..Len(e.segs) : e.segs[i] \in Special THEN "normalisable"
                 ELSE "good"
MustServe(e, size) == EntryClass(e) = "good" /\ size # "over_cap"
MayServe(e, size) == EntryClass(e) \in {"good", "normalisable", "absolute", "names_root"} /\ size # "over_cap"

Sizes == {"small", "at_cap", "over_cap"}
SizeProbe == { [abs |-> FALSE, segs |-> <<"a">>], [abs |-> FALSE, segs |-> <<"..", "s", "a">>], [abs |-> FALSE, segs |-> <<"b", "a">>] }
Entries == {[name |-> e, size |-> "small"] : e \in Paths} \cup {[name |-> e, size |-> z] : e \in SizeProbe, z \in Sizes}

(* ---- enumeration ------------------------------------------------------------------------ *)
VARIABLES item, done
vars == <<item, done>>
Items == {[kind |-> "req", p |-> p] : p \in Paths} \cup {[kind |-> "entry", e |-> x] : x \in Entries}

ReqCase(p) == [kind |-> "req", abs |-> p.abs, segs |-> p.segs, verdict |-> Verdict(p), key |-> Key(p)]
EntryCase(x) == [kind |-> "entry", abs |-> x.name.abs, segs |-> x.name.segs, size |-> x.size, class |-> EntryClass(x.name),
                 key |-> Key(x.name), must |-> MustServe(x.name, x.size), may |-> MayServe(x.name, x.size)]

Init == item \in Items /\ done = FALSE
Emit == /\ ~done /\ done' = TRUE /\ UNCHANGED item
        /\ PrintT(<<"CASE", ToJson(IF item.kind = "req" THEN ReqCase(item.p) ELSE EntryCase(item.e))>>)
Next == Emit
Spec == Init /\ [][Next]_vars

(* ---- lemmas, checked on every path of the grammar ---------------------------------------- *)
P == IF item.kind = "req" THEN item.p ELSE item.e.name
TwoDefinitionsAgree == Escapes(P) <=> Escapes2(P)
KeyIsClean == \A i \in 1..Len(Key(P)) : Key(P)[i] \in Names              \* no "", ".", ".." survives
Idempotent == Walk(Key(P)) = [up |-> 0, stack |-> Key(P)]
UnmatchedDotDotEscapes ==                                                  \* a ".." with nothing before it to cancel never resolves inside
    (\E i \in 1..Len(P.segs) : P.segs[i] = ".." /\ \A j \in 1..(i - 1) : P.segs[j] \in Special) => Escapes(P)
(* joining below a clean root: the entry's key is the root's key followed by the entry's own key, as long as the entry does not climb *)
RootJoin == \A R \in {<<"r">>, <<"s">>, <<"r", "b">>} :
               Walk(P.segs).up = 0 => Walk(R \o P.segs) = [up |-> 0, stack |-> R \o Key(P)]
ServedOnlyInside == Verdict(P) \in {"file", "dir"} => ~P.abs /\ Walk(P.segs).up = 0
=============================================================================
