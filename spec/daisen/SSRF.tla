------------------------------- MODULE SSRF -------------------------------
(* C38 — outbound LLM connections never reach internal addresses.

   The statement: unless private endpoints are explicitly allowed, the server
   refuses to contact an LLM endpoint — directly, through redirects, or via
   re-resolution at dial time — whenever the destination resolves to a
   loopback, private, link-local or unspecified address in any encoding,
   including IPv4-mapped IPv6.

   The model: a destination is presented to the server as a URL whose host is
   either an address literal (one of several spellings) or a name; a name is
   resolved every time somebody asks, and the answers may differ from one
   lookup to the next (rebinding).  A request is a chain of hops (the
   configured endpoint, then whatever the previous hop redirects to).  For
   every hop the server vets the URL (one lookup), then — on a direct
   connection — dials (another lookup) and connects to ONE of the addresses
   of that same lookup; through a configured proxy it hands the URL to the
   proxy instead.  NeverConnectInternal is checked on this model; Naive = TRUE
   is the negative control (vet the URL only, let the dialer resolve again):
   TLC must then find the rebinding counterexample (SSRF_neg.cfg).

   Address classes are defined here, independently of the implementation, on
   concrete addresses (Addrs) whose spellings (Spellings) the binding turns
   into URLs; "@PUB@", "@ULA@", "@LL6@" stand for addresses of the machine the
   check runs on (a public-class one, a unique-local one, a link-local one).  *)
EXTENDS Naturals, Sequences, FiniteSets, TLC, Json
CONSTANTS MaxHops, Naive, Profile

Internal == {"loopback", "private", "linklocal", "unspecified"}

(* ip: canonical text; cls: class demanded by the statement ("other" = the statement is silent) *)
Addrs == {
  [ip |-> "127.0.0.1", cls |-> "loopback"],   [ip |-> "127.8.9.10", cls |-> "loopback"],
  [ip |-> "127.255.255.254", cls |-> "loopback"], [ip |-> "::1", cls |-> "loopback"],
  [ip |-> "10.1.2.3", cls |-> "private"],     [ip |-> "10.255.255.255", cls |-> "private"],
  [ip |-> "172.16.0.1", cls |-> "private"],   [ip |-> "172.31.255.254", cls |-> "private"],
  [ip |-> "192.168.1.1", cls |-> "private"],  [ip |-> "fc00::1", cls |-> "private"],
  [ip |-> "@ULA@", cls |-> "private"],        [ip |-> "fdff:ffff::1", cls |-> "private"],
  [ip |-> "169.254.169.254", cls |-> "linklocal"], [ip |-> "169.254.0.1", cls |-> "linklocal"],
  [ip |-> "fe80::1", cls |-> "linklocal"],    [ip |-> "@LL6@", cls |-> "linklocal"],
  [ip |-> "febf::1", cls |-> "linklocal"],
  [ip |-> "0.0.0.0", cls |-> "unspecified"],  [ip |-> "::", cls |-> "unspecified"],
  [ip |-> "@PUB@", cls |-> "public"],         [ip |-> "8.8.8.8", cls |-> "public"],
  [ip |-> "2001:4860:4860::8888", cls |-> "public"],
  (* just outside the internal ranges *)
  [ip |-> "126.255.255.255", cls |-> "public"], [ip |-> "128.0.0.1", cls |-> "public"],
  [ip |-> "9.255.255.255", cls |-> "public"],   [ip |-> "11.0.0.1", cls |-> "public"],
  [ip |-> "172.15.255.255", cls |-> "public"],  [ip |-> "172.32.0.1", cls |-> "public"],
  [ip |-> "192.167.255.255", cls |-> "public"], [ip |-> "192.169.0.1", cls |-> "public"],
  [ip |-> "169.253.255.255", cls |-> "public"], [ip |-> "169.255.0.1", cls |-> "public"],
  [ip |-> "fe7f::1", cls |-> "public"],
  (* the statement does not say: only reaching a service of this machine is judged *)
  [ip |-> "100.64.0.1", cls |-> "other"],     [ip |-> "0.1.2.3", cls |-> "other"],
  [ip |-> "255.255.255.255", cls |-> "other"], [ip |-> "224.0.0.1", cls |-> "other"],
  [ip |-> "::127.0.0.1", cls |-> "other"],    [ip |-> "64:ff9b::7f00:1", cls |-> "other"],
  [ip |-> "2002:7f00:1::", cls |-> "other"],  [ip |-> "ff02::1", cls |-> "other"],
  [ip |-> "fec0::1", cls |-> "other"] }

Cls(ip) == (CHOOSE a \in Addrs : a.ip = ip).cls
IsV4(ip) == ip \in {"127.0.0.1", "127.8.9.10", "127.255.255.254", "10.1.2.3", "10.255.255.255", "172.16.0.1", "172.31.255.254",
                    "192.168.1.1", "169.254.169.254", "169.254.0.1", "0.0.0.0", "@PUB@", "8.8.8.8", "126.255.255.255", "128.0.0.1",
                    "9.255.255.255", "11.0.0.1", "172.15.255.255", "172.32.0.1", "192.167.255.255", "192.169.0.1", "169.253.255.255",
                    "169.255.0.1", "100.64.0.1", "0.1.2.3", "255.255.255.255", "224.0.0.1"}

(* spellings of an address as the host part of a URL. kind says what the text is for the URL/IP
   grammars: "ip" a textual IP address every parser agrees on; "odd" a form only some parsers read as
   an address (the server may treat it as an address of that value or as a name that does not resolve,
   but must never end up connected to an internal address through it). *)
V4Spell(ip) == {[t |-> ip, kind |-> "ip"], [t |-> "[::ffff:" \o ip \o "]", kind |-> "ip"], [t |-> ip \o ".", kind |-> "odd"]}
V6Spell(ip) == {[t |-> "[" \o ip \o "]", kind |-> "ip"]}
Extra(ip) == CASE ip = "127.0.0.1" -> {[t |-> "[::ffff:7f00:1]", kind |-> "ip"], [t |-> "[0:0:0:0:0:ffff:7f00:1]", kind |-> "ip"],
                                       [t |-> "[0000:0000:0000:0000:0000:ffff:127.0.0.1]", kind |-> "ip"],
                                       [t |-> "2130706433", kind |-> "odd"], [t |-> "0x7f000001", kind |-> "odd"],
                                       [t |-> "0177.0.0.1", kind |-> "odd"], [t |-> "017700000001", kind |-> "odd"],
                                       [t |-> "127.1", kind |-> "odd"], [t |-> "127.0.1", kind |-> "odd"],
                                       [t |-> "0x7f.0.0.1", kind |-> "odd"], [t |-> "127.000.000.001", kind |-> "odd"],
                                       [t |-> "localhost", kind |-> "hosts"], [t |-> "LOCALHOST", kind |-> "hosts"],
                                       [t |-> "localhost.", kind |-> "odd"], [t |-> "[::FFFF:127.0.0.1]", kind |-> "ip"],
                                       (* compatibility characters that IDNA mapping turns into "127.0.0.1": circled digits, ideographic full stops
                                          (written as placeholders because TLC prints ASCII only) *)
                                       [t |-> "@CIRCLED127@.0.0.1", kind |-> "odd"], [t |-> "127@IDEODOT@0@IDEODOT@0@IDEODOT@1", kind |-> "odd"]}
           [] ip = "::1" -> {[t |-> "[0:0:0:0:0:0:0:1]", kind |-> "ip"], [t |-> "[0000:0000:0000:0000:0000:0000:0000:0001]", kind |-> "ip"],
                             [t |-> "[::0001]", kind |-> "ip"], [t |-> "[0::1]", kind |-> "ip"]}
           [] ip = "0.0.0.0" -> {[t |-> "0", kind |-> "odd"], [t |-> "0x0", kind |-> "odd"], [t |-> "0.0", kind |-> "odd"],
                                 [t |-> "[::ffff:0:0]", kind |-> "ip"]}
           [] ip = "::" -> {[t |-> "[0:0:0:0:0:0:0:0]", kind |-> "ip"], [t |-> "[::0]", kind |-> "ip"]}
           [] ip = "169.254.169.254" -> {[t |-> "[::ffff:a9fe:a9fe]", kind |-> "ip"], [t |-> "2852039166", kind |-> "odd"],
                                         [t |-> "0xa9fea9fe", kind |-> "odd"], [t |-> "169.254.43518", kind |-> "odd"]}
           [] ip = "10.1.2.3" -> {[t |-> "[::ffff:a01:203]", kind |-> "ip"], [t |-> "167838211", kind |-> "odd"], [t |-> "10.66051", kind |-> "odd"]}
           [] ip = "192.168.1.1" -> {[t |-> "[::ffff:c0a8:101]", kind |-> "ip"], [t |-> "3232235777", kind |-> "odd"]}
           [] ip = "172.16.0.1" -> {[t |-> "[::ffff:ac10:1]", kind |-> "ip"]}
           [] ip = "fe80::1" -> {[t |-> "[fe80::1%25eth0]", kind |-> "ip"], [t |-> "[fe80::1%25lo]", kind |-> "ip"], [t |-> "[FE80::1]", kind |-> "ip"]}
           [] OTHER -> {}
Spellings(ip) == (IF ip = "@LL6@" THEN {[t |-> "[@LL6@%25@LLZ@]", kind |-> "ip"]}
                  ELSE IF IsV4(ip) THEN V4Spell(ip) ELSE V6Spell(ip)) \cup Extra(ip)

(* shapes of the URL around the host text h (port P): the authority's host is h in all of them *)
Shapes == {"plain", "userinfo", "userinfo_colon", "userinfo_at_public", "fragment_at", "query_at", "upper_scheme", "path_at", "no_path"}

(* ---- presentations ------------------------------------------------------------------ *)
Pub == "@PUB@"
Targets == {a.ip : a \in Addrs}
Probe(profile) == CASE profile = "quick" -> {"127.0.0.1", "::1", "10.1.2.3", "@ULA@", "169.254.169.254", "@LL6@", "0.0.0.0", "::", "@PUB@", "8.8.8.8", "::127.0.0.1"}
                    [] OTHER -> Targets
(* answer sequences of a name whose interesting address is x: one entry per lookup, last one repeats *)
AnswerSeqs(x) == { <<{x}>>, <<{Pub, x}>>, <<{Pub}, {x}>>, <<{Pub}, {Pub}, {x}>>, <<{Pub}, {Pub}, {Pub}, {x}>>, <<{x}, {Pub}>> }

Literals == UNION {{[kind |-> "literal", ip |-> ip, text |-> s.t, tk |-> s.kind, shape |-> sh] : s \in Spellings(ip), sh \in Shapes} : ip \in Targets}
Names(profile) == UNION {{[kind |-> "name", ip |-> x, answers |-> as] : as \in AnswerSeqs(x)} : x \in Probe(profile)}
(* literals are only varied in shape for a few addresses; every spelling is tried in the plain shape *)
ShapeProbe == {"127.0.0.1", "::1", "169.254.169.254", "@PUB@"}
Presentations == {p \in Literals : p.shape = "plain" \/ (p.ip \in ShapeProbe /\ p.tk = "ip" /\ p.text \in {p.ip, "[" \o p.ip \o "]"})} \cup Names(Profile)

(* what one lookup of presentation p, the k-th so far (k >= 1), yields: a set of addresses (empty = does not resolve) *)
Resolve(p, k) == IF p.kind = "literal" THEN {p.ip}
                 ELSE p.answers[IF k <= Len(p.answers) THEN k ELSE Len(p.answers)]

VARIABLES allow, mode, hops, hop, pc, looks, vetted, contacted, handed
vars == <<allow, mode, hops, hop, pc, looks, vetted, contacted, handed>>
(* hops: the chain of presentations; hop: index of the current one; looks[i]: lookups of hop i's name so far;
   vetted: addresses of the lookup the dialer checked; contacted: addresses connected to; handed: targets
   handed to the proxy together with what they resolved to when last vetted *)

FirstHops == Presentations
(* redirects go to a literal in the plain shape or to a name *)
NextHops == {p \in Presentations : p.kind = "name" \/ (p.shape = "plain" /\ p.tk = "ip")}
PublicFirst == {p \in Presentations : p.kind = "literal" /\ p.ip = Pub /\ p.shape = "plain" /\ p.text = Pub}
                  \cup {p \in Names(Profile) : p.ip = Pub /\ p.answers = <<{Pub}>>}

Init == /\ allow \in BOOLEAN
        /\ mode \in {"direct", "proxy"}
        /\ \/ hops \in {<<p>> : p \in FirstHops}
           \/ MaxHops >= 2 /\ hops \in {<<p, q>> : p \in PublicFirst, q \in NextHops}
        /\ hop = 1 /\ pc = "vet" /\ looks = [i \in 1..2 |-> 0]
        /\ vetted = {} /\ contacted = {} /\ handed = {}

Cur == hops[hop]
Bad(S) == \E x \in S : Cls(x) \in Internal
Look == looks' = [looks EXCEPT ![hop] = @ + 1]
Answer == Resolve(Cur, looks[hop] + 1)

(* the up-front check / the redirect check: one lookup *)
Vet == /\ pc = "vet" /\ Look
       /\ IF ~allow /\ (Answer = {} \/ Bad(Answer)) THEN pc' = "refused" ELSE pc' = (IF mode = "proxy" THEN "proxy" ELSE "dial")
       /\ UNCHANGED <<allow, mode, hops, hop, vetted, contacted, handed>>

(* through a proxy the URL is vetted once more and handed over *)
ViaProxy == /\ pc = "proxy" /\ Look
            /\ IF ~allow /\ (Answer = {} \/ Bad(Answer)) THEN pc' = "refused" /\ UNCHANGED handed
               ELSE pc' = "served" /\ handed' = handed \cup {[hop |-> hop, resolved |-> Answer]}
            /\ UNCHANGED <<allow, mode, hops, hop, vetted, contacted>>

(* the dialer: its own lookup, every answer vetted *)
Dial == /\ pc = "dial" /\ Look
        /\ IF Answer = {} \/ (~allow /\ ~Naive /\ Bad(Answer)) THEN pc' = "refused" /\ UNCHANGED vetted
           ELSE pc' = "connect" /\ vetted' = Answer
        /\ UNCHANGED <<allow, mode, hops, hop, contacted, handed>>

(* connect to one vetted address — or, in the naive variant, to whatever the name resolves to now *)
Connect == /\ pc = "connect"
           /\ IF Naive THEN /\ Look
                            /\ \E x \in Answer : contacted' = contacted \cup {x}
                      ELSE /\ UNCHANGED looks
                           /\ \E x \in vetted : contacted' = contacted \cup {x}
           /\ pc' = "served"
           /\ UNCHANGED <<allow, mode, hops, hop, vetted, handed>>

Redirect == /\ pc = "served" /\ hop < Len(hops)
            /\ hop' = hop + 1 /\ pc' = "vet" /\ vetted' = {}
            /\ UNCHANGED <<allow, mode, hops, looks, contacted, handed>>

Case == [allow |-> allow, mode |-> mode, hops |-> hops]
Finish == /\ pc \in {"refused", "served"} /\ (pc = "served" => hop = Len(hops))
          /\ PrintT(<<"CASE", ToJson(Case)>>)
          /\ pc' = "done"
          /\ UNCHANGED <<allow, mode, hops, hop, looks, vetted, contacted, handed>>

Next == Vet \/ ViaProxy \/ Dial \/ Connect \/ Redirect \/ Finish
Spec == Init /\ [][Next]_vars

(* ---- what the statement demands ------------------------------------------------------ *)
NeverConnectInternal == ~allow => ~Bad(contacted)
NeverHandInternal == ~allow => \A h \in handed : ~Bad(h.resolved)
(* sanity of the class table: every address has exactly one class, every spelling names one address *)
TableOK == /\ \A a, b \in Addrs : a.ip = b.ip => a = b
           /\ \A a \in Addrs : a.cls \in Internal \cup {"public", "other"}
           /\ \A x, y \in Targets : x # y => {s.t : s \in Spellings(x)} \cap {s.t : s \in Spellings(y)} = {}
(* the positive direction is not demanded, but the model must not be vacuous: a public endpoint is reachable *)
PublicServed == (pc = "done" /\ Len(hops) = 1 /\ hops[1].kind = "literal" /\ Cls(hops[1].ip) = "public" /\ mode = "direct")
                   => contacted = {hops[1].ip}
=============================================================================
