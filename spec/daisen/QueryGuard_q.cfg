SPECIFICATION Spec
CONSTANTS
  Conns = {1, 2}
  MaxCalls = 2
  MaxWrites = 2
  ResetCtx = "detached"
INVARIANT TypeOK
INVARIANT DBUnchanged
INVARIANT NoNewFile
INVARIANT CapsRespected
INVARIANT PoolUsable
INVARIANT StillReadOnly
INVARIANT LiveRead
PROPERTY ToolNeverWrites
CHECK_DEADLOCK FALSE
