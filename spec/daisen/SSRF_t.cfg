SPECIFICATION Spec
CONSTANTS
  MaxHops = 2
  Naive = FALSE
  Profile = "thorough"
INVARIANT TableOK
INVARIANT NeverConnectInternal
INVARIANT NeverHandInternal
INVARIANT PublicServed
CHECK_DEADLOCK FALSE
