SPECIFICATION Spec
CONSTANTS
  MaxHops = 2
  Naive = FALSE
  Profile = "quick"
INVARIANT TableOK
INVARIANT NeverConnectInternal
INVARIANT NeverHandInternal
INVARIANT PublicServed
CHECK_DEADLOCK FALSE
