---------------------------- MODULE QueryGuard ----------------------------
(* C37 — the assistant's data-query tool in front of the replay server's
   connection pool.

   The statement: whatever SQL text the tool receives, the trace database and
   its contents are unchanged afterwards, no other file is created, the result
   stays within the documented row and byte caps, and the server's own pool is
   left usable.

   The model has the two guard layers the design relies on
     L1  statement classification (only a single SELECT/WITH statement passes),
     L2  a per-connection read-only switch that is on while the tool owns the
         connection and makes the engine refuse every write,
   a pool of connections shared with the server's own (writing) requests, and a
   caller deadline that can fire at any point of a tool call.  Query classes are
   described by what they WOULD do if nothing stopped them (Intent) and by
   whether their text is a single SELECT/WITH statement (LooksReadOnly) — the
   two are independent, which is exactly why L1 alone is not enough.

   ResetCtx is a negative control: "detached" is what the statement demands
   (the switch is cleared whatever happened to the caller's deadline); with
   "query" the clearing is skipped once the deadline has fired, and TLC must
   then find a PoolUsable counterexample (QueryGuard_neg.cfg).               *)
EXTENDS Naturals, FiniteSets, TLC, Json
CONSTANTS Conns, MaxCalls, MaxWrites, ResetCtx

Classes == {"plain", "cte_write", "multi", "multi_quoted", "comment", "pragma", "pragma_fn", "attach", "vacuum",
            "ddl", "dml", "huge", "huge_header", "endless", "malformed"}

(* what the text would do on an unguarded read-write connection *)
Intent(c) == CASE c \in {"plain", "huge", "huge_header", "endless", "malformed"} -> "read"
               [] c \in {"cte_write", "multi", "multi_quoted", "comment", "ddl", "dml"} -> "write"
               [] c \in {"attach", "vacuum"}                                   -> "newfile"
               [] c \in {"pragma", "pragma_fn"}                                -> "config"

(* "multi_quoted": several statements whose first ';' (or first quotes) sit inside a string literal, a quoted
   identifier or a comment of a leading SELECT, so that a separator scan that reasons about quotes can be fooled *)
(* is the text one SELECT/WITH statement (so that no classifier that only looks at the
   shape of the text can tell it from a read)? *)
LooksReadOnly(c) == c \in {"plain", "cte_write", "pragma_fn", "huge", "huge_header", "endless"}

(* abstract size of the full answer *)
Size(c) == CASE c = "huge" -> "over_rows_or_bytes" [] c = "huge_header" -> "over_header"
             [] c = "endless" -> "never" [] OTHER -> "small"

VARIABLES writable,  \* could the server's pool write before any tool call?
          db,        \* version of the database contents
          files,     \* files besides the database and its -wal/-shm
          qo,        \* per connection: read-only switch
          busy,      \* per connection: checked out of the pool
          call,      \* the tool call in progress, or [pc |-> "none"]
          ncalls, nwrites,
          okWrites,  \* server writes that succeeded
          lastWrite  \* outcome of the last server write: "ok" | "failed" | "none"
vars == <<writable, db, files, qo, busy, call, ncalls, nwrites, okWrites, lastWrite>>

None == [pc |-> "none"]

Init == /\ writable \in BOOLEAN
        /\ db = 0 /\ files = 0
        /\ qo = [c \in Conns |-> FALSE]
        /\ busy = [c \in Conns |-> FALSE]
        /\ call = None
        /\ ncalls = 0 /\ nwrites = 0 /\ okWrites = 0 /\ lastWrite = "none"

(* ---- the tool call, step by step --------------------------------------- *)
Begin(cl, expired) ==
    /\ call.pc = "none" /\ ncalls < MaxCalls
    /\ call' = [pc |-> "classify", class |-> cl, conn |-> 0, expired |-> expired, when |-> IF expired THEN "before" ELSE "none",
                overlap |-> FALSE, res |-> "none", out |-> "none"]
    /\ ncalls' = ncalls + 1
    /\ UNCHANGED <<writable, db, files, qo, busy, nwrites, okWrites, lastWrite>>

Expire == /\ call.pc \in {"classify", "acquire", "guard", "run"} /\ ~call.expired
          /\ call' = [call EXCEPT !.expired = TRUE, !.when = IF call.pc = "run" THEN "during" ELSE "early"]
          /\ UNCHANGED <<writable, db, files, qo, busy, ncalls, nwrites, okWrites, lastWrite>>

Finish(res, out) == call' = [call EXCEPT !.pc = "done", !.res = res, !.out = out]

(* L1 never touches a connection *)
Classify == /\ call.pc = "classify"
            /\ IF LooksReadOnly(call.class) THEN call' = [call EXCEPT !.pc = "acquire"]
                                            ELSE Finish("refused", "none")
            /\ UNCHANGED <<writable, db, files, qo, busy, ncalls, nwrites, okWrites, lastWrite>>

Acquire == /\ call.pc = "acquire"
           /\ \/ /\ call.expired /\ Finish("timeout", "none") /\ UNCHANGED busy
              \/ /\ ~call.expired
                 /\ \E c \in Conns : /\ ~busy[c]
                                     /\ busy' = [busy EXCEPT ![c] = TRUE]
                                     /\ call' = [call EXCEPT !.pc = "guard", !.conn = c]
           /\ UNCHANGED <<writable, db, files, qo, ncalls, nwrites, okWrites, lastWrite>>

(* L2 on; if the deadline fired first the call gives up and releases the connection untouched *)
Guard == /\ call.pc = "guard"
         /\ \/ /\ call.expired /\ call' = [call EXCEPT !.pc = "release", !.res = "timeout"] /\ UNCHANGED qo
            \/ /\ ~call.expired /\ qo' = [qo EXCEPT ![call.conn] = TRUE] /\ call' = [call EXCEPT !.pc = "run"]
         /\ UNCHANGED <<writable, db, files, busy, ncalls, nwrites, okWrites, lastWrite>>

(* the engine: a write or a new file happens iff the text wants it, the connection is writable and
   the switch is off — with L2 in place the first disjunct is dead, which is what DBUnchanged checks *)
Run == /\ call.pc = "run"
       /\ LET c == call.conn  i == Intent(call.class) IN
          \/ /\ i \in {"write", "newfile"} /\ ~qo[c] /\ writable
             /\ db' = (IF i = "write" THEN db + 1 ELSE db) /\ files' = (IF i = "newfile" THEN files + 1 ELSE files)
             /\ call' = [call EXCEPT !.pc = "reset", !.res = "rows", !.out = "small"]
          \/ /\ i # "read" /\ (qo[c] \/ ~writable) /\ UNCHANGED <<db, files>>
             /\ call' = [call EXCEPT !.pc = "reset", !.res = "refused"]
          \/ /\ i = "read" /\ call.expired /\ UNCHANGED <<db, files>>
             /\ call' = [call EXCEPT !.pc = "reset", !.res = "timeout"]
          \/ /\ i = "read" /\ ~call.expired /\ Size(call.class) # "never" /\ UNCHANGED <<db, files>>
             /\ call' = [call EXCEPT !.pc = "reset", !.res = "rows",
                                     !.out = IF Size(call.class) = "small" THEN "small" ELSE "capped"]
       /\ UNCHANGED <<writable, qo, busy, ncalls, nwrites, okWrites, lastWrite>>

(* an endless query only ends through the deadline (the caller's or the tool's own) *)
ToolTimeout == /\ call.pc = "run" /\ Size(call.class) = "never" /\ ~call.expired
               /\ call' = [call EXCEPT !.expired = TRUE, !.when = "during"]
               /\ UNCHANGED <<writable, db, files, qo, busy, ncalls, nwrites, okWrites, lastWrite>>

Reset == /\ call.pc = "reset"
         /\ qo' = [qo EXCEPT ![call.conn] = IF ResetCtx = "query" /\ call.expired THEN @ ELSE FALSE]
         /\ call' = [call EXCEPT !.pc = "release"]
         /\ UNCHANGED <<writable, db, files, busy, ncalls, nwrites, okWrites, lastWrite>>

Release == /\ call.pc = "release"
           /\ busy' = [busy EXCEPT ![call.conn] = FALSE]
           /\ call' = [call EXCEPT !.pc = "done"]
           /\ UNCHANGED <<writable, db, files, qo, ncalls, nwrites, okWrites, lastWrite>>

Case == [class |-> call.class, when |-> call.when, conn |-> call.conn, overlap |-> call.overlap,
         res |-> call.res, out |-> call.out, writable |-> writable]

Return == /\ call.pc = "done"
          /\ PrintT(<<"CASE", ToJson(Case)>>)
          /\ call' = None
          /\ UNCHANGED <<writable, db, files, qo, busy, ncalls, nwrites, okWrites, lastWrite>>

(* ---- the server's own use of the pool, at any time ---------------------- *)
ServerWrite(c) == /\ ~busy[c] /\ nwrites < MaxWrites
                  /\ nwrites' = nwrites + 1
                  /\ IF writable /\ ~qo[c] THEN db' = db + 1 /\ okWrites' = okWrites + 1 /\ lastWrite' = "ok"
                                           ELSE UNCHANGED <<db, okWrites>> /\ lastWrite' = "failed"
                  /\ call' = (IF call.pc \in {"none", "done"} THEN call ELSE [call EXCEPT !.overlap = TRUE])
                  /\ UNCHANGED <<writable, files, qo, busy, ncalls>>

Next == \/ \E cl \in Classes, e \in BOOLEAN : Begin(cl, e)
        \/ Expire \/ Classify \/ Acquire \/ Guard \/ Run \/ ToolTimeout \/ Reset \/ Release \/ Return
        \/ \E c \in Conns : ServerWrite(c)
Spec == Init /\ [][Next]_vars

(* ---- what the statement demands ---------------------------------------- *)
DBUnchanged == db = okWrites                                      \* only the server's own successful writes changed it
ToolNeverWrites == [][(db' # db) => (nwrites' = nwrites + 1)]_vars
NoNewFile == files = 0
CapsRespected == call.pc = "done" /\ call.res = "rows" => call.out \in {"small", "capped"}
PoolUsable == /\ \A c \in Conns : ~busy[c] => ~qo[c]            \* an idle connection is an ordinary connection
              /\ (writable => lastWrite # "failed")               \* and the server's writes keep working
StillReadOnly == call.pc = "run" => qo[call.conn]                \* every (later) tool call runs with L2 on
LiveRead == call.pc = "done" /\ call.class = "plain" /\ call.when = "none" => call.res = "rows"
TypeOK == /\ qo \in [Conns -> BOOLEAN] /\ busy \in [Conns -> BOOLEAN]
          /\ Cardinality({c \in Conns : busy[c]}) <= 1
=============================================================================
