SPECIFICATION TTSpec
CONSTANTS
  TaskIds = {1, 2}
  Locs = {"L1", "L2"}
  Kinds = {"a", "b"}
  MaxT = 1
  MaxLen = 4
INVARIANT NoEndedTwice
CHECK_DEADLOCK FALSE
