-------------------------- MODULE TracerStatsTrace --------------------------
(* C34, concurrent histories judged by TLC.  Every record of the trace file is one
   observation of the real TotalTimeTracer / AverageTimeTracer / TagCountTracer taken
   after a round of a concurrent history: G goroutines, each owning a disjoint set of
   tasks, were released together, issued their start / tag / end events of one instant
   on the shared tracers, and have all returned.

     tasks  <<start, end, tracked (1/0), done (1/0)>> of every task started so far
     tags   <<task, name>> of every tag event issued so far
     now    the instant of the round
     obs    what the getters returned after the join: tot, cnt, avg,
            tags[n] = <<tags recorded, distinct tracked tasks>>

   The statistics of TracerStats.tla are functions of SETS of tasks, so no order of
   the concurrent calls has to be guessed: the record is loaded into the variables of
   TracerStats (Load) and accepted iff the observation equals the values of its own
   operators TotalTime / CountQ / Average / TagCount / TaskCount (Accept), with the
   same "left free" rules (count only when no tracked task is running, average only
   once a tracked task has completed).  Records are consumed one after the other
   (high-water mark of TraceCommon): the run is accepted iff every record is.       *)
EXTENDS TracerStats, TraceCommon
VARIABLES l,      \* record being judged
          loaded  \* the record has been loaded into the variables of TracerStats
tvars == <<now, ph, iv, flt, tagev, hist, l, loaded>>

Rec == Trace[l]
NT(r) == Len(r.tasks)

TInit == /\ Init /\ l = 1 /\ loaded = FALSE /\ TraceMarkInit

Load == /\ l <= TraceLen /\ ~loaded
        /\ Assert(NT(Rec) <= NTasks, <<"record with more tasks than NTasks", NT(Rec)>>)
        /\ Assert(Len(Rec.tags) <= MaxTags, <<"record with more tag events than MaxTags", Len(Rec.tags)>>)
        /\ ph'  = [t \in Tasks |-> IF t > NT(Rec) THEN "idle" ELSE IF Rec.tasks[t][4] = 1 THEN "done" ELSE "run"]
        /\ iv'  = [t \in Tasks |-> IF t > NT(Rec) THEN <<0, 0>> ELSE <<Rec.tasks[t][1], Rec.tasks[t][2]>>]
        /\ flt' = [t \in Tasks |-> IF t > NT(Rec) THEN TRUE ELSE Rec.tasks[t][3] = 1]
        /\ tagev' = {[k |-> i, task |-> Rec.tags[i][1], name |-> Rec.tags[i][2]] : i \in 1..Len(Rec.tags)}
        /\ now' = Rec.now /\ hist' = <<>>
        /\ loaded' = TRUE /\ UNCHANGED l

Agrees(o) == /\ o.tot = TotalTime
             /\ (CountQ # -1 => o.cnt = CountQ)
             /\ (Average # -1 => o.avg = Average)
             /\ \A n \in Names : o.tags[n][1] = TagCount(n) /\ o.tags[n][2] = TaskCount(n)

Accept == /\ l <= TraceLen /\ loaded
          /\ Agrees(Rec.obs)
          /\ l' = l + 1 /\ loaded' = FALSE
          /\ UNCHANGED <<now, ph, iv, flt, tagev, hist>>

TNext == Load \/ Accept
TSpec == TInit /\ [][TNext]_tvars
Mark == TraceMark(l)

(* the loaded states are states of the statement: durations are not negative, a tag
   refers to a started task *)
TWellFormed == /\ \A t \in Tasks : ph[t] # "idle" => iv[t][1] <= iv[t][2] /\ iv[t][2] <= now
               /\ \A e \in tagev : ph[e.task] # "idle" /\ e.name \in Names
=============================================================================
