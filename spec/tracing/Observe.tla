------------------------------ MODULE Observe ------------------------------
(* C33 — observing a simulation does not change it, as a two-run (self-composition)
   property. Two parts:

   (1) A tiny model (OSpec): two copies of one abstract discrete-event simulation
       start from the same state. Each has an event queue, a clock, a process-wide ID
       counter and an outcome stream; handling an event emits an outcome stamped with
       the clock and a fresh ID and may schedule a follow-up. Copy B also carries
       observers: an observer step may read anything but writes only its own log —
       and draws fresh IDs from the shared counter (as AddMilestone / AddTaskTag and
       the receiver-task registry do). TLC checks NonInterference: with IDs erased the
       two outcome streams agree position by position (A[i] = B[i]), in every
       interleaving. The control configurations show the invariant is not vacuous:
       an observer that delays an event (Observe_delay.cfg) or comparing the streams
       with their IDs (Observe_ids.cfg) violates it.

   (2) The comparator (CSpec) for recorded runs: every assembly is run bare and under
       every combination of observers; TLC compares each run's erased outcome stream
       and final storage digest with the bare run's and prints a CASE record with the
       first divergence.                                                           *)
EXTENDS Naturals, Sequences, FiniteSets, TLC, TraceCommon
CONSTANTS MaxEvents, MaxObs, Bad      \* Bad: {} | {"delay"} | {"ids"}
VARIABLES a, b, obslog, l, res
ovars == <<a, b, obslog, l, res>>

(* ------------------------------------------------------------------ the model *)
Sim0 == [clock |-> 0, idc |-> 0, q |-> <<[at |-> 0, k |-> 1]>>, out |-> <<>>, n |-> 0]
(* handle the head event: emit an outcome, maybe schedule a follow-up (kind decides the delay) *)
Handle(s) == LET e == Head(s.q)
                 id == s.idc + 1
                 follow == IF s.n + 1 < MaxEvents THEN <<[at |-> e.at + e.k, k |-> 3 - e.k]>> ELSE <<>>
             IN [clock |-> e.at, idc |-> id, q |-> Tail(s.q) \o follow,
                 out |-> Append(s.out, [k |-> e.k, t |-> e.at, id |-> id]), n |-> s.n + 1]
Erase(o) == [i \in DOMAIN o |-> [k |-> o[i].k, t |-> o[i].t]]
View(o) == IF "ids" \in Bad THEN o ELSE Erase(o)

OInit == a = Sim0 /\ b = Sim0 /\ obslog = <<>> /\ l = 0 /\ res = {}
StepA == a.q # <<>> /\ a' = Handle(a) /\ UNCHANGED <<b, obslog, l, res>>
StepB == b.q # <<>> /\ b' = Handle(b) /\ UNCHANGED <<a, obslog, l, res>>
(* an observer of B: notes the clock under a fresh ID; writes nothing else *)
ObserveB == /\ Len(obslog) < MaxObs
            /\ obslog' = Append(obslog, [id |-> b.idc + 1, t |-> b.clock])
            /\ b' = [b EXCEPT !.idc = @ + 1]
            /\ UNCHANGED <<a, l, res>>
(* a faulty observer (control): it holds the next event back by one time unit *)
DelayB == /\ "delay" \in Bad /\ b.q # <<>> /\ Len(obslog) < MaxObs
          /\ b' = [b EXCEPT !.q = <<[at |-> Head(@).at + 1, k |-> Head(@).k]>> \o Tail(@)]
          /\ obslog' = Append(obslog, [id |-> 0, t |-> b.clock])
          /\ UNCHANGED <<a, l, res>>
ONext == StepA \/ StepB \/ ObserveB \/ DelayB
OSpec == OInit /\ [][ONext]_ovars

Prefix(s, t) == Len(s) <= Len(t) /\ \A i \in 1..Len(s) : s[i] = t[i]
NonInterference == LET x == View(a.out) y == View(b.out) IN Prefix(x, y) \/ Prefix(y, x)
(* the observers really interleave and really consume IDs *)
ObserversActive == ~(Len(obslog) = MaxObs /\ b.idc > a.idc /\ a.q = <<>> /\ b.q = <<>>)

(* -------------------------------------------------------------- the comparator *)
Runs == Trace
NRuns == Len(Runs)
BaseOf(r) == CHOOSE i \in 1..NRuns : Runs[i].asm = Runs[r].asm /\ Runs[i].variant = 0
FirstDiff(x, y) == LET n == IF Len(x) < Len(y) THEN Len(x) ELSE Len(y)
                       D == {i \in 1..n : x[i] # y[i]}
                   IN IF D # {} THEN CHOOSE i \in D : \A j \in D : i <= j
                      ELSE IF Len(x) # Len(y) THEN n + 1 ELSE 0
At(x, i) == IF i >= 1 /\ i <= Len(x) THEN x[i] ELSE [k |-> "(end of stream)"]
Compare(r) ==
    LET run == Runs[r] base == Runs[BaseOf(r)]
        d == FirstDiff(base.obs, run.obs)
    IN IF d # 0 THEN [class |-> "stream_diverges", at |-> d, bare |-> At(base.obs, d), observed |-> At(run.obs, d)]
       ELSE IF base.panic # run.panic THEN [class |-> "crash_differs", at |-> 0, bare |-> [k |-> base.panic], observed |-> [k |-> run.panic]]
       ELSE IF base.final # run.final THEN [class |-> "final_state_differs", at |-> 0, bare |-> [k |-> base.final], observed |-> [k |-> run.final]]
       ELSE IF base.end_t # run.end_t THEN [class |-> "end_time_differs", at |-> 0, bare |-> [k |-> base.end_t], observed |-> [k |-> run.end_t]]
       ELSE [class |-> "same", at |-> 0, bare |-> [k |-> ""], observed |-> [k |-> ""]]
CInit == l = 1 /\ TraceMarkInit /\ res = {} /\ a = Sim0 /\ b = Sim0 /\ obslog = <<>>
CNext == /\ l <= NRuns
         /\ LET c == Compare(l) IN
            /\ IF c.class = "same" THEN TRUE
               ELSE PrintT(<<"CASE", ToJson([class |-> c.class, run |-> l, asm |-> Runs[l].asm, kind |-> Runs[l].kind, variant |-> Runs[l].variant,
                                             vname |-> Runs[l].vname, at |-> c.at, bare |-> c.bare, observed |-> c.observed])>>)
            /\ res' = res \cup {c.class}
         /\ l' = l + 1
         /\ UNCHANGED <<a, b, obslog>>
CSpec == CInit /\ [][CNext]_ovars
Mark == TraceMark(l)
(* every assembly has its bare run *)
CWellFormed == \A r \in 1..NRuns : \E i \in 1..NRuns : Runs[i].asm = Runs[r].asm /\ Runs[i].variant = 0
=============================================================================
