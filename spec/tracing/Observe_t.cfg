SPECIFICATION OSpec
CONSTANTS
  MaxEvents = 7
  MaxObs = 5
  Bad = {}
INVARIANT NonInterference
CHECK_DEADLOCK FALSE
