SPECIFICATION TSpec
CONSTANTS
  TaskIds = {}
  Locs = {}
  Kinds = {}
  MaxT = 0
  MaxLen = 0
INVARIANT TSane
CONSTRAINT Mark
POSTCONDITION TraceAccepted
CHECK_DEADLOCK FALSE
