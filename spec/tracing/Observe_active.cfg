SPECIFICATION OSpec
CONSTANTS
  MaxEvents = 4
  MaxObs = 3
  Bad = {}
INVARIANT ObserversActive
CHECK_DEADLOCK FALSE
