---------------------------- MODULE TracerStats ----------------------------
(* C34 — the aggregate tracers (total / average / busy time, tag counts) as the
   statement describes them: statistics of SETS of tasks, not running values.

   A behaviour is a stream of task events in time order: start(t, u, passes-the-
   filter?), end(t, u), tag(t, u, name).  TLC explores every such stream for
   tasks 1..NTasks with times 0..MaxT (overlapping, nested, chained, disjoint and
   zero-length tasks, every order of same-instant events, filtered and unfiltered
   tasks).  Every history entry carries the getter values the statement demands
   after that event (`Expect`); a complete stream is emitted as BEHAVIOUR and
   replayed on the real tracers.

   What the statement leaves open is left free (value -1 = "not compared"):
     * the average while no tracked task has completed (0/0);
     * the busy time while a tracked task is still running (the statement speaks
       of the union of the tasks' intervals; an unfinished task has no interval
       yet and the tracer documents no partial value).
   Totals, counts and averages after any prefix range over the tasks completed
   in that prefix — a prefix of a stream is a stream.                         *)
EXTENDS Integers, Sequences, FiniteSets, FiniteSetsExt, TLC, Json

CONSTANTS NTasks,        \* tasks 1..NTasks, started in this order (IDs are arbitrary)
          MaxT,          \* event times 0..MaxT
          MaxFilteredOut,\* at most this many tasks fail the tracer's filter
          NumNames,      \* tag names are TagNames[1..NumNames]; events refer to a name by its index
          MaxTags        \* at most this many tag events per stream

VARIABLES now,   \* time of the latest event
          ph,    \* ph[t] \in {"idle", "run", "done"}
          iv,    \* iv[t] = <<start, end>> (end meaningful once done)
          flt,   \* flt[t]: the task passes the filter (is tracked)
          tagev, \* set of tag events [k, task, name] (k makes every event distinct)
          hist   \* the stream so far, with the expected getter values

vars == <<now, ph, iv, flt, tagev, hist>>
Tasks == 1..NTasks

-----------------------------------------------------------------------------
(* The statement, on sets.                                                  *)

Tracked   == {t \in Tasks : ph[t] # "idle" /\ flt[t]}          \* started and passing the filter
Completed == {t \in Tracked : ph[t] = "done"}                  \* "the filtered tasks" with a duration
InFlight  == {t \in Tracked : ph[t] = "run"}
Duration(t) == iv[t][2] - iv[t][1]

TotalTime == MapThenSumSet(Duration, Completed)
Count     == Cardinality(Completed)
Average   == IF Count = 0 THEN -1 ELSE TotalTime \div Count

(* Length of the union of the intervals: with integer end points the union is a
   union of unit cells [u, u+1]; its length is the number of covered cells.     *)
Cells(t)  == {u \in 0..(MaxT - 1) : iv[t][1] <= u /\ u + 1 <= iv[t][2]}
BusyUnion == Cardinality(UNION {Cells(t) : t \in Completed})
Busy      == IF InFlight = {} THEN BusyUnion ELSE -1

(* the count getter is compared at quiescent points only: whether a running task
   already counts as one of "the tasks" is not said *)
CountQ    == IF InFlight = {} THEN Count ELSE -1

TagNames == <<"a", "b", "c">>
Names == 1..NumNames
TagCount(n)  == Cardinality({e \in tagev : e.name = n})
TaskCount(n) == Cardinality({e.task : e \in {x \in tagev : x.name = n /\ flt[x.task]}})

Expect == [tot |-> TotalTime, cnt |-> CountQ, avg |-> Average, busy |-> Busy,
           tags |-> [n \in Names |-> <<TagCount(n), TaskCount(n)>>]]

(* compact wire form of an expectation: <<tot, cnt, avg, busy, tags_1, tasks_1, tags_2, ...>> *)
Wire(e) == <<e.tot, e.cnt, e.avg, e.busy>> \o
           [i \in 1..(2 * NumNames) |-> IF i % 2 = 1 THEN e.tags[(i + 1) \div 2][1] ELSE e.tags[i \div 2][2]]

-----------------------------------------------------------------------------
Init == /\ now = 0
        /\ ph = [t \in Tasks |-> "idle"]
        /\ iv = [t \in Tasks |-> <<0, 0>>]
        /\ flt = [t \in Tasks |-> TRUE]
        /\ tagev = {}
        /\ hist = <<>>

(* hist' is written with the primed Expect: the values after the event.  An entry is
   <<op, task, time, x>> \o Wire(Expect'): op 0 = start (x = 1 passes the filter, 0 not),
   1 = end, 2 = tag (x = index of the name). *)
Log(op, t, u, x) == hist' = Append(hist, <<op, t, u, x>> \o Wire(Expect'))

Start(t, u, f) ==
    /\ ph[t] = "idle" /\ (IF t = 1 THEN TRUE ELSE ph[t - 1] # "idle")
    /\ (IF f THEN TRUE ELSE Cardinality({s \in Tasks : ph[s] # "idle" /\ ~flt[s]}) < MaxFilteredOut)
    /\ ph' = [ph EXCEPT ![t] = "run"]
    /\ iv' = [iv EXCEPT ![t] = <<u, u>>]
    /\ flt' = [flt EXCEPT ![t] = f]
    /\ now' = u /\ UNCHANGED tagev
    /\ Log(0, t, u, IF f THEN 1 ELSE 0)

End(t, u) ==
    /\ ph[t] = "run"
    /\ ph' = [ph EXCEPT ![t] = "done"]
    /\ iv' = [iv EXCEPT ![t] = <<iv[t][1], u>>]
    /\ now' = u /\ UNCHANGED <<flt, tagev>>
    /\ Log(1, t, u, 0)

Tag(t, u, n) ==
    /\ ph[t] = "run" /\ Cardinality(tagev) < MaxTags
    /\ tagev' = tagev \cup {[k |-> Cardinality(tagev) + 1, task |-> t, name |-> n]}
    /\ now' = u /\ UNCHANGED <<ph, iv, flt>>
    /\ Log(2, t, u, n)

Next == \E t \in Tasks, u \in now..MaxT :
           \/ \E f \in BOOLEAN : Start(t, u, f)
           \/ End(t, u)
           \/ \E n \in Names : Tag(t, u, n)

Spec == Init /\ [][Next]_vars

-----------------------------------------------------------------------------
(* Emission: a stream is complete when every task has ended.                 *)
AllDone == \A t \in Tasks : ph[t] = "done"
(* (a record, not the bare sequence: TLC wraps long printed values over several lines
   unless they contain quoted keys, and the framework reads one line per behaviour) *)
EmitDone == AllDone => PrintT(<<"BEHAVIOUR", ToJson([h |-> hist])>>)

-----------------------------------------------------------------------------
(* Properties of the specification itself.                                   *)
TypeOK == /\ now \in 0..MaxT
          /\ \A t \in Tasks : ph[t] # "idle" => iv[t][1] <= iv[t][2] /\ iv[t][2] <= MaxT

(* the events of a stream are in time order *)
TimeOrdered == \A i \in 1..(Len(hist) - 1) : hist[i][3] <= hist[i + 1][3]

(* floor average: avg * cnt <= total < (avg + 1) * cnt *)
AverageIsFloor == LET c == Count
                      tt == TotalTime
                      a == Average
                  IN  c > 0 => (a * c <= tt /\ tt < (a + 1) * c)

(* the union is never longer than the sum, never longer than the covered span,
   and equal to the sum when no two completed tasks share a cell *)
Overlap(s, t) == Cells(s) \cap Cells(t) # {}
BusyBounds == LET bu == BusyUnion
                  tt == TotalTime
                  C == Completed
              IN  /\ bu <= tt
                  /\ bu <= MaxT
                  /\ (\A s, t \in C : s # t => ~Overlap(s, t)) => bu = tt
                  /\ \A t \in C : Duration(t) <= bu

(* an independent second definition of the union: sweep over the instants *)
CoveredAt(u) == \E t \in Completed : iv[t][1] <= u /\ u + 1 <= iv[t][2]
BusySweep == BusyUnion = Cardinality({u \in 0..(MaxT - 1) : CoveredAt(u)})

TagBounds == \A n \in Names : /\ TaskCount(n) <= TagCount(n)
                                 /\ TaskCount(n) <= Cardinality(Tracked)
                                 /\ TagCount(n) <= MaxTags

(* statistics only grow along a stream *)
Monotone == [][/\ TotalTime' >= TotalTime /\ Count' >= Count /\ BusyUnion' >= BusyUnion
               /\ \A n \in Names : TagCount(n)' >= TagCount(n) /\ TaskCount(n)' >= TaskCount(n)]_vars
=============================================================================
