------------------------------ MODULE TaskTrace ------------------------------
(* B2 for C32: the event stream seen by a recording tracer attached to every
   component of a real assembly (memory controllers, caches, TLB / MMU stack, meshes,
   control histories with resets in the middle of traffic) is run through the monitor
   of TaskTree.tla (Step), the one TLC proved equal to the statement's rules on every
   small history. Every flag the monitor raises is printed as a CASE record carrying
   the rule, the task and what the trace knows about it; the trace goes on.

   Records (ndjson):
     run      a new assembly run begins: monitor state is reset
     start    id parent kind what loc t      end  id t
     ms / tag id t what                       quiesce  t  (event queue empty, requester idle)
   Times are order-preserving ranks of the picosecond stamps of one run, IDs are
   renumbered per run in order of first appearance (both injective, so every
   comparison the rules make is preserved).  A stream whose stamps go backwards does
   not fit the monitor's reading of "within its lifetime" and is rejected as a
   whole (structure), never turned into a verdict.                                  *)
EXTENDS TaskTree, Integers, TraceCommon
VARIABLES runv, counts, l
tvars == <<h, mon, bad, runv, counts, l>>
Ev == Trace[l]

(* the check looks the flagged task up in the trace (run, id) to say what it was *)
Report(f) == PrintT(<<"CASE", ToJson([class |-> f.rule, l |-> l, run |-> runv, id |-> f.id, loc |-> f.loc, ev |-> Ev])>>)
ReportAll(F) == \A f \in F : Report(f)
Capped(F) == IF Cardinality(F) <= 12 THEN F ELSE {f \in F : Cardinality({g \in F : g.id < f.id}) < 12}

TInit == h = <<>> /\ bad = {} /\ mon = MonInit /\ runv = -1 /\ counts = [started |-> 0, ended |-> 0, riders |-> 0, flags |-> 0] /\ l = 1 /\ TraceMarkInit

TRun == /\ Ev.e = "run"
        /\ mon' = MonInit /\ runv' = Ev.run
        /\ counts' = [started |-> 0, ended |-> 0, riders |-> 0, flags |-> 0]

TEvent == /\ Ev.e \in {"start", "end", "ms", "tag", "quiesce"}
          /\ Ev.t >= mon.now        \* chronological stream (structure)
          /\ LET e == [e |-> Ev.e, id |-> IF Ev.e = "quiesce" THEN 0 ELSE Ev.id, t |-> Ev.t,
                       loc |-> IF Ev.e = "start" THEN Ev.loc ELSE "", kind |-> IF Ev.e = "start" THEN Ev.kind ELSE ""]
                 r == Step(mon, e)
             IN /\ mon' = r.m
                /\ ReportAll(Capped(r.f))
                /\ (Cardinality(r.f) > 12 => PrintT(<<"CASE", ToJson([class |-> "more_of_the_same", l |-> l, run |-> runv, n |-> Cardinality(r.f) - 12,
                                                                     rules |-> {f.rule : f \in r.f}])>>))
                /\ counts' = [started |-> counts.started + (IF Ev.e = "start" THEN 1 ELSE 0),
                              ended |-> counts.ended + (IF Ev.e = "end" THEN 1 ELSE 0),
                              riders |-> counts.riders + (IF Ev.e \in {"ms", "tag"} THEN 1 ELSE 0),
                              flags |-> counts.flags + Cardinality(r.f)]
          /\ UNCHANGED runv

TNext == l <= TraceLen /\ l' = l + 1 /\ (TRun \/ TEvent) /\ UNCHANGED <<h, bad>>
TSpec == TInit /\ [][TNext]_tvars
Mark == TraceMark(l)
(* the monitor's own sanity, at every step of the real trace *)
TSane == /\ DOMAIN mon.open \subseteq mon.started
         /\ mon.endedNow \subseteq mon.started \ DOMAIN mon.open
         /\ \A id \in DOMAIN mon.open : mon.open[id].s <= mon.now
==============================================================================
