SPECIFICATION Spec
CONSTANTS
  NTasks = 2
  MaxT = 0
  MaxFilteredOut = 2
  NumNames = 2
  MaxTags = 3
INVARIANT TypeOK
INVARIANT TimeOrdered
INVARIANT AverageIsFloor
INVARIANT BusyBounds
INVARIANT BusySweep
INVARIANT TagBounds
INVARIANT EmitDone
PROPERTY Monotone
CHECK_DEADLOCK FALSE
