------------------------------ MODULE TaskTree ------------------------------
(* C32 — the statement's rules for a task trace, written twice:

   (1) declaratively, over a complete event history (Decl… operators): a task is
       identified by its ID; the history is the stream of StartTask / EndTask /
       Milestone / Tag events (riders = milestones and tags) in the order the
       tracer saw them, stamped with the domain's clock, closed by a quiescence mark;
   (2) as the incremental monitor (Step) that TaskTrace.tla runs over traces recorded
       from the real components.

   TLC explores every chronological history up to MaxLen events over a tiny universe
   and checks that both give exactly the same set of rule failures after every event
   (MonitorIsTheStatement), plus sanity properties of the monitor state.

   Rules (class names are what a check reports):
     started_twice        a second StartTask for an ID already started
     ended_twice          a second EndTask for a started task
     never_ended          at quiescence: a started task without an EndTask
     end_before_start     EndTask stamped earlier than the task's StartTask
     rider_unknown_task   milestone / tag whose task has not been started (at that point of the stream)
     rider_before_start   milestone / tag stamped earlier than its task's start
     rider_after_end      milestone / tag stamped later than its task's end
     location_two_kinds   StartTask at a location that already hosted a task of another kind
   An EndTask for an ID that was never started is not forbidden by the statement
   (the reset helpers end "every task a transaction could hold"); it is counted only. *)
EXTENDS Naturals, Sequences, FiniteSets, TLC
CONSTANTS TaskIds, Locs, Kinds, MaxT, MaxLen
VARIABLES h,      \* the history so far
          mon,    \* monitor state
          bad     \* rule failures the monitor has flagged: set of [rule, id, loc]
ttvars == <<h, mon, bad>>

Flag(rule, id, loc) == [rule |-> rule, id |-> id, loc |-> loc]

(* ------------------------------------------------------------------ monitor *)
(* open: live tasks (id -> start stamp, location, kind); started: every ID ever started;
   lockind: location -> kind of the first task started there; now: latest stamp;
   endedNow: tasks whose end carries the stamp `now`; strayEnds: EndTasks of never-started IDs *)
MonInit == [open |-> <<>>, started |-> {}, lockind |-> <<>>, now |-> 0, endedNow |-> {}, strayEnds |-> 0]
IsOpen(m, id) == id \in DOMAIN m.open
Drop(f, k) == [x \in DOMAIN f \ {k} |-> f[x]]
Put(f, k, v) == [x \in DOMAIN f \cup {k} |-> IF x = k THEN v ELSE f[x]]
Tick(m, t) == IF t > m.now THEN [m EXCEPT !.now = t, !.endedNow = {}] ELSE m

(* Step(m, e) = [m |-> next monitor state, f |-> set of flags raised by event e] *)
StepStart(m0, e) ==
    LET m == Tick(m0, e.t)
        twice == e.id \in m.started
        kinds == e.loc \in DOMAIN m.lockind /\ m.lockind[e.loc] # e.kind
    IN [m |-> [m EXCEPT !.started = @ \cup {e.id},
                        !.open = IF twice THEN @ ELSE Put(@, e.id, [s |-> e.t, loc |-> e.loc, kind |-> e.kind]),
                        !.lockind = IF e.loc \in DOMAIN @ THEN @ ELSE Put(@, e.loc, e.kind)],
        f |-> (IF twice THEN {Flag("started_twice", e.id, e.loc)} ELSE {})
              \cup (IF kinds THEN {Flag("location_two_kinds", e.id, e.loc)} ELSE {})]
StepEnd(m0, e) ==
    LET m == Tick(m0, e.t) IN
    IF IsOpen(m, e.id) THEN
        [m |-> [m EXCEPT !.open = Drop(@, e.id), !.endedNow = @ \cup {e.id}],
         f |-> IF e.t < m.open[e.id].s THEN {Flag("end_before_start", e.id, m.open[e.id].loc)} ELSE {}]
    ELSE IF e.id \in m.started THEN [m |-> m, f |-> {Flag("ended_twice", e.id, "")}]
    ELSE [m |-> [m EXCEPT !.strayEnds = @ + 1], f |-> {}]
StepRider(m0, e) ==
    LET m == Tick(m0, e.t) IN
    IF IsOpen(m, e.id) THEN
        [m |-> m, f |-> IF e.t < m.open[e.id].s THEN {Flag("rider_before_start", e.id, m.open[e.id].loc)} ELSE {}]
    ELSE IF e.id \in m.started THEN
        [m |-> m, f |-> IF e.id \in m.endedNow THEN {} ELSE {Flag("rider_after_end", e.id, "")}]
    ELSE [m |-> m, f |-> {Flag("rider_unknown_task", e.id, "")}]
StepQuiesce(m, e) ==
    [m |-> m, f |-> {Flag("never_ended", id, m.open[id].loc) : id \in DOMAIN m.open}]
Step(m, e) == CASE e.e = "start" -> StepStart(m, e)
                [] e.e = "end" -> StepEnd(m, e)
                [] e.e \in {"ms", "tag"} -> StepRider(m, e)
                [] e.e = "quiesce" -> StepQuiesce(m, e)

(* ------------------------------------------------------------ the statement *)
Pos(hh) == 1..Len(hh)
Starts(hh, id) == {i \in Pos(hh) : hh[i].e = "start" /\ hh[i].id = id}
Ends(hh, id) == {i \in Pos(hh) : hh[i].e = "end" /\ hh[i].id = id}
Min(S) == CHOOSE x \in S : \A y \in S : x <= y
FirstStart(hh, id) == Min(Starts(hh, id))
(* the ends of a task are the EndTasks seen after its start *)
TaskEnds(hh, id) == {i \in Ends(hh, id) : i > FirstStart(hh, id)}
Quiesced(hh) == \E i \in Pos(hh) : hh[i].e = "quiesce"
IdsOf(hh) == {hh[i].id : i \in {j \in Pos(hh) : hh[j].e # "quiesce"}}
LocOf(hh, id) == hh[FirstStart(hh, id)].loc
Decl(hh) ==
    LET ids == IdsOf(hh) IN
    {Flag("started_twice", hh[i].id, hh[i].loc) : i \in {j \in Pos(hh) : hh[j].e = "start" /\ j # FirstStart(hh, hh[j].id)}}
    \cup {Flag("ended_twice", id, "") : id \in {x \in ids : Starts(hh, x) # {} /\ Cardinality(TaskEnds(hh, x)) >= 2}}
    \cup {Flag("never_ended", id, LocOf(hh, id)) : id \in {x \in ids : Starts(hh, x) # {} /\ TaskEnds(hh, x) = {} /\ Quiesced(hh)
                                                                   /\ \E q \in Pos(hh) : hh[q].e = "quiesce" /\ q > FirstStart(hh, x)}}
    \cup {Flag("end_before_start", id, LocOf(hh, id)) : id \in {x \in ids : Starts(hh, x) # {} /\ TaskEnds(hh, x) # {}
                                                                        /\ hh[Min(TaskEnds(hh, x))].t < hh[FirstStart(hh, x)].t}}
    \cup {Flag("rider_unknown_task", hh[i].id, "") : i \in {j \in Pos(hh) : hh[j].e \in {"ms", "tag"}
                                                           /\ (Starts(hh, hh[j].id) = {} \/ FirstStart(hh, hh[j].id) > j)}}
    \cup {Flag("rider_before_start", hh[i].id, LocOf(hh, hh[i].id)) : i \in {j \in Pos(hh) : hh[j].e \in {"ms", "tag"}
                                                           /\ Starts(hh, hh[j].id) # {} /\ FirstStart(hh, hh[j].id) < j
                                                           /\ hh[j].t < hh[FirstStart(hh, hh[j].id)].t}}
    \cup {Flag("rider_after_end", hh[i].id, "") : i \in {j \in Pos(hh) : hh[j].e \in {"ms", "tag"}
                                                           /\ Starts(hh, hh[j].id) # {} /\ FirstStart(hh, hh[j].id) < j
                                                           /\ \E k \in TaskEnds(hh, hh[j].id) : k = Min(TaskEnds(hh, hh[j].id)) /\ hh[j].t > hh[k].t}}
    \cup {Flag("location_two_kinds", hh[i].id, hh[i].loc) : i \in {j \in Pos(hh) : hh[j].e = "start"
                                                           /\ \E k \in 1..(j - 1) : hh[k].e = "start" /\ hh[k].loc = hh[j].loc
                                                                /\ hh[k].kind # hh[j].kind
                                                                /\ \A k2 \in 1..(k - 1) : ~(hh[k2].e = "start" /\ hh[k2].loc = hh[j].loc)}}

(* ------------------------------------------------------------------ the model *)
Now(hh) == IF hh = <<>> THEN 0 ELSE hh[Len(hh)].t
Events(t0) == [e : {"start"}, id : TaskIds, t : t0..MaxT, loc : Locs, kind : Kinds]
              \cup [e : {"end", "ms"}, id : TaskIds, t : t0..MaxT, loc : {""}, kind : {""}]
              \cup [e : {"quiesce"}, id : {0}, t : {t0}, loc : {""}, kind : {""}]
TTInit == h = <<>> /\ mon = MonInit /\ bad = {}
TTNext == /\ Len(h) < MaxLen
          /\ ~Quiesced(h)
          /\ \E e \in Events(Now(h)) :
               LET r == Step(mon, e) IN
               /\ h' = Append(h, e) /\ mon' = r.m /\ bad' = bad \cup r.f
TTSpec == TTInit /\ [][TTNext]_ttvars

MonitorIsTheStatement == bad = Decl(h)
MonitorSane == /\ DOMAIN mon.open \subseteq mon.started
               /\ mon.endedNow \subseteq mon.started \ DOMAIN mon.open
               /\ mon.now = Now(h)
               /\ \A id \in DOMAIN mon.open : mon.open[id].s <= mon.now
(* non-vacuity controls (each must be VIOLATED = reachable): some history raises every rule *)
RulesSeen == {f.rule : f \in bad}
NoNeverEnded == "never_ended" \notin RulesSeen
NoEndedTwice == "ended_twice" \notin RulesSeen
NoRiderAfterEnd == "rider_after_end" \notin RulesSeen
NoTwoKinds == "location_two_kinds" \notin RulesSeen
=============================================================================
