SPECIFICATION TSpec
CONSTANTS
  NTasks = 96
  MaxT = 2000000000
  MaxFilteredOut = 96
  NumNames = 2
  MaxTags = 400
INVARIANT TWellFormed
INVARIANT AverageIsFloor
INVARIANT TagBounds
CONSTRAINT Mark
POSTCONDITION TraceAccepted
CHECK_DEADLOCK FALSE
