SPECIFICATION OSpec
CONSTANTS
  MaxEvents = 4
  MaxObs = 3
  Bad = {}
INVARIANT NonInterference
CHECK_DEADLOCK FALSE
