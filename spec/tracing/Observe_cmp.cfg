SPECIFICATION CSpec
CONSTANTS
  MaxEvents = 0
  MaxObs = 0
  Bad = {}
INVARIANT CWellFormed
CONSTRAINT Mark
POSTCONDITION TraceAccepted
CHECK_DEADLOCK FALSE
