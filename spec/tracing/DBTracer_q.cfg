SPECIFICATION Spec
CONSTANTS
  Profiles = {"win1stray", "win2small", "riders1", "early1", "same2w2", "same3", "sameridq", "frozenridq"}
INVARIANT TypeOK
INVARIANT ReadingsAgree
INVARIANT WindowsOK
INVARIANT RowsOK
INVARIANT EmitDone
PROPERTY RecordAtEnd
CHECK_DEADLOCK FALSE
