SPECIFICATION Spec
CONSTANTS
  NTasks = 3
  MaxT = 0
  MaxFilteredOut = 3
  NumNames = 2
  MaxTags = 2
INVARIANT TypeOK
INVARIANT TimeOrdered
INVARIANT AverageIsFloor
INVARIANT BusyBounds
INVARIANT BusySweep
INVARIANT TagBounds
INVARIANT EmitDone
PROPERTY Monotone
CHECK_DEADLOCK FALSE
