SPECIFICATION Spec
CONSTANTS
  Profiles = {"win2stray", "riders1big", "riders2big", "early2"}
INVARIANT TypeOK
INVARIANT ReadingsAgree
INVARIANT WindowsOK
INVARIANT RowsOK
INVARIANT EmitDone
PROPERTY RecordAtEnd
CHECK_DEADLOCK FALSE
