SPECIFICATION Spec
CONSTANTS
  Profiles = {"win2stray", "riders1big", "riders2big", "early2", "frozen3", "frozenrid", "same2", "same2w2", "same3", "samerid"}
INVARIANT TypeOK
INVARIANT ReadingsAgree
INVARIANT WindowsOK
INVARIANT RowsOK
INVARIANT EmitDone
PROPERTY RecordAtEnd
CHECK_DEADLOCK FALSE
