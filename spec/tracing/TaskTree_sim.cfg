SPECIFICATION TTSpec
CONSTANTS
  TaskIds = {1, 2, 3}
  Locs = {"L1", "L2"}
  Kinds = {"a", "b"}
  MaxT = 3
  MaxLen = 9
INVARIANT MonitorIsTheStatement
INVARIANT MonitorSane
CHECK_DEADLOCK FALSE
