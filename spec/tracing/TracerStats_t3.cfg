SPECIFICATION Spec
CONSTANTS
  NTasks = 3
  MaxT = 5
  MaxFilteredOut = 3
  NumNames = 1
  MaxTags = 0
INVARIANT TypeOK
INVARIANT TimeOrdered
INVARIANT AverageIsFloor
INVARIANT BusyBounds
INVARIANT BusySweep
INVARIANT TagBounds
INVARIANT EmitDone
PROPERTY Monotone
CHECK_DEADLOCK FALSE
