SPECIFICATION OSpec
CONSTANTS
  MaxEvents = 4
  MaxObs = 3
  Bad = {"ids"}
INVARIANT NonInterference
CHECK_DEADLOCK FALSE
