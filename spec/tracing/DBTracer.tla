------------------------------ MODULE DBTracer ------------------------------
(* C36 — what the trace database must contain after a run, as the statement
   describes it, for every interleaving of the task events of tasks 1..NTasks
   (start, tag, milestone, end) with StartTracing / StopTracing / Terminate.

   The tracing window is controlled by StartTracing/StopTracing only (the real
   DBTracer has no time-range option; it starts with tracing off).

   Time and order.  Events carry the virtual time at which they happen; several
   events may happen at the same instant, in any order.  Two clocks are explored
   (per profile): "step" — the clock advances by one before every event (only a
   milestone may share the instant of the previous event), so all times are
   distinct; "free" — before ANY event the clock either stays or advances by one
   (times 0..maxT; maxT = 0 is a frozen clock), so starts, ends, tags, milestones,
   StartTracing and StopTracing coincide in time in every order.
   "The task was running at some point while tracing was on" is read by EVENT
   ORDER: there is a point in the stream at which the task has started and not
   ended and tracing has been switched on and not off.  A task that is running
   when StartTracing is called, or starts while tracing is on, is recorded even if
   the overlap has length zero (same instant); a task whose end event precedes the
   StartTracing call at the same instant, or whose start follows the StopTracing
   call at the same instant, has not run while tracing was on.  Timestamps alone
   cannot tell these cases apart — the event order does.  Nothing is left free here.

   `hist` is the stream; everything the database must contain is DEFINED FROM
   THE STREAM as sets (no incremental marking): Windows, Recorded, TagRows,
   MsGroups, Segments.  A stream ends with Terminate and is emitted as
   BEHAVIOUR together with these sets; the harness replays it on the real
   tracing.DBTracer and compares the rows of the four tables.

   Left free: which of several milestones of one task at one instant is kept
   (the statement says "at most one milestone per instant").
   Not explored (meaning not fixed by the statement): StartTracing while tracing
   is already on; tags/milestones of a task that has ended; events after
   Terminate.  In the "early" profiles a tag or milestone may name a task before
   it starts (the tracer documents that); such a task is still "running" only
   between its start and its end.                                             *)
EXTENDS Integers, Sequences, FiniteSets, TLC, Json

(* One TLC run explores several bound profiles (chosen in Init, kept in `prof`):
   a JVM start per profile would cost more than the exploration itself.        *)
CONSTANTS Profiles    \* names of the profiles (below) to explore

VARIABLES prof,     \* the profile of this behaviour
          hist,     \* the stream: entries <<op, task, time, x>>
          now,      \* time of the latest event
          ph,       \* ph[t] \in {"idle", "run", "done"}
          tracing,  \* tracing is on
          dead      \* Terminate has been called
vars == <<prof, hist, now, ph, tracing, dead>>

(* nt: tasks 1..nt, started in this order;  tags / ms: at most this many tag / milestone
   events per stream;  win: at most this many StartTracing calls;  stray: at most this many
   StopTracing calls while tracing is off;  early: a tag / milestone may also name a task
   that has not started yet (dbtracer.go: "A task may first be mentioned by a tag or a
   milestone");  names: the k-th tag (milestone) of a stream uses name (kind)
   1 + (k-1) % names, so neighbouring milestones differ and "which one was kept" shows;
   clock / maxT: see "Time and order" above.                                            *)
B(nt, tg, ms, win, stray, names, early, clock, maxT) ==
    [nt |-> nt, tags |-> tg, ms |-> ms, win |-> win, stray |-> stray, names |-> names, early |-> early,
     clock |-> clock, maxT |-> maxT]
ProfileDef(p) ==
    CASE p = "win1stray"  -> B(3, 0, 0, 1, 1, 1, FALSE, "step", 0)   \* one window, one unmatched stop
      [] p = "win2"       -> B(3, 0, 0, 2, 0, 1, FALSE, "step", 0)   \* two windows
      [] p = "win2small"  -> B(2, 0, 0, 2, 1, 1, FALSE, "step", 0)
      [] p = "win2stray"  -> B(3, 0, 0, 2, 1, 1, FALSE, "step", 0)
      [] p = "riders1"    -> B(1, 1, 2, 1, 1, 2, FALSE, "step", 0)   \* one task with a tag and milestones
      [] p = "riders1big" -> B(1, 1, 3, 1, 1, 2, FALSE, "step", 0)
      [] p = "riders2"    -> B(2, 1, 1, 1, 0, 2, FALSE, "step", 0)   \* two tasks with a tag and a milestone
      [] p = "riders2big" -> B(2, 1, 2, 1, 0, 2, FALSE, "step", 0)
      [] p = "early1"     -> B(1, 1, 2, 1, 0, 2, TRUE, "step", 0)    \* riders that name a task before its start
      [] p = "early2"     -> B(2, 1, 1, 1, 0, 2, TRUE, "step", 0)
      \* same-instant streams: every event may share the instant of the previous one
      [] p = "frozen3"    -> B(3, 0, 0, 2, 1, 1, FALSE, "free", 0)   \* all events at one instant
      [] p = "frozenrid"  -> B(2, 1, 2, 1, 0, 2, TRUE, "free", 0)
      [] p = "frozenridq" -> B(2, 1, 1, 1, 0, 2, FALSE, "free", 0)   \* two tasks with a tag and a milestone, one instant
      [] p = "same2"      -> B(2, 0, 0, 1, 1, 1, FALSE, "free", 2)   \* times 0..2, any coincidences
      [] p = "same2w2"    -> B(2, 0, 0, 2, 0, 1, FALSE, "free", 1)
      [] p = "same3"      -> B(3, 0, 0, 1, 0, 1, FALSE, "free", 1)
      [] p = "same3big"   -> B(3, 0, 0, 2, 1, 1, FALSE, "free", 1)
      [] p = "sameridq"   -> B(1, 1, 2, 1, 0, 2, TRUE, "free", 1)
      [] p = "samerid"    -> B(1, 1, 2, 1, 0, 2, TRUE, "free", 2)
      [] p = "sameridbig" -> B(2, 1, 2, 1, 0, 2, TRUE, "free", 1)
P == ProfileDef(prof)
NTasks     == P.nt
MaxTags    == P.tags
MaxMs      == P.ms
MaxWindows == P.win
MaxStray   == P.stray
NumNames   == P.names
Early      == P.early
(* how far the clock may advance before an event of kind op *)
Ticks(op)  == IF P.clock = "step" THEN (IF op = 3 THEN {0, 1} ELSE {1})   \* 3 = MS (milestone)
              ELSE {d \in {0, 1} : now + d <= P.maxT}

Tasks == 1..NTasks
START == 0
END == 1
TAG == 2
MS == 3
STARTTR == 4
STOPTR == 5
TERM == 6

-----------------------------------------------------------------------------
(* The statement, as sets defined from the stream.                          *)
Pos      == 1..Len(hist)
Op(i)    == hist[i][1]
TaskOf(i) == hist[i][2]
Time(i)  == hist[i][3]
Arg(i)   == hist[i][4]
Infinity == 1000000

Is(i, op, t) == Op(i) = op /\ TaskOf(i) = t
PosOf(op, t) == {i \in Pos : Is(i, op, t)}
Started(t) == \E i \in Pos : Is(i, START, t)
Ended(t)   == \E i \in Pos : Is(i, END, t)
StartTime(t) == Time(CHOOSE i \in Pos : Is(i, START, t))
EndTime(t)   == Time(CHOOSE i \in Pos : Is(i, END, t))

StartPos(t) == CHOOSE i \in Pos : Is(i, START, t)
EndPos(t)   == CHOOSE i \in Pos : Is(i, END, t)

(* A tracing window opens at a StartTracing call and is closed by the next
   StopTracing or by Terminate: <<open position, open time, close time, close
   position>> (close position Len(hist) + 1 and time Infinity while still open). *)
Closers(i) == {j \in (i + 1)..Len(hist) : Op(j) \in {STOPTR, TERM}}
ClosePos(i) == LET c == Closers(i)
               IN  IF c = {} THEN Len(hist) + 1 ELSE CHOOSE j \in c : \A k \in c : j <= k
Windows == {LET c == ClosePos(i) IN <<i, Time(i), IF c > Len(hist) THEN Infinity ELSE Time(c), c>> :
              i \in {p \in Pos : Op(p) = STARTTR}}

(* "the task was running at some point while tracing was on", by event order: the
   task is running after the events StartPos(t) .. EndPos(t) - 1, tracing is on after
   the events w[1] .. w[4] - 1; the two ranges of positions share a point.
   "and ended before termination": it has an end event (nothing follows Terminate). *)
RunningWhileTracing(t, W) ==
    \E w \in W : LET from == IF StartPos(t) > w[1] THEN StartPos(t) ELSE w[1]
                     to   == IF EndPos(t) < w[4] THEN EndPos(t) ELSE w[4]
                 IN  from < to
RecordedOf(W) == {t \in Tasks : Started(t) /\ Ended(t) /\ RunningWhileTracing(t, W)}
Recorded == RecordedOf(Windows)

(* the rows, given the set R of recorded tasks *)
TaskRowsOf(R) == {<<t, StartTime(t), EndTime(t)>> : t \in R}
(* every tag of a recorded task: <<position (row id), task, time, name>> *)
TagRowsOf(R)  == {<<i, TaskOf(i), Time(i), Arg(i)>> : i \in {p \in Pos : Op(p) = TAG /\ TaskOf(p) \in R}}
(* milestones of a recorded task, grouped by instant: exactly one of each group is kept *)
MsPos(t, u) == {p \in Pos : Op(p) = MS /\ TaskOf(p) = t /\ Time(p) = u}
MsGroupsOf(R) == {<<k[1], k[2], MsPos(k[1], k[2])>> :
                    k \in {<<TaskOf(p), Time(p)>> : p \in {q \in Pos : Op(q) = MS /\ TaskOf(q) \in R}}}
(* one segment per window (a bag: the open position keeps equal windows apart) *)
SegmentsOf(W) == {<<w[1], w[2], w[3]>> : w \in {v \in W : v[3] # Infinity}}

TaskRows == TaskRowsOf(Recorded)
TagRows  == TagRowsOf(Recorded)
MsGroups == MsGroupsOf(Recorded)
Segments == SegmentsOf(Windows)

(* (LET: TLC evaluates W and R once per state instead of once per use) *)
Expected == LET W == Windows
                R == RecordedOf(W)
            IN  [p |-> prof, h |-> hist, tasks |-> TaskRowsOf(R), tags |-> TagRowsOf(R), ms |-> MsGroupsOf(R), segs |-> SegmentsOf(W)]

-----------------------------------------------------------------------------
Count(op) == Cardinality({i \in Pos : Op(i) = op})
StrayStops == Cardinality({i \in Pos : Op(i) = STOPTR /\ Arg(i) = 1})

Init == /\ prof \in Profiles
        /\ hist = <<>> /\ now = 0 /\ ph = [t \in Tasks |-> "idle"] /\ tracing = FALSE /\ dead = FALSE

Log(op, t, u, x) == hist' = Append(hist, <<op, t, u, x>>) /\ now' = u /\ UNCHANGED prof

Start(t, d) == /\ ph[t] = "idle" /\ (IF t = 1 THEN TRUE ELSE ph[t - 1] # "idle") /\ d \in Ticks(START)
               /\ ph' = [ph EXCEPT ![t] = "run"] /\ UNCHANGED <<tracing, dead>>
               /\ Log(START, t, now + d, 0)
End(t, d)   == /\ ph[t] = "run" /\ d \in Ticks(END)
               /\ ph' = [ph EXCEPT ![t] = "done"] /\ UNCHANGED <<tracing, dead>>
               /\ Log(END, t, now + d, 0)
Mentionable(t) == ph[t] = "run" \/ (Early /\ ph[t] = "idle")
Tag(t, d) == /\ Mentionable(t) /\ Count(TAG) < MaxTags /\ d \in Ticks(TAG)
             /\ UNCHANGED <<ph, tracing, dead>>
             /\ Log(TAG, t, now + d, 1 + (Count(TAG) % NumNames))
Milestone(t, d) == /\ Mentionable(t) /\ Count(MS) < MaxMs /\ d \in Ticks(MS)
                   /\ UNCHANGED <<ph, tracing, dead>>
                   /\ Log(MS, t, now + d, 1 + (Count(MS) % NumNames))
StartTracing(d) == /\ ~tracing /\ Count(STARTTR) < MaxWindows /\ d \in Ticks(STARTTR)
                   /\ tracing' = TRUE /\ UNCHANGED <<ph, dead>>
                   /\ Log(STARTTR, 0, now + d, 0)
StopTracing(d)  == /\ tracing /\ d \in Ticks(STOPTR)
                   /\ tracing' = FALSE /\ UNCHANGED <<ph, dead>>
                   /\ Log(STOPTR, 0, now + d, 0)
(* StopTracing while tracing is off: no window, so no segment (x = 1 marks it) *)
StrayStop(d)    == /\ ~tracing /\ StrayStops < MaxStray /\ d \in Ticks(STOPTR)
                   /\ UNCHANGED <<ph, tracing, dead>>
                   /\ Log(STOPTR, 0, now + d, 1)
Terminate(d)    == /\ d \in Ticks(TERM)
                   /\ dead' = TRUE /\ tracing' = FALSE /\ UNCHANGED ph
                   /\ Log(TERM, 0, now + d, 0)

Next == /\ ~dead
        /\ \E d \in {0, 1} :
              \/ \E t \in Tasks : Start(t, d) \/ End(t, d) \/ Tag(t, d) \/ Milestone(t, d)
              \/ StartTracing(d) \/ StopTracing(d) \/ StrayStop(d) \/ Terminate(d)

Spec == Init /\ [][Next]_vars

-----------------------------------------------------------------------------
EmitDone == dead => PrintT(<<"BEHAVIOUR", ToJson(Expected)>>)

-----------------------------------------------------------------------------
(* Properties of the specification itself.                                   *)

(* The event-order reading said literally: after some event the task is running
   and tracing is on.  It must give the same set as the position ranges above. *)
RunningAfter(t, i) == /\ \E j \in 1..i : Is(j, START, t)
                      /\ \A j \in 1..i : ~Is(j, END, t)
TracingAfter(i) == \E j \in 1..i : /\ Op(j) = STARTTR
                                    /\ \A k \in (j + 1)..i : Op(k) \notin {STOPTR, TERM}
RecordedLiterally == LET On == {i \in Pos : TracingAfter(i)}
                     IN  {t \in Tasks : Ended(t) /\ \E i \in On : RunningAfter(t, i)}
(* ... and the timestamps bracket it: an overlap of positive length implies it, and it
   implies that the closed intervals [start, end] and [open, close] meet; when all
   times are distinct ("step" clock) the timestamps decide it.
   (checked on complete streams: every prefix followed by Terminate is one) *)
MeetClosed(t, W) == \E w \in W : StartTime(t) <= w[3] /\ w[2] <= EndTime(t)
MeetOpen(t, W)   == \E w \in W : LET lo == IF StartTime(t) > w[2] THEN StartTime(t) ELSE w[2]
                                     hi == IF EndTime(t) < w[3] THEN EndTime(t) ELSE w[3]
                                 IN  lo < hi
ReadingsAgree == dead => LET W == Windows
                             R == RecordedOf(W)
                             E == {t \in Tasks : Ended(t)}
                         IN  /\ R = RecordedLiterally
                             /\ {t \in E : MeetOpen(t, W)} \subseteq R
                             /\ R \subseteq {t \in E : MeetClosed(t, W)}
                             /\ P.clock = "step" => R = {t \in E : MeetClosed(t, W)}

TypeOK == /\ prof \in Profiles /\ tracing \in BOOLEAN /\ dead \in BOOLEAN
          /\ \A t \in Tasks : /\ (ph[t] = "idle") = ~Started(t)
                              /\ (ph[t] = "done") = Ended(t)
                              /\ Ended(t) => StartTime(t) <= EndTime(t) /\ StartPos(t) < EndPos(t)
          /\ \A i \in 1..(Len(hist) - 1) : Time(i) <= Time(i + 1)
          /\ dead => /\ Op(Len(hist)) = TERM
                     /\ \A t \in Tasks : Cardinality(PosOf(START, t)) <= 1 /\ Cardinality(PosOf(END, t)) <= 1

(* windows do not overlap; after Terminate every window is closed and there is
   one segment per StartTracing call *)
WindowsOK == LET W == Windows
             IN  /\ \A v, w \in W : v # w => (v[4] < w[1] \/ w[4] < v[1])
                 /\ \A v, w \in W : v[4] < w[1] => v[3] <= w[2]
                 /\ \A w \in W : w[1] < w[4] /\ w[2] <= w[3]
                 /\ tracing = (\E w \in W : w[3] = Infinity)
                 /\ dead => Cardinality(SegmentsOf(W)) = Count(STARTTR)

RowsOK == LET W == Windows
              R == RecordedOf(W)
              G == MsGroupsOf(R)
          IN  /\ R \subseteq {t \in Tasks : Ended(t)}
              /\ \A r \in TagRowsOf(R) : r[2] \in R
              /\ \A g \in G : g[3] # {} /\ g[1] \in R
              /\ \A g, k \in G : (g[1] = k[1] /\ g[2] = k[2]) => g = k
              /\ (W = {}) => (R = {})

(* a task is recorded when it ends, or never; the rows of a recorded task never change *)
RecordAtEnd == [][LET R == Recorded
                      R2 == Recorded'
                  IN  /\ R \subseteq R2
                      /\ \A t \in R2 \ R : hist'[Len(hist')] = <<END, t, now', 0>>
                      /\ TaskRowsOf(R) \subseteq TaskRows'
                      /\ TagRowsOf(R) \subseteq TagRows']_vars
=============================================================================
