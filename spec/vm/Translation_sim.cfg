SPECIFICATION Spec
CONSTANTS
  PIDs = {1, 2}
  VPNs = {1, 2}
  PPNs = {1, 2, 3}
  Levels = {"L1", "L2"}
  Points = {"AT", "L2", "MMU"}
  MaxReq = 10
  MaxUpd = 4
  MaxCtl = 12
  AckClears = TRUE
  ScriptLen = 23
INVARIANTS TypeOK OneAnswer NoOldAfterAck AlwaysAnswerable DeadIsDead EmitBehaviour
CHECK_DEADLOCK FALSE
