--------------------------- MODULE TranslationDefs ---------------------------
(* C25 — what the statement says about translation, over plain values.  Constant-free
   so that the abstract model (Translation.tla, explored exhaustively by TLC) and the
   monitor of real executions (TransTrace.tla) use literally the same definitions.

     page table   a function whose domain is the set of mapped <<pid, vpn>> pairs;
                  its value is the physical page number
     stale        a set of <<pid, vpn, ppn, level>>: the mapping pid/vpn -> ppn was in
                  the page table, has been replaced, and a copy of it may still be
                  held by caching level `level`.  It gets there when the page table is
                  changed; it leaves when that level ACKNOWLEDGES an invalidation whose
                  filter covers <<pid, vpn>>.
     may          per outstanding request: the physical pages it may be answered with —
                  the mapping that was current at some moment of its life time, or one
                  that was stale when it was issued.  A request issued after the old
                  mapping has left `stale` at every level can therefore only be answered
                  with the current mapping: "after a page-table change followed by an
                  acknowledged invalidation of the affected entries, no translation
                  uses the old mapping".                                              *)
EXTENDS Integers, FiniteSets

None == -1

Cur(p, pid, vpn) == IF <<pid, vpn>> \in DOMAIN p THEN p[<<pid, vpn>>] ELSE None

StaleOf(st, pid, vpn) == {s[3] : s \in {x \in st : x[1] = pid /\ x[2] = vpn}}

(* the answers open to a request issued now *)
MayAtIssue(p, st, pid, vpn) == ({Cur(p, pid, vpn)} \ {None}) \cup StaleOf(st, pid, vpn)

(* --- a page-table change pid/vpn -> new, with caching levels lvs *)
PtAfterMap(p, pid, vpn, new) ==
    [k \in DOMAIN p \cup {<<pid, vpn>>} |-> IF k = <<pid, vpn>> THEN new ELSE p[k]]
StaleAfterMap(st, p, lvs, pid, vpn, new) ==
    LET old == Cur(p, pid, vpn) IN
    IF old = None \/ old = new THEN st ELSE st \cup {<<pid, vpn, old, lv>> : lv \in lvs}
(* a request in flight across the change may see either side of it *)
OutAfterMap(o, pid, vpn, new) ==
    {IF r.pid = pid /\ r.vpn = vpn THEN [r EXCEPT !.may = @ \cup {new}] ELSE r : r \in o}

(* --- an invalidation filter: process (0 = every process) and pages ({} = every page) *)
Covers(fpid, fvpns, pid, vpn) == (fpid = 0 \/ fpid = pid) /\ (fvpns = {} \/ vpn \in fvpns)
StaleAfterAck(st, lv, fpid, fvpns) == {s \in st : ~(s[4] = lv /\ Covers(fpid, fvpns, s[1], s[2]))}

(* --- a caching level resumes service: whatever is still stale somewhere may be cached by
       it again (it can refill from a level that has not been invalidated yet) *)
StaleAfterEnable(st, lv) == st \cup {<<s[1], s[2], s[3], lv>> : s \in st}

(* --- the rules for one answer to request record r *)
AnswerLegal(r, ppn) == ppn \in r.may

(* mappings that were replaced and can be cached nowhere any more *)
DeadSet(p, st, ever) == {m \in ever : Cur(p, m[1], m[2]) # m[3] /\ m[3] \notin StaleOf(st, m[1], m[2])}
=============================================================================
