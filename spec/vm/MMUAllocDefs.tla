---------------------------- MODULE MMUAllocDefs ----------------------------
(* C27 — the predicates of the statement, over plain page records.  A page is a
   record with (at least) the fields pid, va (virtual base), base (physical base),
   size (physical extent); all in one address unit (abstract units in MMUAlloc.tla,
   bytes in MMUAllocJudge.tla).  Constant-free so that the model (MMUAlloc) and the
   judge of real observations (MMUAllocJudge) use literally the same definitions. *)
EXTENDS Naturals, FiniteSets

(* the physical range of a page is the half-open interval [base, base+size) *)
Overlap(a, o) == a.base < o.base + o.size /\ o.base < a.base + a.size

SameKey(a, o) == a.pid = o.pid /\ a.va = o.va

(* T: set of pages of a table.  Each (process, virtual page) has at most one mapping. *)
OneMappingIn(T) == \A a \in T : \A o \in T : SameKey(a, o) => a = o

(* A: the auto-allocated pages of T.  None of them overlaps any other page of T. *)
AliasPairs(T, A) == {<<a, o>> \in A \X T : a # o /\ Overlap(a, o)}
NoAliasIn(T, A) == AliasPairs(T, A) = {}

(* exactly one mapping for a requested key *)
MappingsOf(T, pid, va) == {p \in T : p.pid = pid /\ p.va = va}
=============================================================================
