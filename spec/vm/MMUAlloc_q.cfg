SPECIFICATION Spec
CONSTANTS
  PIDs = {1, 2}
  PreVAs = {4}
  ReqKeys <- ReqKeysSmall
  U = 2
  PreBases = {0, 1, 2}
  PreSizes = {2, 4}
  MaxPre = 2
  MaxReq = 2
  AllocBases = {0, 1, 2, 3, 4, 5, 6, 7, 8, 9, 10}
  MaxInFlight = 2
INVARIANT OneMapping
INVARIANT NoAlias
INVARIANT PreKept
INVARIANT RspConsistent
INVARIANT RspStable
INVARIANT AllocPossible
INVARIANT Final
PROPERTY GrowOnly
CHECK_DEADLOCK TRUE
