------------------------------ MODULE MMUAlloc ------------------------------
(* C27 — MMU auto-allocation never aliases physical memory.

   A small physical space measured in units (U units = one MMU page, so bases that
   are not multiples of U are unaligned pages), a pre-populated page table `pre`
   (pages of any listed size at any listed base; pre-populated pages may share
   frames with each other — shared memory — the statement only constrains the
   auto-allocated ones), and a stream of translation requests (pid, virtual page).
   Several requests are walked concurrently (at most MaxInFlight), in particular
   several walks of the same still unmapped page.

   The allocator is abstract: a walk that finds no mapping installs a page of U
   units at ANY base whose range is disjoint from every page already in the table.
   TLC checks on this model (Spec): one mapping per (pid, va), no auto page
   overlaps any other page, answers agree with the table, pre-populated pages stay,
   and — non-vacuity — such a base always exists within AllocBases (AllocPossible +
   deadlock freedom: every behaviour can be completed, a correct allocator exists).

   CaseSpec enumerates the initial states only and prints them as CASE lines; the
   Go driver runs every case on the real MMU and MMUAllocJudge.tla judges the
   observed final tables with the same predicates (MMUAllocDefs).                 *)
EXTENDS Naturals, Sequences, FiniteSets, FiniteSetsExt, TLC, Json, MMUAllocDefs
CONSTANTS PIDs,         \* process ids
          PreVAs,       \* virtual pages that may be pre-populated
          ReqKeys,      \* the (pid, va) pairs requests may name, as records
          U,            \* units per MMU page
          PreBases,     \* physical bases (units) a pre-populated page may have
          PreSizes,     \* physical sizes (units) a pre-populated page may have
          MaxPre,       \* at most this many pre-populated pages
          MaxReq,       \* request streams of length 1..MaxReq
          AllocBases,   \* bases the abstract allocator may use
          MaxInFlight   \* concurrent walks
VARIABLES pre, stream, table, issued, inflight, rsp
vars == <<pre, stream, table, issued, inflight, rsp>>

PrePages == [pid : PIDs, va : PreVAs, base : PreBases, size : PreSizes, auto : {FALSE}]
Tables == {T \in UNION {kSubset(k, PrePages) : k \in 0..MaxPre} : OneMappingIn(T)}
Streams == UNION {[1..n -> ReqKeys] : n \in 1..MaxReq}
NoPage == [pid |-> 0, va |-> 0, base |-> 0, size |-> 0, auto |-> FALSE]

Init == /\ pre \in Tables
        /\ stream \in Streams
        /\ table = pre
        /\ issued = 0
        /\ inflight = {}
        /\ rsp = [i \in 1..Len(stream) |-> NoPage]
        /\ PrintT(<<"CASE", ToJson([pre |-> pre, stream |-> stream])>>)

Issue == /\ issued < Len(stream)
         /\ Cardinality(inflight) < MaxInFlight
         /\ issued' = issued + 1
         /\ inflight' = inflight \cup {issued + 1}
         /\ UNCHANGED <<pre, stream, table, rsp>>

FreeBases(T) == {b \in AllocBases :
                   \A o \in T : ~Overlap([base |-> b, size |-> U], o)}

Finish(i) ==
  /\ i \in inflight
  /\ inflight' = inflight \ {i}
  /\ LET k == stream[i]
         have == MappingsOf(table, k.pid, k.va)
     IN IF have # {}
        THEN /\ \E p \in have : rsp' = [rsp EXCEPT ![i] = p]
             /\ UNCHANGED table
        ELSE \E b \in FreeBases(table) :
               LET p == [pid |-> k.pid, va |-> k.va, base |-> b, size |-> U, auto |-> TRUE]
               IN /\ table' = table \cup {p}
                  /\ rsp' = [rsp EXCEPT ![i] = p]
  /\ UNCHANGED <<pre, stream, issued>>

AllDone == issued = Len(stream) /\ inflight = {}
Done == AllDone /\ UNCHANGED vars

Next == Issue \/ (\E i \in inflight : Finish(i)) \/ Done
Spec == Init /\ [][Next]_vars
CaseSpec == Init /\ [][FALSE]_vars

Auto(T) == {p \in T : p.auto}
Answered == {i \in 1..Len(stream) : i <= issued /\ i \notin inflight}

OneMapping == OneMappingIn(table)
NoAlias == NoAliasIn(table, Auto(table))
PreKept == pre \subseteq table /\ Auto(table) = table \ pre
RspConsistent == \A i \in Answered : /\ rsp[i] \in table
                                     /\ rsp[i].pid = stream[i].pid /\ rsp[i].va = stream[i].va
(* a page stays what it was once answered: all answers for one key are the same page *)
RspStable == \A i \in Answered : \A j \in Answered :
               (stream[i] = stream[j]) => rsp[i] = rsp[j]
(* non-vacuity: whenever a walk may have to allocate, a disjoint frame exists *)
Pending == {i \in 1..Len(stream) : i \notin Answered}
AllocPossible == (\E i \in Pending : MappingsOf(table, stream[i].pid, stream[i].va) = {})
                   => FreeBases(table) # {}
(* at the end every requested key has exactly one mapping *)
Final == AllDone => \A i \in 1..Len(stream) :
                      Cardinality(MappingsOf(table, stream[i].pid, stream[i].va)) = 1
(* the table only grows, and only by auto pages for requested, still unmapped keys *)
GrowOnly == [][/\ table \subseteq table'
               /\ \A p \in table' \ table :
                    /\ p.auto /\ MappingsOf(table, p.pid, p.va) = {}
                    /\ \E i \in inflight : stream[i].pid = p.pid /\ stream[i].va = p.va]_vars

(* constant sets that a cfg file cannot write (records) *)
K(p, v) == [pid |-> p, va |-> v]
ReqKeysSmall == {K(1, 0), K(1, 1), K(2, 0), K(1, 4)}
ReqKeysFull == {K(1, 0), K(1, 1), K(2, 0), K(1, 4), K(2, 4)}
=============================================================================
