------------------------------ MODULE TransTrace ------------------------------
(* B2 for C25: the rules of the statement (TranslationDefs — the same definitions the
   abstract model Translation.tla is built from) evaluated over a trace recorded from
   real translation stacks (harness family vmstack): address translator, TLB levels,
   MMU cache, GMMU, MMU, ideal memory below the address translator.

   Every translator of the stack is observed as a translation service at its Top port
   (request received / response sent), the control plane at every Control port
   (request received / acknowledgement sent); page-table changes are made by the
   driver between engine steps.

   The specification is a monitor: the structure (page table, outstanding requests per
   level, stale mappings per caching level, which levels are stopped) is tracked
   exactly; each rule of the statement is a soft check printing a CASE record:

     wrong_physical_page        the answer uses a page the page table never mapped this
                                process/virtual page to (or no recognisable page at all)
     stale_after_ack            the answer uses a replaced mapping although every caching
                                level had acknowledged an invalidation covering it before
                                the request was issued
     offset_not_preserved       the access reached another offset inside the page
     page_identity_mismatch     the returned page belongs to another process/virtual page
     answer_to_wrong_requester  the response is addressed to somebody else
     duplicate_answer / unknown_answer   a second response / a response to no request
                                this Top port received (wrong RspTo)
     unanswered_at_quiescence   the engine ran out of events, every level enabled, and
                                requests received at this Top port have no response    *)
EXTENDS TranslationDefs, Sequences, TLC, TraceCommon
VARIABLES cfgv, pt, out, done, stale, ever, stopped, how, stats, l
tvars == <<cfgv, pt, out, done, stale, ever, stopped, how, stats, l>>
Ev == Trace[l]

Report(class, d) == PrintT(<<"CASE", ToJson([class |-> class, l |-> l, d |-> d])>>)
Soft(cond, class, d) == IF cond THEN TRUE ELSE Report(class, d)

SetOf(s) == {s[i] : i \in DOMAIN s}
Caching == SetOf(cfgv.caching)
LevelNames == SetOf(cfgv.levels)
Busy(lv) == \E r \in out : r.lv = lv
(* per case: answers checked, answers that had to use a mapping installed by a page-table change
   (the request could not legally see any older one), acknowledged invalidations *)
Zero == [answers |-> 0, after_change |-> 0, inv_acks |-> 0]

TInit == /\ cfgv = [levels |-> <<>>, caching |-> <<>>] /\ pt = <<>> /\ out = {} /\ done = {} /\ stale = {} /\ ever = {}
         /\ stopped = <<>> /\ how = <<>> /\ stats = Zero /\ l = 1 /\ TraceMarkInit

TConfig == /\ Ev.e = "config"
           /\ cfgv' = Ev /\ pt' = <<>> /\ out' = {} /\ done' = {} /\ stale' = {} /\ ever' = {}
           /\ stopped' = [lv \in SetOf(Ev.levels) |-> FALSE]
           /\ how' = [lv \in SetOf(Ev.levels) |-> "never"] /\ stats' = Zero

TMap == /\ Ev.e = "map"
        /\ pt' = PtAfterMap(pt, Ev.pid, Ev.vpn, Ev.ppn)
        /\ stale' = StaleAfterMap(stale, pt, Caching, Ev.pid, Ev.vpn, Ev.ppn)
        /\ out' = OutAfterMap(out, Ev.pid, Ev.vpn, Ev.ppn)
        /\ ever' = ever \cup {<<Ev.pid, Ev.vpn, Ev.ppn>>}
        /\ UNCHANGED <<cfgv, done, stopped, how, stats>>

TReq == /\ Ev.e = "req" /\ Ev.lv \in LevelNames
        /\ out' = out \cup {[lv |-> Ev.lv, id |-> Ev.id, pid |-> Ev.pid, vpn |-> Ev.vpn, off |-> Ev.off, who |-> Ev.who,
                             mem |-> (cfgv.kinds[Ev.lv] = "at"), may |-> MayAtIssue(pt, stale, Ev.pid, Ev.vpn)]}
        /\ UNCHANGED <<cfgv, pt, done, stale, ever, stopped, how, stats>>

MappingsEver(pid, vpn) == {m \in ever : m[1] = pid /\ m[2] = vpn}
Matching == {r \in out : r.id = Ev.id /\ r.lv = Ev.lv}
TAns == /\ Ev.e = "ans" /\ Ev.lv \in LevelNames
        /\ IF Matching = {}
           THEN /\ Soft(FALSE, IF Ev.id \in done THEN "duplicate_answer" ELSE "unknown_answer",
                        [lv |-> Ev.lv, id |-> Ev.id, to |-> Ev.to, pid |-> Ev.pid, vpn |-> Ev.vpn, ppn |-> Ev.ppn])
                /\ UNCHANGED <<out, done, stats>>
           ELSE LET r == CHOOSE x \in Matching : TRUE IN
                /\ Soft(Ev.to = r.who, "answer_to_wrong_requester", [lv |-> r.lv, id |-> r.id, who |-> r.who, to |-> Ev.to])
                /\ Soft(r.mem \/ (Ev.pid = r.pid /\ Ev.vpn = r.vpn), "page_identity_mismatch",
                        [lv |-> r.lv, id |-> r.id, pid |-> r.pid, vpn |-> r.vpn, got_pid |-> Ev.pid, got_vpn |-> Ev.vpn])
                /\ Soft(AnswerLegal(r, Ev.ppn),
                        IF <<r.pid, r.vpn, Ev.ppn>> \in ever THEN "stale_after_ack" ELSE "wrong_physical_page",
                        [lv |-> r.lv, id |-> r.id, pid |-> r.pid, vpn |-> r.vpn, ppn |-> Ev.ppn, may |-> r.may,
                         current |-> Cur(pt, r.pid, r.vpn), how |-> how])
                /\ Soft(~r.mem \/ Ev.off = r.off, "offset_not_preserved", [lv |-> r.lv, id |-> r.id, off |-> r.off, got |-> Ev.off])
                /\ out' = out \ {r} /\ done' = done \cup {r.id}
                /\ stats' = [stats EXCEPT !.answers = @ + 1,
                                          !.after_change = IF r.may = {Cur(pt, r.pid, r.vpn)} /\ Cardinality(MappingsEver(r.pid, r.vpn)) > 1
                                                           THEN @ + 1 ELSE @]
        /\ UNCHANGED <<cfgv, pt, stale, ever, stopped, how>>

TCtl == Ev.e = "ctl" /\ UNCHANGED <<cfgv, pt, out, done, stale, ever, stopped, how, stats>>

(* the acknowledgement is the moment the verb has taken effect: it is sent by the control
   middleware in the very tick that changes the state, before the data path runs *)
TAck == /\ Ev.e = "ack" /\ Ev.lv \in LevelNames
        /\ stopped' = IF ~Ev.ok THEN stopped
                      ELSE IF Ev.cmd \in {"pause", "drain"} THEN [stopped EXCEPT ![Ev.lv] = TRUE]
                      ELSE IF Ev.cmd \in {"enable", "reset"} THEN [stopped EXCEPT ![Ev.lv] = FALSE]
                      ELSE stopped
        (* how the level was last stopped: drained, paused while it owed nothing, or paused with
           requests outstanding at its Top port — the last one sticks for the rest of the case
           (what a fill in flight across such a pause leaves behind can surface much later) *)
        /\ how' = IF Ev.ok /\ Ev.cmd \in {"pause", "drain"} /\ ~stopped[Ev.lv] /\ how[Ev.lv] # "pause"
                  THEN [how EXCEPT ![Ev.lv] = IF Ev.cmd = "pause" /\ ~Busy(Ev.lv) THEN "pause_idle" ELSE Ev.cmd]
                  ELSE how
        /\ stale' = IF ~Ev.ok \/ Ev.lv \notin Caching THEN stale
                    ELSE IF Ev.cmd = "inv" THEN StaleAfterAck(stale, Ev.lv, Ev.pid, SetOf(Ev.vpns))
                    ELSE IF Ev.cmd = "enable" /\ stopped[Ev.lv] THEN StaleAfterEnable(stale, Ev.lv)
                    ELSE stale
        /\ stats' = IF Ev.ok /\ Ev.cmd = "inv" THEN [stats EXCEPT !.inv_acks = @ + 1] ELSE stats
        /\ UNCHANGED <<cfgv, pt, out, done, ever>>

(* at rest: one record per level that still owes answers *)
TQuiesce == /\ Ev.e = "quiesce"
            /\ \A lv \in LevelNames :
                 LET rs == {r \in out : r.lv = lv} IN
                 Soft(rs = {}, "unanswered_at_quiescence",
                      [lv |-> lv, n |-> Cardinality(rs),
                       first |-> IF rs = {} THEN 0 ELSE (CHOOSE r \in rs : \A o \in rs : r.id <= o.id),
                       unaligned |-> Cardinality({r \in rs : ~r.mem /\ r.off # 0}),
                       stopped |-> stopped])
            /\ out' = {} /\ done' = {}
            /\ UNCHANGED <<cfgv, pt, stale, ever, stopped, how, stats>>

TOther == /\ Ev.e \in {"reset", "abort", "crash"}
          /\ IF Ev.e = "reset" THEN PrintT(<<"INFO", ToJson([l |-> l, stats |-> stats])>>) ELSE TRUE
          /\ UNCHANGED <<cfgv, pt, out, done, stale, ever, stopped, how, stats>>

TNext == l <= TraceLen /\ l' = l + 1 /\ (TConfig \/ TMap \/ TReq \/ TAns \/ TCtl \/ TAck \/ TQuiesce \/ TOther)
TSpec == TInit /\ [][TNext]_tvars
Mark == TraceMark(l)
(* hard invariants of the tracked structure *)
Structure == /\ \A s \in stale : s[4] \in Caching /\ <<s[1], s[2], s[3]>> \in ever
             /\ \A r \in out : r.id \notin done
=============================================================================
