SPECIFICATION Spec
CONSTANTS
  PIDs = {1}
  VPNs = {1, 2}
  PPNs = {1, 2}
  Levels = {"L1", "L2"}
  Points = {"AT"}
  MaxReq = 3
  MaxUpd = 2
  MaxCtl = 5
  AckClears = TRUE
  ScriptLen = 0
INVARIANTS TypeOK OneAnswer NoOldAfterAck AlwaysAnswerable DeadIsDead
CHECK_DEADLOCK FALSE
