SPECIFICATION TSpec
INVARIANT Structure
CONSTRAINT Mark
POSTCONDITION TraceAccepted
CHECK_DEADLOCK FALSE
