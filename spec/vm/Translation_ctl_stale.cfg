SPECIFICATION Spec
CONSTANTS
  PIDs = {1}
  VPNs = {1, 2}
  PPNs = {1, 2}
  Levels = {"L1", "L2"}
  Points = {"AT"}
  MaxReq = 2
  MaxUpd = 1
  MaxCtl = 4
  AckClears = TRUE
  ScriptLen = 0
INVARIANTS TypeOK NeverNonCurrent
CHECK_DEADLOCK FALSE
