------------------------------ MODULE Translation ------------------------------
(* C25 — abstract model of a translation stack as one service: a page table, caching
   levels that may hold copies of replaced mappings (`stale`), outstanding translation
   requests, page-table updates, and the control protocol's Pause / Invalidate /
   acknowledgement / Enable at every caching level.  An answer is enabled iff it uses
   a mapping the request may legally see (TranslationDefs).

   TLC explores the model exhaustively for 2 pages x 2 mappings and checks
     OneAnswer        every request is outstanding or was answered exactly once
     NoOldAfterAck    no request issued after a replaced mapping has been invalidated
                      (acknowledged) at every level is answered with that mapping
     AlwaysAnswerable the current mapping is always a legal answer (a correct stack is
                      never stuck, and never flagged)
   Control configurations show the model is not vacuous: NeverNonCurrent is violated
   (old mappings ARE legal answers before the acknowledgement), NoFreshRequestOnDeadPage
   is violated (the acknowledgement really disables an answer somebody is waiting for),
   and with AckClears = FALSE (acknowledgements that clear nothing) it is not.

   `last` is the step just taken (part of the state, so that the step properties are
   ordinary invariants); `hist` is the behaviour so far, kept only when ScriptLen > 0:
   in simulation mode complete behaviours are printed (BEHAVIOUR) and replayed as
   programs on real stacks.                                                           *)
EXTENDS TranslationDefs, Sequences, TLC, Json
CONSTANTS PIDs, VPNs, PPNs, Levels, Points, MaxReq, MaxUpd, MaxCtl, AckClears, ScriptLen
ASSUME VPNs \subseteq PPNs
VARIABLES pt, out, done, stale, paused, pend, ever, deadAt, nreq, nupd, nctl, last, hist
vars == <<pt, out, done, stale, paused, pend, ever, deadAt, nreq, nupd, nctl, last, hist>>

Filters == {[pid |-> p, vpns |-> vs] : p \in PIDs \cup {0}, vs \in SUBSET VPNs}

Init == /\ pt = [k \in PIDs \X VPNs |-> k[2]]
        /\ out = {} /\ done = {} /\ stale = {} /\ paused = {} /\ pend = {}
        /\ ever = {<<k[1], k[2], k[2]>> : k \in PIDs \X VPNs}
        /\ deadAt = <<>>
        /\ nreq = 0 /\ nupd = 0 /\ nctl = 0
        /\ last = [op |-> "init"] /\ hist = <<>>

(* death stamps: the number of requests issued before the mapping died *)
Stamp(p, st, ev, n) == [m \in DeadSet(p, st, ev) |-> IF m \in DOMAIN deadAt THEN deadAt[m] ELSE n]
Log(a) == last' = a /\ hist' = IF ScriptLen > 0 THEN Append(hist, a) ELSE hist

Request(pid, vpn, at) ==
    /\ nreq < MaxReq /\ Cur(pt, pid, vpn) # None
    /\ nreq' = nreq + 1
    /\ out' = out \cup {[id |-> nreq + 1, pid |-> pid, vpn |-> vpn, at |-> at, may |-> MayAtIssue(pt, stale, pid, vpn)]}
    /\ Log([op |-> "req", id |-> nreq + 1, pid |-> pid, vpn |-> vpn, at |-> at])
    /\ UNCHANGED <<pt, done, stale, paused, pend, ever, deadAt, nupd, nctl>>

Answer(r, ppn) ==
    /\ r \in out /\ AnswerLegal(r, ppn)
    /\ out' = out \ {r} /\ done' = done \cup {r.id}
    /\ Log([op |-> "ans", id |-> r.id, pid |-> r.pid, vpn |-> r.vpn, ppn |-> ppn])
    /\ UNCHANGED <<pt, stale, paused, pend, ever, deadAt, nreq, nupd, nctl>>

UpdatePT(pid, vpn, new) ==
    /\ nupd < MaxUpd /\ Cur(pt, pid, vpn) # new
    /\ nupd' = nupd + 1
    /\ pt' = PtAfterMap(pt, pid, vpn, new)
    /\ stale' = StaleAfterMap(stale, pt, Levels, pid, vpn, new)
    /\ out' = OutAfterMap(out, pid, vpn, new)
    /\ ever' = ever \cup {<<pid, vpn, new>>}
    /\ deadAt' = Stamp(pt', stale', ever', nreq)
    /\ Log([op |-> "map", pid |-> pid, vpn |-> vpn, ppn |-> new])
    /\ UNCHANGED <<done, paused, pend, nreq, nctl>>

Pause(lv) ==
    /\ nctl < MaxCtl /\ lv \notin paused
    /\ nctl' = nctl + 1 /\ paused' = paused \cup {lv}
    /\ Log([op |-> "pause", lv |-> lv])
    /\ UNCHANGED <<pt, out, done, stale, pend, ever, deadAt, nreq, nupd>>

Invalidate(lv, f) ==
    /\ nctl < MaxCtl /\ lv \in paused /\ ~\E i \in pend : i.lv = lv
    /\ nctl' = nctl + 1 /\ pend' = pend \cup {[lv |-> lv, pid |-> f.pid, vpns |-> f.vpns]}
    /\ Log([op |-> "inv", lv |-> lv, pid |-> f.pid, vpns |-> f.vpns])
    /\ UNCHANGED <<pt, out, done, stale, paused, ever, deadAt, nreq, nupd>>

AckInvalidate(i) ==
    /\ i \in pend /\ pend' = pend \ {i}
    /\ stale' = IF AckClears THEN StaleAfterAck(stale, i.lv, i.pid, i.vpns) ELSE stale
    /\ deadAt' = Stamp(pt, stale', ever, nreq)
    /\ Log([op |-> "ack", lv |-> i.lv])
    /\ UNCHANGED <<pt, out, done, paused, ever, nreq, nupd, nctl>>

Enable(lv) ==
    /\ lv \in paused /\ ~\E i \in pend : i.lv = lv
    /\ paused' = paused \ {lv}
    /\ stale' = StaleAfterEnable(stale, lv)
    /\ deadAt' = Stamp(pt, stale', ever, nreq)
    /\ Log([op |-> "enable", lv |-> lv])
    /\ UNCHANGED <<pt, out, done, pend, ever, nreq, nupd, nctl>>

Next == \/ \E pid \in PIDs, vpn \in VPNs, at \in Points : Request(pid, vpn, at)
        \/ \E r \in out, ppn \in PPNs : Answer(r, ppn)
        \/ \E pid \in PIDs, vpn \in VPNs, new \in PPNs : UpdatePT(pid, vpn, new)
        \/ \E lv \in Levels : Pause(lv) \/ Enable(lv)
        \/ \E lv \in Levels, f \in Filters : Invalidate(lv, f)
        \/ \E i \in pend : AckInvalidate(i)
Spec == Init /\ [][Next]_vars

(* ------------------------------------------------------------------ properties *)
TypeOK == /\ DOMAIN pt \subseteq PIDs \X VPNs /\ \A k \in DOMAIN pt : pt[k] \in PPNs
          /\ \A s \in stale : s[1] \in PIDs /\ s[2] \in VPNs /\ s[3] \in PPNs /\ s[4] \in Levels /\ <<s[1], s[2], s[3]>> \in ever
          /\ paused \subseteq Levels /\ \A i \in pend : i.lv \in paused
          /\ \A r \in out : r.may \subseteq PPNs

OneAnswer == /\ \A r1 \in out : \A r2 \in out : r1.id = r2.id => r1 = r2
             /\ {r.id : r \in out} \cap done = {}
             /\ {r.id : r \in out} \cup done = 1..nreq

NoOldAfterAck == last.op = "ans" =>
    LET m == <<last.pid, last.vpn, last.ppn>> IN ~(m \in DOMAIN deadAt /\ last.id > deadAt[m])

AlwaysAnswerable == \A r \in out : Cur(pt, r.pid, r.vpn) \in r.may

(* a mapping never dies while some level may still hold it, and the current one never does *)
DeadIsDead == \A m \in DOMAIN deadAt : Cur(pt, m[1], m[2]) # m[3] /\ ~\E s \in stale : <<s[1], s[2], s[3]>> = m

(* --- deliberately false claims (control configurations) *)
NeverNonCurrent == last.op = "ans" => last.ppn = Cur(pt, last.pid, last.vpn)
NoFreshRequestOnDeadPage == ~\E r \in out : \E m \in DOMAIN deadAt : m[1] = r.pid /\ m[2] = r.vpn /\ r.id > deadAt[m]

(* --- behaviours for replay (simulation mode) *)
EmitBehaviour == IF Len(hist) = ScriptLen THEN PrintT(<<"BEHAVIOUR", ToJson(hist)>>) ELSE TRUE
=============================================================================
