---------------------------- MODULE MMUAllocJudge ----------------------------
(* C27 — judge of observations recorded from the real MMU (harness driver mmualloc).
   Each line of the ndjson file named by OBS_FILE is one finished run, in bytes:
   pre (the pre-populated pages), reqs (pid + page-aligned va of every request),
   table (every page of the real page table at quiescence), rsps (the answers).
   The statement's predicates are those of MMUAllocDefs, the same the model
   MMUAlloc.tla is checked against; a page counts as auto-allocated when its key
   (pid, va) was not pre-populated.  One state per observation; a VERDICT line is
   printed for every observation that contradicts the statement, JUDGED at the end. *)
EXTENDS Naturals, Sequences, FiniteSets, TLC, Json, IOUtils, MMUAllocDefs
Obs == ndJsonDeserialize(IOEnv.OBS_FILE)
VARIABLE i
Range(s) == {s[k] : k \in DOMAIN s}

PreKeyed(o, p) == \E q \in Range(o.pre) : SameKey(p, q)
AutoIdx(o) == {k \in DOMAIN o.table : ~PreKeyed(o, o.table[k])}

(* two table entries for one (pid, va) *)
DupKeys(o) == {<<k, l>> \in (DOMAIN o.table) \X (DOMAIN o.table) :
                 k < l /\ SameKey(o.table[k], o.table[l])}
(* an auto-allocated page overlapping the physical range of any other page *)
Alias(o) == {<<k, l>> \in AutoIdx(o) \X (DOMAIN o.table) :
               k # l /\ Overlap(o.table[k], o.table[l])}
(* a requested key without exactly one mapping *)
BadKeys(o) == {r \in Range(o.reqs) :
                 Cardinality({k \in DOMAIN o.table : SameKey(o.table[k], r)}) # 1}
(* an auto-allocated page that cannot hold a page *)
Degenerate(o) == {k \in AutoIdx(o) : o.table[k].size < o.page_bytes}
(* a pre-populated page that is gone or changed *)
PreLost(o) == {p \in Range(o.pre) : p \notin Range(o.table)}
(* answers: one per request, for the requested key, equal to the page in the table *)
RspOf(o, q) == {k \in DOMAIN o.rsps : o.rsps[k].req = q}
BadRsps(o) == {q \in DOMAIN o.reqs :
                 \/ Cardinality(RspOf(o, q)) # 1
                 \/ \E k \in RspOf(o, q) :
                      \/ ~SameKey(o.rsps[k].p, o.reqs[q])
                      \/ o.rsps[k].p \notin Range(o.table)}
Stray(o) == {k \in DOMAIN o.rsps : o.rsps[k].req \notin DOMAIN o.reqs}

Bad(o) == \/ DupKeys(o) # {} \/ Alias(o) # {} \/ BadKeys(o) # {} \/ Degenerate(o) # {}
          \/ PreLost(o) # {} \/ BadRsps(o) # {} \/ Stray(o) # {}

Verdict(o) == [id |-> o.id,
               dup |-> {<<o.table[p[1]], o.table[p[2]]>> : p \in DupKeys(o)},
               alias |-> {[a |-> o.table[p[1]], o |-> o.table[p[2]],
                           o_pre |-> ~(p[2] \in AutoIdx(o))] : p \in Alias(o)},
               badkeys |-> BadKeys(o),
               degenerate |-> {o.table[k] : k \in Degenerate(o)},
               prelost |-> PreLost(o),
               badrsps |-> BadRsps(o),
               stray |-> Stray(o)]

Init == i = 1
Next == i < Len(Obs) /\ i' = i + 1
Spec == Init /\ [][Next]_i
Report == (i <= Len(Obs) /\ Bad(Obs[i])) => PrintT(<<"VERDICT", ToJson(Verdict(Obs[i]))>>)
Judged == PrintT(<<"JUDGED", ToJson([n |-> Len(Obs), states |-> TLCGet("stats").distinct])>>)
==============================================================================
