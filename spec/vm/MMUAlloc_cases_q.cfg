SPECIFICATION CaseSpec
CONSTANTS
  PIDs = {1, 2}
  PreVAs = {4}
  ReqKeys <- ReqKeysSmall
  U = 2
  PreBases = {0, 1, 2, 3}
  PreSizes = {2, 4}
  MaxPre = 2
  MaxReq = 3
  AllocBases = {0}
  MaxInFlight = 1
INVARIANT OneMapping
CHECK_DEADLOCK FALSE
