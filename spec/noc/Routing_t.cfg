SPECIFICATION Spec
CONSTANTS
  MaxN = 5
  MaxN2 = 3
  MaxDev = 2
  RingSizes = {6, 7, 8}
  MeshDims <- MeshDimsThorough
ACTION_CONSTRAINT Emit
INVARIANT TypeOK
INVARIANT DistSound
INVARIANT DescentExists
INVARIANT MeshIsManhattan
PROPERTY Reuse
CHECK_DEADLOCK FALSE
