SPECIFICATION Spec
CONSTANTS
  FlitSizes = {1, 4, 16, 64}
  Overheads4 = {0, 1, 2, 4}
  Multiples = 16
  BigBytes = {4095, 4096, 4097, 65535, 65536, 65537, 1048575, 1048576, 1048577, 2097151, 2097153}
  MaxMsgs = 3
  MaxFlits = 3
ACTION_CONSTRAINT Emit
INVARIANT TypeOK
INVARIANT CountSound
INVARIANT DeliveredOnlyComplete
PROPERTY NoMerge
PROPERTY Lossless
CHECK_DEADLOCK FALSE
