--------------------------- MODULE RoutingExtra ---------------------------
(* Additional networks for Routing.tla beyond the exhaustively enumerated
   bound.  This default is empty; checks/c30.py runs TLC with a generated copy
   of this module that lists seeded random connected graphs on more switches
   (records [n, edges, place]: switches 1..n, links as two-element sets, device
   d on switch place[d]).  Routing.tla requires them to be connected and
   computes their distances itself.                                        *)
ExtraRaw == {}
===========================================================================
