SPECIFICATION NetSpec
CONSTANTS
  Ports = {"a", "b"}
  IDs = {1, 2}
  RspTos = {0, 7}
  Classes = {"x"}
  Sizes = {0, 64}
  MaxSends = 2
  Faults = {"misroute"}
INVARIANT NoForeignDelivery
CHECK_DEADLOCK FALSE
