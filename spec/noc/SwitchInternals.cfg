SPECIFICATION TSpec
CONSTRAINT Mark
POSTCONDITION TraceAccepted
CHECK_DEADLOCK FALSE
