--------------------------- MODULE SwitchInternals ---------------------------
(* Consistency conditions of the switches' and endpoints' own State — beyond the C29 statement.

   C29 demands that every message is delivered exactly once, unchanged, to the right port.
   The network achieves that with bookkeeping kept in the checkpointable State of its
   components: per-port route / forward / send-out buffers and a receive pipeline in every
   switch, a round-robin arbitration cursor, an endpoint's tables of messages waiting to be
   packetized, flits waiting to be sent, messages being reassembled and messages assembled
   but not yet delivered.  This module states, from the documented meaning of those State
   fields alone, what a sound State looks like.  It is a monitor over a trace of PROJECTED
   States (one record per sample: every switch and endpoint of a network after every N-th
   handled engine event and once more when the engine has stopped; the projection is in
   harness/internal/drivers/nettrace/internals.go): every rule is evaluated on every
   component that has the parts the rule needs (`have`); a failing rule prints one CASE
   record per (run, rule, component kind) and validation goes on.  A part the projection
   could not build because the State schema changed is absent from `have` (reported as
   DRIFT by the check, never as a failure).

   Rules
     buffer_capacity   every buffer embedded in a switch's State respects its capacity
     pipeline_shape    pipeline items sit in existing lanes and stages, one per (lane, stage)
     flit_once         a flit (and the switch-local task that follows it) is in at most one place inside a switch
     conservation      flits a switch has taken from its ports = flits it has sent + flits it holds (port hooks + State)
     arb_cursor        the arbitration cursor names one of the switch's ports
     arb_fair          round-robin: an input whose head flit waits while its output's send buffer has room is passed over
                       in at most (#ports - 1) consecutive ticks of the switch (heads compared before / after every tick
                       of a bounded window of the run)
     routed_as_table   an item queued for an output port is queued for the port the routing table names for its destination
     route_to_dst      an item's RouteTo is the destination of the message its flit carries
     asm_count         an assembling entry has between 1 and NumFlitRequired flits
     asm_seen          ... exactly as many as distinct sequence numbers of that message were retrieved from the network port
     asm_unique        no two assembling entries for one message ID
     assembled_order   assembled-but-undelivered messages are in arrival order (tick in which the last flit arrived, then
                       arrival of the first flit — the order assembling entries are kept in)
     settled_empty     when the engine has stopped with every message delivered, all of these are empty *)
EXTENDS Integers, Sequences, FiniteSets, TLC, TraceCommon
VARIABLES l, run, bad
tvars == <<l, run, bad>>
Ev == Trace[l]

Range(s) == {s[i] : i \in 1..Len(s)}
Distinct(s) == Cardinality(Range(s)) = Len(s)
Before(a, b) == a.done < b.done \/ (a.done = b.done /\ a.first <= b.first)

Rules(c, settled) == <<
  [rule |-> "buffer_capacity", needs |-> {"bufs"}, ok |-> \A b \in Range(c.bufs) : b.n <= b.cap],
  [rule |-> "pipeline_shape", needs |-> {"pipes"},
   ok |-> \A p \in Range(c.pipes) :
            /\ \A i \in 1..Len(p.items) : /\ p.items[i].lane >= 0 /\ p.items[i].lane < p.width
                                          /\ p.items[i].stage >= 0 /\ p.items[i].stage < p.stages
            /\ \A i, j \in 1..Len(p.items) : i # j => <<p.items[i].lane, p.items[i].stage>> # <<p.items[j].lane, p.items[j].stage>>],
  [rule |-> "flit_once", needs |-> {"flits"}, ok |-> Distinct(c.flits) /\ Distinct(c.tasks)],
  [rule |-> "conservation", needs |-> {"counts"}, ok |-> c.recv = c.sent + c.held],
  [rule |-> "arb_cursor", needs |-> {"arb"}, ok |-> c.arb.cursor >= 0 /\ c.arb.cursor < c.arb.nports],
  [rule |-> "arb_fair", needs |-> {"arb", "arb_track"}, ok |-> c.arb.max_skip <= c.arb.nports - 1],
  [rule |-> "routed_as_table", needs |-> {"routed"}, ok |-> \A r \in Range(c.routed) : r.out = r.want],
  [rule |-> "route_to_dst", needs |-> {"route_to"}, ok |-> \A r \in Range(c.route_to) : r.to = r.dst],
  [rule |-> "asm_count", needs |-> {"asm"}, ok |-> \A a \in Range(c.asm) : a.arrived >= 1 /\ a.arrived <= a.required],
  [rule |-> "asm_seen", needs |-> {"asm", "seen"}, ok |-> \A a \in Range(c.asm) : a.arrived = a.seen],
  [rule |-> "asm_unique", needs |-> {"asm"}, ok |-> \A i, j \in 1..Len(c.asm) : i # j => c.asm[i].id # c.asm[j].id],
  [rule |-> "assembled_order", needs |-> {"assembled", "assembled_order"},
   ok |-> \A i \in 1..(Len(c.assembled) - 1) : Before(c.assembled[i], c.assembled[i + 1])],
  [rule |-> "settled_empty", needs |-> {},
   ok |-> settled =>
          /\ "bufs" \in Range(c.have) => \A b \in Range(c.bufs) : b.n = 0
          /\ "pipes" \in Range(c.have) => \A p \in Range(c.pipes) : p.items = <<>>
          /\ "asm" \in Range(c.have) => c.asm = <<>>
          /\ "assembled" \in Range(c.have) => c.assembled = <<>>
          /\ "outgoing" \in Range(c.have) => (c.nout = 0 /\ c.nflits = 0)]
>>

Failing(c, settled) == LET rs == Rules(c, settled) IN
    {rs[k].rule : k \in {j \in 1..Len(rs) : rs[j].needs \subseteq Range(c.have) /\ ~rs[j].ok}}

Report(rule, c, n) == PrintT(<<"CASE", ToJson([rule |-> rule, run |-> run', l |-> l, n |-> n, comp |-> c.name, kind |-> c.kind, state |-> c])>>)

TInit == l = 1 /\ run = 0 /\ bad = {} /\ TraceMarkInit
TState == /\ Ev.e = "state"
          /\ run' = Ev.run
          /\ LET old == IF Ev.run = run THEN bad ELSE {}
                 per == [k \in 1..Len(Ev.comps) |-> Failing(Ev.comps[k], Ev.settled)]
                 real == UNION {{<<r, Ev.comps[k].kind, k>> : r \in per[k]} : k \in 1..Len(Ev.comps)}
                 (* one report per (rule, component kind) and run: the first component that fails *)
                 new == {f \in real : <<f[1], f[2]>> \notin old /\ \A g \in real : (g[1] = f[1] /\ g[2] = f[2]) => g[3] >= f[3]} IN
             /\ \A f \in new : Report(f[1], Ev.comps[f[3]], Ev.n)
             /\ bad' = old \cup {<<f[1], f[2]>> : f \in real}
TNext == l <= TraceLen /\ l' = l + 1 /\ TState
TSpec == TInit /\ [][TNext]_tvars
Mark == TraceMark(l)
=============================================================================
