SPECIFICATION NetSpec
CONSTANTS
  Ports = {"a", "b", "c"}
  IDs = {1, 2, 3, 4}
  RspTos = {0}
  Classes = {"x"}
  Sizes = {0, 64}
  MaxSends = 3
  Faults = {}
INVARIANT TypeOK
INVARIANT Conservation
INVARIANT AtMostOnce
INVARIANT NoForeignDelivery
INVARIANT ExactlyOnceAtRest
PROPERTY MetadataIntact
PROPERTY DeliveryConsumes
CHECK_DEADLOCK FALSE
