SPECIFICATION Spec
CONSTANTS
  FlitSizes = {1, 4, 16, 64}
  Overheads4 = {0, 1, 2, 4}
  Multiples = 4
  BigBytes = {4095, 4096, 4097, 65535, 65536, 65537}
  MaxMsgs = 3
  MaxFlits = 3
ACTION_CONSTRAINT Emit
INVARIANT TypeOK
INVARIANT CountSound
INVARIANT DeliveredOnlyComplete
PROPERTY NoMerge
PROPERTY Lossless
CHECK_DEADLOCK FALSE
