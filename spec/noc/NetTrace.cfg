SPECIFICATION TSpec
CONSTANTS
  Ports = {}
  IDs = {}
  RspTos = {}
  Classes = {}
  Sizes = {}
  MaxSends = 0
  Faults = {}
INVARIANT NoForeignDelivery
CONSTRAINT Mark
POSTCONDITION TraceAccepted
CHECK_DEADLOCK FALSE
