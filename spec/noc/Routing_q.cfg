SPECIFICATION Spec
CONSTANTS
  MaxN = 4
  MaxN2 = 3
  MaxDev = 2
  RingSizes = {5, 6}
  MeshDims <- MeshDimsQuick
ACTION_CONSTRAINT Emit
INVARIANT TypeOK
INVARIANT DistSound
INVARIANT DescentExists
INVARIANT MeshIsManhattan
PROPERTY Reuse
CHECK_DEADLOCK FALSE
