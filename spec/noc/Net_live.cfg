SPECIFICATION NetSpec
CONSTANTS
  Ports = {"a", "b"}
  IDs = {1, 2}
  RspTos = {0, 7}
  Classes = {"x"}
  Sizes = {0, 64}
  MaxSends = 2
  Faults = {}
INVARIANT TypeOK
INVARIANT Conservation
INVARIANT AtMostOnce
INVARIANT NoForeignDelivery
INVARIANT ExactlyOnceAtRest
PROPERTY MetadataIntact
PROPERTY DeliveryConsumes
PROPERTY EventuallyDelivered
CHECK_DEADLOCK FALSE
