------------------------------ MODULE NetTrace ------------------------------
(* B2 for C29: the send / delivery events recorded at the device ports of real
   networks (mesh, PCIe, NVLink and generic connectors) are stepped through the
   actions of Net.tla. A delivery that Net!Deliver admits is taken as that action;
   a delivery it does not admit is a rule failure: a CASE record naming the rule is
   printed, the state is repaired so that checking goes on, and the trace continues.

     foreign_delivery           the record in flight was handed to a port other than its Dst
     metadata_changed           a record with this ID is in flight but some field differs (fields listed)
     duplicate_delivery         the ID was delivered before and is not in flight
     phantom_delivery           no message with this ID was ever sent
     undelivered_at_quiescence  mesh / tree network, devices drained, event queue empty, messages still in flight
     not_quiescent_within_bound mesh / tree network still busy far beyond the time the traffic needs

   Records: net (configuration: kind, class, ports, must), send, recv, quiesce.       *)
EXTENDS Net, Integers, Sequences, TraceCommon
VARIABLES cfgv, l
tvars == <<flight, done, nsent, last, cfgv, l>>
Ev == Trace[l]

Report(class, d) == PrintT(<<"CASE", ToJson([class |-> class, l |-> l, net |-> cfgv.id, d |-> d])>>)
Soft(cond, class, d) == IF cond THEN TRUE ELSE Report(class, d)
Rec(r) == Msg(r.id, r.src, r.dst, r.rspto, r.class, r.bytes)
SomeOf(S, n) == IF Cardinality(S) <= n THEN S ELSE {CHOOSE x \in S : TRUE}

TInit == NetInit /\ cfgv = [id |-> -1, must |-> FALSE, ports |-> {}, kind |-> "", class |-> ""] /\ l = 1 /\ TraceMarkInit

TNet == /\ Ev.e = "net"
        /\ cfgv' = [id |-> Ev.id, must |-> Ev.must, ports |-> {Ev.ports[i] : i \in 1..Len(Ev.ports)}, kind |-> Ev.kind, class |-> Ev.class]
        /\ flight' = EmptyBag /\ done' = EmptyBag /\ nsent' = 0 /\ last' = [e |-> "init", p |-> "", m |-> NoMsg]

(* a send that the port accepted: the network of the statement accepts it too *)
TSend == /\ Ev.e = "send" /\ Ev.p \in cfgv.ports
         /\ LET m == Rec(Ev.m) IN
            IF CanSend(flight, done, Ev.p, m) THEN Send(Ev.p, m)
            ELSE /\ Report("driver_sent_reused_id_or_wrong_src", [p |-> Ev.p, m |-> m])
                 /\ UNCHANGED <<flight, done, nsent, last>>
         /\ UNCHANGED cfgv

Differing(a, b) == {f \in Fields : a[f] # b[f]}
TRecv == /\ Ev.e = "recv"
         /\ LET p == Ev.p
                m == Rec(Ev.m)
                same == {x \in BagToSet(flight) : x.ID = m.ID}
            IN IF CanDeliver(flight, p, m) THEN Deliver(p, m)
               ELSE IF same # {} THEN
                    LET x == CHOOSE y \in same : TRUE IN
                    /\ IF x = m THEN Report("foreign_delivery", [to |-> p, m |-> m])
                       ELSE Report("metadata_changed", [to |-> p, sent |-> x, got |-> m, fields |-> Differing(x, m)])
                    /\ (x # m /\ p # x.Dst) => Report("foreign_delivery", [to |-> p, m |-> x])
                    /\ flight' = flight (-) One(x) /\ done' = done (+) One(m.ID)
                    /\ UNCHANGED <<nsent, last>>      \* not a delivery of Net: `last` keeps the last admitted event
               ELSE IF BagIn(m.ID, done) THEN
                    /\ Report("duplicate_delivery", [to |-> p, m |-> m, times |-> CopiesIn(m.ID, done) + 1])
                    /\ done' = done (+) One(m.ID) /\ UNCHANGED <<flight, nsent, last>>
               ELSE /\ Report("phantom_delivery", [to |-> p, m |-> m])
                    /\ UNCHANGED <<flight, done, nsent, last>>
         /\ UNCHANGED cfgv

TQuiesce == /\ Ev.e = "quiesce"
            /\ Soft(~cfgv.must \/ Ev.quiescent, "not_quiescent_within_bound",
                    [inflight |-> BagCardinality(flight), unsent |-> Ev.unsent, t |-> Ev.t])
            /\ Soft(~(cfgv.must /\ Ev.drained) \/ flight = EmptyBag, "undelivered_at_quiescence",
                    [inflight |-> BagCardinality(flight), unsent |-> Ev.unsent, example |-> SomeOf(BagToSet(flight), 1), t |-> Ev.t])
            /\ UNCHANGED <<flight, done, nsent, last, cfgv>>

TNext == l <= TraceLen /\ l' = l + 1 /\ (TNet \/ TSend \/ TRecv \/ TQuiesce)
TSpec == TInit /\ [][TNext]_tvars
Mark == TraceMark(l)
(* Net's invariants over the tracked state; they hold at every step of a trace whose
   deliveries were all admitted by Net!Deliver (a repaired step may break AtMostOnce,
   which is then already reported) *)
TConservation == nsent = BagCardinality(flight) + BagCardinality(done) \/ cfgv.id = -1
=============================================================================
