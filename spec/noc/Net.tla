-------------------------------- MODULE Net --------------------------------
(* C29 — a network as the statement describes it: a multiset of in-flight messages
   carrying their full metadata. A device sends a message at one of its ports; the
   network may deliver an in-flight message, and only to the device port named by
   its destination, as the very record that was sent; delivering removes it.

   State kept small on purpose (NetTrace.tla steps these very actions over recorded
   traces of thousands of messages): the in-flight bag, the bag of IDs delivered so
   far, the number of sends, and the last event.

   What TLC checks on the tiny instance (Net_q.cfg / Net_t.cfg):
     Conservation        sends = in flight + delivered (nothing lost, nothing invented)
     AtMostOnce          no ID is delivered twice, and a delivered ID is not in flight again
     NoForeignDelivery   every delivery is to the port named by the message's destination
     MetadataIntact      a delivery hands over exactly a record that was in flight
                         (ID, Src, Dst, RspTo, TrafficClass, TrafficBytes all unchanged)
     ExactlyOnceAtRest   when nothing is in flight every sent ID has been delivered once
     EventuallyDelivered under fair delivery (devices keep draining, the network keeps
                         moving) the network empties again and again
   The control configurations (Net_drop / dup / misroute / corrupt.cfg) switch one
   fault action on; TLC must then report the matching property violated.           *)
EXTENDS Naturals, FiniteSets, Bags, TLC
CONSTANTS Ports,      \* device ports
          IDs,        \* message identifiers (a sender uses a fresh one per message)
          RspTos, Classes, Sizes,   \* metadata domains of the tiny instance
          MaxSends,
          Faults      \* {} for the network of the statement; control configurations add one fault
VARIABLES flight,     \* bag of in-flight message records
          done,       \* bag of delivered IDs
          nsent,      \* number of sends so far
          last        \* last event: [e |-> "init" | "send" | "dlv", p |-> port, m |-> record]
nvars == <<flight, done, nsent, last>>

Fields == {"ID", "Src", "Dst", "RspTo", "TrafficClass", "TrafficBytes"}
Msg(id, s, d, r, c, b) == [ID |-> id, Src |-> s, Dst |-> d, RspTo |-> r, TrafficClass |-> c, TrafficBytes |-> b]
One(x) == SetToBag({x})
NoMsg == [ID |-> 0]

(* ---- the operators the trace specification shares ---- *)
InFlightIDs(f) == {m.ID : m \in BagToSet(f)}
CanSend(f, d, p, m) == m.Src = p /\ m.Dst # p /\ m.ID \notin InFlightIDs(f) /\ ~BagIn(m.ID, d)
CanDeliver(f, p, m) == BagIn(m, f) /\ p = m.Dst

NetInit == /\ flight = EmptyBag /\ done = EmptyBag /\ nsent = 0
           /\ last = [e |-> "init", p |-> "", m |-> NoMsg]

Send(p, m) == /\ CanSend(flight, done, p, m)
              /\ flight' = flight (+) One(m)
              /\ nsent' = nsent + 1
              /\ last' = [e |-> "send", p |-> p, m |-> m]
              /\ UNCHANGED done

Deliver(p, m) == /\ CanDeliver(flight, p, m)
                 /\ flight' = flight (-) One(m)
                 /\ done' = done (+) One(m.ID)
                 /\ last' = [e |-> "dlv", p |-> p, m |-> m]
                 /\ UNCHANGED nsent

(* ---- faults, for the control configurations only ---- *)
Drop(m) == /\ "drop" \in Faults /\ BagIn(m, flight)
           /\ flight' = flight (-) One(m) /\ UNCHANGED <<done, nsent, last>>
Dup(m) == /\ "dup" \in Faults /\ BagIn(m, flight)
          /\ done' = done (+) One(m.ID) /\ last' = [e |-> "dlv", p |-> m.Dst, m |-> m]
          /\ UNCHANGED <<flight, nsent>>
Misroute(p, m) == /\ "misroute" \in Faults /\ BagIn(m, flight) /\ p # m.Dst
                  /\ flight' = flight (-) One(m) /\ done' = done (+) One(m.ID)
                  /\ last' = [e |-> "dlv", p |-> p, m |-> m] /\ UNCHANGED nsent
Corrupt(m, b) == /\ "corrupt" \in Faults /\ BagIn(m, flight) /\ b # m.TrafficBytes
                 /\ flight' = flight (-) One(m) /\ done' = done (+) One(m.ID)
                 /\ last' = [e |-> "dlv", p |-> m.Dst, m |-> [m EXCEPT !.TrafficBytes = b]] /\ UNCHANGED nsent

MsgSpace == {Msg(id, s, d, r, c, b) : id \in IDs, s \in Ports, d \in Ports, r \in RspTos, c \in Classes, b \in Sizes}
DeliverAny == \E p \in Ports, m \in BagToSet(flight) : Deliver(p, m)
NetNext == \/ nsent < MaxSends /\ \E p \in Ports, m \in MsgSpace : Send(p, m)
           \/ DeliverAny
           \/ \E m \in BagToSet(flight) : Drop(m) \/ Dup(m)
           \/ \E m \in BagToSet(flight), p \in Ports : Misroute(p, m)
           \/ \E m \in BagToSet(flight), b \in Sizes : Corrupt(m, b)
NetSpec == NetInit /\ [][NetNext]_nvars /\ WF_nvars(DeliverAny)

(* ---- properties ---- *)
TypeOK == /\ IsABag(flight) /\ IsABag(done) /\ nsent \in 0..MaxSends
          /\ BagToSet(flight) \subseteq MsgSpace
Conservation == nsent = BagCardinality(flight) + BagCardinality(done)
AtMostOnce == /\ \A id \in BagToSet(done) : CopiesIn(id, done) = 1 /\ id \notin InFlightIDs(flight)
              /\ \A m \in BagToSet(flight) : CopiesIn(m, flight) = 1
NoForeignDelivery == last.e = "dlv" => last.p = last.m.Dst
(* a delivery step hands over a record that was in flight in the state before *)
MetadataIntact == [][last'.e = "dlv" /\ done' # done => BagIn(last'.m, flight)]_nvars
DeliveryConsumes == [][done' # done => /\ \E m \in BagToSet(flight) : flight' = flight (-) One(m) /\ done' = done (+) One(m.ID)
                                      /\ BagCardinality(done') = BagCardinality(done) + 1]_nvars
ExactlyOnceAtRest == flight = EmptyBag => BagCardinality(done) = nsent /\ \A id \in BagToSet(done) : CopiesIn(id, done) = 1
EventuallyDelivered == []<>(flight = EmptyBag)
(* non-vacuity: the tiny instance really reaches full load and real deliveries *)
ReachesLoad == ~(nsent = MaxSends /\ BagCardinality(done) = MaxSends)
=============================================================================
