---------------------------- MODULE Routing ----------------------------
(* C30 — what "loop-free shortest routes to every device" means.

   A network is an undirected connected graph of switches; devices hang off
   switches.  The specification defines the hop distance between switches
   from the *statement*: the number of links on a shortest path, computed by
   growing balls around the source (breadth first; no Floyd–Warshall, no
   next-hop table).  Following routing tables from switch s towards a device
   on switch t must traverse exactly Dist(s,t) switch-to-switch links, never
   visit a switch twice, and then leave through the link to the device.

   Two kinds of networks are enumerated:
     "graph" : every connected labelled graph on 1..MaxN switches with
               1..MaxDev devices placed on arbitrary switches; beyond that
               bound, rings on RingSizes switches and the (seeded random
               connected) graphs listed by module RoutingExtra;
     "mesh"  : X*Y*Z grids (dims in MeshDims), adjacency = coordinates differ
               by one in exactly one dimension, one device per tile; here the
               specification additionally checks that the shortest distance
               IS the Manhattan distance.
   A behaviour has one or two steps: the first network built with a
   connector, then (for networks with at most MaxN2 switches / every mesh)
   a second network built with the same connector.  What the second network's
   tables must be does not depend on the first one (Reuse).

   TLC checks the distance function on every enumerated network (DistSound)
   and emits one CASE per first network and one BEHAVIOUR per sequence.  *)
EXTENDS Naturals, Integers, Sequences, FiniteSets, TLC, Json, RoutingExtra
CONSTANTS MaxN, MaxN2, MaxDev, MeshDims,
          RingSizes   \* rings (cycles) on that many switches, beyond MaxN
VARIABLES net, first, phase
vars == <<net, first, phase>>

(* ---------- graphs and distances (independent of the code) ---------- *)
Pairs(N) == {{u, v} : u \in N, v \in N} \ {{u} : u \in N}
Nbrs(E, u) == {v \in UNION E : {u, v} \in E /\ v # u}

RECURSIVE Ball(_, _, _)
(* switches reachable from u over at most k links *)
Ball(E, u, k) == IF k = 0 THEN {u}
                 ELSE LET B == Ball(E, u, k - 1) IN B \cup UNION {Nbrs(E, w) : w \in B}

Connected(N, E) == LET u == CHOOSE x \in N : TRUE IN Ball(E, u, Cardinality(N)) = N

RECURSIVE Layers(_, _, _, _)
(* {<<v, k>>} : v is first reached from the source after exactly k links; the
   frontier grows one link at a time from the switches seen so far *)
Layers(E, seen, frontier, k) ==
  IF frontier = {} THEN {}
  ELSE LET seen2 == seen \cup frontier IN
       {<<v, k>> : v \in frontier}
         \cup Layers(E, seen2, (UNION {Nbrs(E, w) : w \in frontier}) \ seen2, k + 1)

(* least number of links between u and every v *)
DistFrom(n, E, u) == LET L == Layers(E, {}, {u}, 0) IN
                     [v \in 1..n |-> CHOOSE k \in 0..n : <<v, k>> \in L]
DistMatrix(n, E) == [u \in 1..n |-> DistFrom(n, E, u)]

Min(S) == CHOOSE x \in S : \A y \in S : x <= y
Abs(i) == IF i < 0 THEN -i ELSE i

(* ---------- meshes ---------- *)
Coord(d, i) == <<(i - 1) % d[1], ((i - 1) \div d[1]) % d[2], (i - 1) \div (d[1] * d[2])>>
Manhattan(a, b) == Abs(a[1] - b[1]) + Abs(a[2] - b[2]) + Abs(a[3] - b[3])
MeshN(d) == d[1] * d[2] * d[3]
(* neighbouring tiles differ by one in exactly one coordinate *)
Adjacent(a, b) == \E k \in 1..3 : /\ Abs(a[k] - b[k]) = 1
                                  /\ \A j \in (1..3) \ {k} : a[j] = b[j]
MeshEdges(d) == {e \in Pairs(1..MeshN(d)) :
                   \E i \in e : \E j \in e : i # j /\ Adjacent(Coord(d, i), Coord(d, j))}

MeshBox(X, Y, Z) == {<<x, y, z>> : x \in 1..X, y \in 1..Y, z \in 1..Z}
(* configuration values for MeshDims (cfg files cannot write tuples) *)
MeshDimsQuick == {d \in MeshBox(3, 3, 2) : d[1] >= d[2]} \cup {<<1, 2, 1>>, <<2, 3, 1>>}
MeshDimsThorough == MeshBox(3, 3, 2) \cup {<<9, 1, 1>>, <<1, 9, 1>>, <<1, 1, 3>>, <<2, 2, 3>>}

MeshNet(d) == LET n == MeshN(d) E == MeshEdges(d) IN
  [kind |-> "mesh", n |-> n, edges |-> E, place |-> [i \in 1..n |-> i],
   dims |-> d, coords |-> [i \in 1..n |-> Coord(d, i)], dist |-> DistMatrix(n, E)]

GraphNet(b, p) ==
  [kind |-> "graph", n |-> b.n, edges |-> b.edges, place |-> p,
   dims |-> <<0, 0, 0>>, coords |-> <<>>, dist |-> b.dist]

(* every connected labelled graph on 1..maxn switches, with its distances *)
GraphBases(maxn) ==
  UNION {{[n |-> n, edges |-> E, dist |-> DistMatrix(n, E)] :
            E \in {F \in SUBSET Pairs(1..n) : Connected(1..n, F)}} : n \in 1..maxn}
(* ... with 1..MaxDev devices on arbitrary switches *)
GraphNetSet(maxn) ==
  UNION {{GraphNet(b, p) : p \in UNION {[1..k -> 1..b.n] : k \in 1..MaxDev}} : b \in GraphBases(maxn)}

(* rings larger than the exhaustive bound, every placement of the devices *)
RingEdges(n) == {{i, (i % n) + 1} : i \in 1..n}
RingNets ==
  UNION {LET b == [n |-> n, edges |-> RingEdges(n), dist |-> DistMatrix(n, RingEdges(n))] IN
         {GraphNet(b, p) : p \in UNION {[1..k -> 1..n] : k \in 1..MaxDev}} : n \in RingSizes}
(* networks listed by RoutingExtra (seeded random connected graphs) *)
ASSUME \A x \in ExtraRaw : /\ x.edges \subseteq Pairs(1..x.n)
                           /\ Connected(1..x.n, x.edges)
                           /\ \A d \in DOMAIN x.place : x.place[d] \in 1..x.n
ExtraNets == {GraphNet([n |-> x.n, edges |-> x.edges, dist |-> DistMatrix(x.n, x.edges)], x.place) : x \in ExtraRaw}

(* ---------- behaviours ---------- *)
MeshNets == {MeshNet(d) : d \in MeshDims}
FirstNets == GraphNetSet(MaxN) \cup MeshNets \cup RingNets \cup ExtraNets
SecondGraphNets == GraphNetSet(MaxN2)

None == [kind |-> "none"]

Init == /\ phase = 1
        /\ first = None
        /\ net \in FirstNets
        /\ PrintT(<<"CASE", ToJson(net)>>)

(* the same connector is asked for a new network *)
NewNetwork == /\ phase = 1
              /\ phase' = 2
              /\ first' = net
              /\ \/ net.kind = "graph" /\ net.n <= MaxN2 /\ net' \in SecondGraphNets
                 \/ net.kind = "mesh" /\ net' \in MeshNets

Next == NewNetwork
Spec == Init /\ [][Next]_vars

(* a sequence is emitted by the identities of its two networks; the distance
   matrices are those of the CASE lines with the same identity *)
Ident(x) == [kind |-> x.kind, n |-> x.n, edges |-> x.edges, place |-> x.place, dims |-> x.dims]
Emit == PrintT(<<"BEHAVIOUR", ToJson(<<Ident(first'), Ident(net')>>)>>)

(* ---------- what TLC checks on the specification itself ---------- *)
TypeOK == /\ phase \in {1, 2}
          /\ net.n \in Nat \ {0}
          /\ \A d \in DOMAIN net.place : net.place[d] \in 1..net.n

(* the distance of the statement is the graph metric: zero exactly on the
   diagonal, symmetric, one exactly on links, triangle inequality, and it
   satisfies the shortest-path (Bellman) equations, which have a unique
   solution on a connected graph *)
DistSound ==
  LET n == net.n  D == net.dist  E == net.edges IN
  /\ \A u \in 1..n : D[u][u] = 0
  /\ \A u, v \in 1..n : /\ D[u][v] = D[v][u]
                        /\ (D[u][v] = 0) <=> (u = v)
                        /\ (D[u][v] = 1) <=> ({u, v} \in E /\ u # v)
                        /\ D[u][v] <= n - 1
                        /\ \A w \in 1..n : D[u][v] <= D[u][w] + D[w][v]
                        /\ u # v => D[u][v] = 1 + Min({D[w][v] : w \in Nbrs(E, u)})

(* hence a walk that always steps to a neighbour that is one closer reaches
   the target in exactly D steps and cannot revisit a switch *)
DescentExists ==
  LET n == net.n  D == net.dist  E == net.edges IN
  \A u, v \in 1..n : u # v => \E w \in Nbrs(E, u) : D[w][v] = D[u][v] - 1

(* mesh routing: the shortest distance between tiles is the Manhattan distance *)
MeshIsManhattan ==
  net.kind = "mesh" =>
     \A i, j \in 1..net.n : net.dist[i][j] = Manhattan(net.coords[i], net.coords[j])

(* a reused connector: the requirement on the second network is that of a
   first network — the specification of `net` never mentions `first` *)
Reuse == [][phase' = 2 /\ first' = net /\ net' \in FirstNets]_vars
=======================================================================
