---------------------------- MODULE Endpoint ----------------------------
(* C31 — endpoints packetize and reassemble losslessly.

   Part "count": a message of B traffic bytes, sent with a fractional encoding
   overhead o (extra bytes per byte; o = o4/4 so that everything stays in the
   integers) through flits of F bytes, is split into the least number n >= 1 of
   flits that can carry its encoded size B*(1+o):   n*F >= B*(1+o).
   This is the definition of the statement ("the number of flits its encoded
   size requires (at least one)"); no rounding formula of the code appears.

   Part "asm": the receiving side.  A configuration is a sequence `shape` of
   2..MaxMsgs messages in flight, message m consisting of shape[m] flits.
   Flits arrive one at a time in ANY order (interleaved between messages and
   reordered within a message).  A message is delivered to its device port
   at some later point, once, and only when all of its flits have arrived.
   TLC explores the complete state graph of every configuration, checks the
   safety and liveness properties below and emits the graph (INIT/EDGE); the
   check replays every arrival order on a real endpoint and validates the
   observed interleaving of arrivals and deliveries against this graph.     *)
EXTENDS Naturals, Integers, Sequences, FiniteSets, TLC, Json
CONSTANTS FlitSizes,    \* flit sizes in bytes
          Overheads4,   \* encoding overheads in quarters: 0, 1/4, 1/2, 1
          Multiples,    \* byte counts 0 .. Multiples*F+1 for flit size F
          BigBytes,     \* a few large byte counts (used with flit sizes >= 16 only)
          MaxMsgs, MaxFlits
VARIABLES mode, cnt, shape, arrived, delivered
vars == <<mode, cnt, shape, arrived, delivered>>

(* ------------------------------ part "count" ------------------------------ *)
Enc4(B, o4) == B * (4 + o4)                 \* four times the encoded size
Carries(n, F, B, o4) == n * F * 4 >= Enc4(B, o4)
Least(S) == CHOOSE x \in S : \A y \in S : x <= y
(* the least n >= 1 such that n flits carry the encoded message; the candidates
   around the quotient are enough because Carries is monotone in n (CountSound
   checks that the chosen n really is the least) *)
NumFlits(B, o4, F) == LET q == Enc4(B, o4) \div (4 * F) IN
                      Least({n \in {1, q, q + 1} : n >= 1 /\ Carries(n, F, B, o4)})

ByteCounts(F) == (0..(Multiples * F + 1)) \cup (IF F >= 16 THEN BigBytes ELSE {})
CountCases == UNION {{[bytes |-> B, o4 |-> o, flit |-> F, flits |-> NumFlits(B, o, F)] :
                         B \in ByteCounts(F), o \in Overheads4} : F \in FlitSizes}
NoCase == [bytes |-> 0, o4 |-> 0, flit |-> 1, flits |-> 1]

(* ------------------------------- part "asm" ------------------------------- *)
Shapes == UNION {[1..k -> 1..MaxFlits] : k \in 2..MaxMsgs}
Msgs == DOMAIN shape
Complete(m) == arrived[m] = 1..shape[m]

St  == [shape |-> shape, arrived |-> arrived, delivered |-> delivered]
St2 == [shape |-> shape', arrived |-> arrived', delivered |-> delivered']

InitCount == /\ mode = "count"
             /\ cnt \in CountCases
             /\ shape = <<>> /\ arrived = <<>> /\ delivered = <<>>
             /\ PrintT(<<"CASE", ToJson(cnt)>>)
InitAsm == /\ mode = "asm"
           /\ cnt = NoCase
           /\ shape \in Shapes
           /\ arrived = [m \in DOMAIN shape |-> {}]
           /\ delivered = [m \in DOMAIN shape |-> 0]
           /\ PrintT(<<"INIT", ToJson(St)>>)
Init == InitCount \/ InitAsm

(* flit i of message m reaches the endpoint's network port *)
Arrive(m, i) == /\ i \notin arrived[m]
                /\ arrived' = [arrived EXCEPT ![m] = @ \cup {i}]
                /\ UNCHANGED delivered
(* the endpoint hands the reassembled message m to its device port *)
Deliver(m) == /\ Complete(m)
              /\ delivered[m] = 0
              /\ delivered' = [delivered EXCEPT ![m] = 1]
              /\ UNCHANGED arrived

Next == /\ mode = "asm"
        /\ UNCHANGED <<mode, cnt, shape>>
        /\ \E m \in Msgs : \/ Deliver(m)
                           \/ \E i \in 1..shape[m] : Arrive(m, i)
Spec == Init /\ [][Next]_vars /\ WF_vars(Next)

(* the label of a step, read off the two states *)
StepLabel ==
  IF \E m \in Msgs : delivered'[m] # delivered[m]
  THEN [op |-> "deliver", m |-> CHOOSE m \in Msgs : delivered'[m] # delivered[m]]
  ELSE LET m == CHOOSE x \in Msgs : arrived'[x] # arrived[x] IN
       [op |-> "arrive", m |-> m, i |-> CHOOSE i \in arrived'[m] : i \notin arrived[m]]
Emit == PrintT(<<"EDGE", ToJson([s |-> St, a |-> StepLabel, t |-> St2])>>)

(* ------------------- what TLC checks on the specification ------------------- *)
TypeOK == /\ mode \in {"count", "asm"}
          /\ \A m \in Msgs : arrived[m] \subseteq 1..shape[m] /\ delivered[m] \in {0, 1}

(* the flit count is at least one, enough, and not one more than enough;
   it never decreases when a byte is added and grows by at most what one
   encoded byte can add *)
CountSound ==
  mode = "count" =>
    LET B == cnt.bytes  o == cnt.o4  F == cnt.flit  n == cnt.flits IN
    /\ n >= 1
    /\ Carries(n, F, B, o)
    /\ n > 1 => ~Carries(n - 1, F, B, o)
    /\ B = 0 => n = 1
    /\ n * F >= B
    /\ B > 0 => /\ NumFlits(B - 1, o, F) <= n
                /\ n <= NumFlits(B - 1, o, F) + 2
    /\ o = 0 /\ B > 0 => (n - 1) * F < B

(* delivered only when complete, and never twice (Deliver is disabled afterwards) *)
DeliveredOnlyComplete == \A m \in Msgs : delivered[m] = 1 => Complete(m)
(* a step is either one arrival or one delivery, and concerns exactly one
   message: what has arrived for the others and what has been delivered to the
   others is untouched — messages do not merge; a delivery happens only for a
   complete, not yet delivered message *)
NoMerge == [][\E m \in Msgs :
                 /\ \A x \in Msgs \ {m} : arrived'[x] = arrived[x] /\ delivered'[x] = delivered[x]
                 /\ \/ /\ delivered'[m] = delivered[m]
                       /\ \E i \in 1..shape[m] : i \notin arrived[m] /\ arrived'[m] = arrived[m] \cup {i}
                    \/ /\ arrived'[m] = arrived[m]
                       /\ Complete(m) /\ delivered[m] = 0 /\ delivered'[m] = 1]_vars
(* every message is eventually delivered (lossless) *)
Lossless == (mode = "asm") => <>(\A m \in Msgs : delivered[m] = 1)
=======================================================================
