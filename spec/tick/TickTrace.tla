------------------------------ MODULE TickTrace ------------------------------
(* B2 for C09, C10, C12 (and the port-capacity part of C11): the abstract rules the
   statements give, evaluated over a trace recorded from real ticking / event-driven
   components, real ports and real direct connections on the real serial engine.

   The specification is a monitor: structural steps (who is active, buffer contents,
   per-channel order) are tracked exactly; each rule of a statement is a soft check
   that prints a CASE record naming the rule and the position when it fails, and the
   trace goes on being checked.  A trace that does not even fit the structure
   (unknown port, malformed record) is rejected.

     C12  tick_off_edge, tick_twice_in_instant, retick_after_progress_missed,
          retick_after_progress_never_happened, tick_after_notification_never_happened
     C10  foreign_delivery, out_of_order_or_duplicate_delivery, message_lost_in_connection,
          outgoing_not_fifo, incoming_not_fifo
     C11  incoming_over_capacity, outgoing_over_capacity, size_mismatch
     C09  stranded_deliverable (stranded_send_after_same_instant_conn_tick is the W1
          class: the send that found the outgoing buffer empty came after the
          connection had already ticked at that instant), unread_input_on_draining_component *)
EXTENDS Integers, Sequences, FiniteSets, TLC, TraceCommon
VARIABLES cfgv, now, running, outq, inb, chanq, msgs, lastAct, mustAt, mustAfter, lateSend, progd, l
tvars == <<cfgv, now, running, outq, inb, chanq, msgs, lastAct, mustAt, mustAfter, lateSend, progd, l>>
Ev == Trace[l]

Report(class, d) == PrintT(<<"CASE", ToJson([class |-> class, l |-> l, d |-> d])>>)
Soft(cond, class, d) == IF cond THEN TRUE ELSE Report(class, d)

Ports == DOMAIN cfgv.ports
Comps == DOMAIN cfgv.comps
Kind(c) == cfgv.comps[c].kind
Period(c) == cfgv.comps[c].period
Owner(p) == cfgv.ports[p].owner
Conn(p) == cfgv.ports[p].conn
Ticks(c) == Kind(c) \in {"tick", "conn"}
NextEdge(t, per) == ((t \div per) + 1) * per
Msg(m) == CHOOSE r \in msgs : r.id = m
Known(m) == \E r \in msgs : r.id = m
Without(s, m) == SelectSeq(s, LAMBDA x : x # m)

Empty == [c |-> "none"]
TInit == /\ cfgv = [comps |-> <<>>, ports |-> <<>>] /\ now = 0 /\ running = "" /\ outq = <<>> /\ inb = <<>>
         /\ chanq = <<>> /\ msgs = {} /\ lastAct = <<>> /\ mustAt = <<>> /\ mustAfter = <<>> /\ lateSend = <<>>
         /\ progd = FALSE /\ l = 1 /\ TraceMarkInit

TConfig == /\ Ev.e = "config"
           /\ cfgv' = [comps |-> Ev.comps, ports |-> Ev.ports]
           /\ now' = 0 /\ running' = "" /\ msgs' = {} /\ progd' = FALSE
           /\ outq' = [p \in DOMAIN Ev.ports |-> <<>>] /\ inb' = [p \in DOMAIN Ev.ports |-> <<>>]
           /\ chanq' = [p \in DOMAIN Ev.ports |-> [d \in DOMAIN Ev.ports |-> <<>>]]
           /\ lastAct' = [c \in DOMAIN Ev.comps |-> -1]
           /\ mustAt' = [c \in DOMAIN Ev.comps |-> 0] /\ mustAfter' = [c \in DOMAIN Ev.comps |-> -1]
           /\ lateSend' = [p \in DOMAIN Ev.ports |-> FALSE]

TAct == /\ Ev.e = "act" /\ Ev.c \in Comps
        /\ LET c == Ev.c t == Ev.t IN
           /\ Soft(t >= now, "time_backwards", [c |-> c, t |-> t, now |-> now])
           /\ Ticks(c) => /\ Soft(t % Period(c) = 0, "tick_off_edge", [c |-> c, t |-> t, period |-> Period(c)])
                          /\ Soft(t > lastAct[c], "tick_twice_in_instant", [c |-> c, t |-> t])
                          /\ Soft(mustAt[c] = 0 \/ t = mustAt[c], "retick_after_progress_missed", [c |-> c, t |-> t, due |-> mustAt[c]])
           /\ now' = t /\ running' = c /\ progd' = FALSE
           /\ lastAct' = [lastAct EXCEPT ![c] = t]
           /\ mustAt' = [mustAt EXCEPT ![c] = 0]
           /\ mustAfter' = [mustAfter EXCEPT ![c] = IF @ >= 0 /\ t > @ THEN -1 ELSE @]
        /\ UNCHANGED <<cfgv, outq, inb, chanq, msgs, lateSend>>

TSend == /\ Ev.e = "send" /\ Ev.p \in Ports /\ Ev.dst \in Ports
         /\ LET p == Ev.p m == Ev.m IN
            /\ Soft(Len(outq[p]) < cfgv.ports[p].ocap, "outgoing_over_capacity", [p |-> p])
            /\ Soft(~Known(m), "duplicate_message_id", [m |-> m])
            /\ outq' = [outq EXCEPT ![p] = Append(@, m)]
            /\ chanq' = [chanq EXCEPT ![p][Ev.dst] = Append(@, m)]
            /\ msgs' = msgs \cup {[id |-> m, src |-> p, dst |-> Ev.dst]}
            /\ lateSend' = [lateSend EXCEPT ![p] = IF outq[p] = <<>>
                                                    THEN lastAct[Conn(p)] = now /\ running # Conn(p) ELSE @]
         /\ UNCHANGED <<cfgv, now, running, inb, lastAct, mustAt, mustAfter, progd>>

TDeliver == /\ Ev.e = "deliver" /\ Ev.p \in Ports /\ Known(Ev.m)
            /\ LET p == Ev.p m == Ev.m r == Msg(Ev.m) IN
               /\ Soft(r.dst = p, "foreign_delivery", [m |-> m, to |-> p, dst |-> r.dst])
               /\ Soft(chanq[r.src][r.dst] # <<>> /\ Head(chanq[r.src][r.dst]) = m, "out_of_order_or_duplicate_delivery",
                       [m |-> m, src |-> r.src, dst |-> r.dst, waiting |-> chanq[r.src][r.dst]])
               /\ Soft(Len(inb[p]) < cfgv.ports[p].icap, "incoming_over_capacity", [p |-> p])
               /\ chanq' = [chanq EXCEPT ![r.src][r.dst] = Without(@, m)]
               /\ inb' = [inb EXCEPT ![p] = Append(@, m)]
               /\ mustAfter' = IF inb[p] = <<>> /\ Kind(Owner(p)) = "tick"
                               THEN [mustAfter EXCEPT ![Owner(p)] = now] ELSE mustAfter
            /\ progd' = TRUE
            /\ UNCHANGED <<cfgv, now, running, outq, msgs, lastAct, mustAt, lateSend>>

TOut == /\ Ev.e = "out" /\ Ev.p \in Ports
        /\ LET p == Ev.p m == Ev.m IN
           /\ Soft(outq[p] # <<>> /\ Head(outq[p]) = m, "outgoing_not_fifo", [p |-> p, m |-> m, q |-> outq[p]])
           /\ outq' = [outq EXCEPT ![p] = Without(@, m)]
           /\ mustAfter' = IF Len(outq[p]) = cfgv.ports[p].ocap /\ Kind(Owner(p)) = "tick"
                           THEN [mustAfter EXCEPT ![Owner(p)] = now] ELSE mustAfter
        /\ UNCHANGED <<cfgv, now, running, inb, chanq, msgs, lastAct, mustAt, lateSend, progd>>

TRetr == /\ Ev.e = "retr" /\ Ev.p \in Ports
         /\ LET p == Ev.p m == Ev.m IN
            /\ Soft(inb[p] # <<>> /\ Head(inb[p]) = m, "incoming_not_fifo", [p |-> p, m |-> m, q |-> inb[p]])
            /\ inb' = [inb EXCEPT ![p] = Without(@, m)]
         /\ UNCHANGED <<cfgv, now, running, outq, chanq, msgs, lastAct, mustAt, mustAfter, lateSend, progd>>

TEnd == /\ Ev.e = "end" /\ Ev.c \in Comps
        /\ LET c == Ev.c prog == IF Kind(c) = "conn" THEN progd ELSE Ev.prog IN
           /\ mustAt' = IF Ticks(c) /\ prog THEN [mustAt EXCEPT ![c] = NextEdge(now, Period(c))] ELSE mustAt
        /\ running' = ""
        /\ UNCHANGED <<cfgv, now, outq, inb, chanq, msgs, lastAct, mustAfter, lateSend, progd>>

TQuiesce ==
    /\ Ev.e = "quiesce"
    /\ \A i \in 1..Len(Ev.ports) :
         LET r == Ev.ports[i] p == r.p IN
         /\ Soft(r.nout = Len(outq[p]) /\ r.nin = Len(inb[p]), "size_mismatch",
                 [p |-> p, nout |-> r.nout, nin |-> r.nin, mout |-> Len(outq[p]), min |-> Len(inb[p])])
         /\ outq[p] # <<>> =>
              LET dst == Msg(Head(outq[p])).dst IN
              Soft(Len(inb[dst]) >= cfgv.ports[dst].icap,
                   IF lateSend[p] THEN "stranded_send_after_same_instant_conn_tick" ELSE "stranded_deliverable",
                   [p |-> p, m |-> Head(outq[p]), dst |-> dst, dst_in |-> Len(inb[dst]), t |-> now])
         /\ cfgv.comps[Owner(p)].drain => Soft(inb[p] = <<>>, "unread_input_on_draining_component", [p |-> p, q |-> inb[p]])
         /\ \A d \in Ports : Soft(chanq[p][d] = SelectSeq(outq[p], LAMBDA m : Msg(m).dst = d), "message_lost_in_connection",
                                  [src |-> p, dst |-> d, undelivered |-> chanq[p][d], still_queued |-> outq[p]])
    /\ \A c \in Comps :
         /\ Soft(mustAt[c] = 0, "retick_after_progress_never_happened", [c |-> c, due |-> mustAt[c]])
         /\ Soft(mustAfter[c] = -1, "tick_after_notification_never_happened", [c |-> c, after |-> mustAfter[c]])
    /\ UNCHANGED <<cfgv, now, running, outq, inb, chanq, msgs, lastAct, mustAt, mustAfter, lateSend, progd>>

TReset == Ev.e = "reset" /\ UNCHANGED <<cfgv, now, running, outq, inb, chanq, msgs, lastAct, mustAt, mustAfter, lateSend, progd>>

TNext == l <= TraceLen /\ l' = l + 1 /\ (TConfig \/ TAct \/ TSend \/ TDeliver \/ TOut \/ TRetr \/ TEnd \/ TQuiesce \/ TReset)
TSpec == TInit /\ [][TNext]_tvars
Mark == TraceMark(l)
(* hard invariants of the tracked structure *)
Bounded == \A p \in DOMAIN outq : Len(outq[p]) <= cfgv.ports[p].ocap + 1 /\ Len(inb[p]) <= cfgv.ports[p].icap + 1
==============================================================================
