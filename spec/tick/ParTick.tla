------------------------------ MODULE ParTick ------------------------------
(* C10 / C12 under the parallel engine (binding B2): a log recorded from real ticking
   components joined by real direct connections and run by timing.ParallelEngine — every
   event the engine starts (handler, instant), every message handed to a port by its
   sender and every message retrieved by its receiver, ordered by one mutex — must be a
   behaviour of the abstract system the two statements describe:
     tick(c, t)   a component or a connection handles at most one event per instant, and
                  its instants never go back (C12: "once per instant");
     send(m)      a message enters the channel from its source port to its destination;
     recv(m)      the receiver retrieves exactly the oldest message of that channel that
                  has not been retrieved yet (C10: exactly once, in order, nothing lost,
                  nothing duplicated) and finds it intact (ok);
     ret          the run returned: every channel is empty (C10: every message sent to a
                  receiver that keeps draining is delivered).
   Several handlers of one instant run on different goroutines, several senders wake one
   idle connection in the same round and several connections wake one idle receiver in
   the same round: the dedup guards of TickNow / TickLater are exercised concurrently.  *)
EXTENDS Integers, Sequences, TLC, TraceCommon
CONSTANT TickRule   \* FALSE: engine events are only read past (C10 judges deliveries alone)
VARIABLES last, chan, seen, l
tvars == <<last, chan, seen, l>>
Ev == Trace[l]
Get(f, k, d) == IF k \in DOMAIN f THEN f[k] ELSE d
Put(f, k, v) == [x \in DOMAIN f \cup {k} |-> IF x = k THEN v ELSE f[x]]
TInit == last = <<>> /\ chan = <<>> /\ seen = {} /\ l = 1 /\ TraceMarkInit
TTick == /\ Ev.e = "tick" /\ (TickRule => Ev.t > Get(last, Ev.c, -1))
         /\ last' = Put(last, Ev.c, Ev.t) /\ UNCHANGED <<chan, seen>>
TSend == /\ Ev.e = "send" /\ Ev.id \notin seen /\ seen' = seen \cup {Ev.id}
         /\ chan' = Put(chan, <<Ev.src, Ev.dst>>, Append(Get(chan, <<Ev.src, Ev.dst>>, <<>>), Ev.id))
         /\ UNCHANGED last
TRecv == /\ Ev.e = "recv" /\ Ev.ok
         /\ LET q == Get(chan, <<Ev.src, Ev.dst>>, <<>>) IN
              /\ q # <<>> /\ Head(q) = Ev.id
              /\ chan' = Put(chan, <<Ev.src, Ev.dst>>, Tail(q))
         /\ UNCHANGED <<last, seen>>
TRet  == /\ Ev.e = "ret" /\ \A k \in DOMAIN chan : chan[k] = <<>> /\ UNCHANGED <<last, chan, seen>>
TReset == Ev.e = "reset" /\ last' = <<>> /\ chan' = <<>> /\ seen' = {}
TNext == l <= TraceLen /\ l' = l + 1 /\ (TTick \/ TSend \/ TRecv \/ TRet \/ TReset)
TSpec == TInit /\ [][TNext]_tvars
Mark == TraceMark(l)
Bounded == \A k \in DOMAIN chan : Len(chan[k]) <= 64
=============================================================================
