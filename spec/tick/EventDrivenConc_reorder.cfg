\* EXPECTED TO HOLD: writing the guard after the engine call is, by itself, a harmless reordering
\* (the statement does not forbid it; GuardSound is a fact of the order as found and is not required here).
SPECIFICATION Spec
CONSTANTS
  MaxT = 1
  MaxD = 2
  MaxEv = 3
  MaxReq = 2
  Notifiers = {"n1"}
  Order = "sched_first"
  Drop = FALSE
VIEW View
INVARIANT TypeOK
INVARIANT WakeNoLaterThan
INVARIANT Quiescent
INVARIANT NothingLate
CHECK_DEADLOCK FALSE
