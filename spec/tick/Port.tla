------------------------------ MODULE Port ------------------------------
(* C11 — one messaging port as the statement describes it: two bounded FIFO
   buffers (incoming: connection -> owner, outgoing: owner -> connection),
   sizes that match the contents, and the four REQUIRED notifications:

     recv       owner      an EMPTY incoming buffer receives a message
     free       owner      a FULL outgoing buffer frees a slot
     available  connection a FULL incoming buffer frees a slot
     send       connection an EMPTY outgoing buffer receives a message

   `last` is the operation record replayed on the real messaging.Port:
   res = [val |-> result, need |-> set of notifications that MUST have happened
   by the end of this operation].  Additional notifications are allowed (the
   statement demands only those four), so the driver answers with the subset
   of `need` that it observed.                                              *)
EXTENDS Naturals, Sequences, FiniteSets, TLC, Json
CONSTANTS MaxCap, Vals
VARIABLES ic, oc, inq, outq, last
vars == <<ic, oc, inq, outq, last>>
St  == [ic |-> ic, oc |-> oc, inq |-> inq, outq |-> outq]
St2 == [ic |-> ic', oc |-> oc', inq |-> inq', outq |-> outq']

Init == /\ ic \in 1..MaxCap
        /\ oc \in 1..MaxCap
        /\ inq = <<>>
        /\ outq = <<>>
        /\ last = [op |-> "new", arg |-> 0, res |-> [val |-> 0, need |-> {}]]
        /\ PrintT(<<"INIT", ToJson(St)>>)

Op(o, a, v, nd) == last' = [op |-> o, arg |-> a, res |-> [val |-> v, need |-> nd]]
Same == UNCHANGED <<ic, oc, inq, outq>>
Caps == UNCHANGED <<ic, oc>>
HeadOr0(q) == IF q = <<>> THEN 0 ELSE Head(q)

(* queries *)
CanSend      == Same /\ Op("cansend", 0, Len(outq) < oc, {})
CanDeliver   == Same /\ Op("candeliver", 0, Len(inq) < ic, {})
NumIncoming  == Same /\ Op("numin", 0, Len(inq), {})
NumOutgoing  == Same /\ Op("numout", 0, Len(outq), {})
PeekIncoming == Same /\ Op("peekin", 0, HeadOr0(inq), {})
PeekOutgoing == Same /\ Op("peekout", 0, HeadOr0(outq), {})

(* owner side *)
Send(v) == \/ /\ Len(outq) < oc
              /\ outq' = Append(outq, v) /\ UNCHANGED inq /\ Caps
              /\ Op("send", v, "ok", IF outq = <<>> THEN {"send"} ELSE {})
           \/ /\ Len(outq) >= oc /\ Same /\ Op("send", v, "refused", {})
RetrieveIncoming ==
    /\ inq' = (IF inq = <<>> THEN inq ELSE Tail(inq)) /\ UNCHANGED outq /\ Caps
    /\ Op("retrievein", 0, HeadOr0(inq), IF Len(inq) = ic THEN {"available"} ELSE {})

(* connection side *)
Deliver(v) == \/ /\ Len(inq) < ic
                 /\ inq' = Append(inq, v) /\ UNCHANGED outq /\ Caps
                 /\ Op("deliver", v, "ok", IF inq = <<>> THEN {"recv"} ELSE {})
              \/ /\ Len(inq) >= ic /\ Same /\ Op("deliver", v, "refused", {})
RetrieveOutgoing ==
    /\ outq' = (IF outq = <<>> THEN outq ELSE Tail(outq)) /\ UNCHANGED inq /\ Caps
    /\ Op("retrieveout", 0, HeadOr0(outq), IF Len(outq) = oc THEN {"free"} ELSE {})

Next == \/ CanSend \/ CanDeliver \/ NumIncoming \/ NumOutgoing \/ PeekIncoming \/ PeekOutgoing
        \/ RetrieveIncoming \/ RetrieveOutgoing
        \/ \E v \in Vals : Send(v) \/ Deliver(v)
Spec == Init /\ [][Next]_vars

View == <<ic, oc, inq, outq>>
Emit == PrintT(<<"EDGE", ToJson([s |-> St, a |-> last', t |-> St2])>>)

(* ---- what TLC checks on the specification itself ---- *)
Bounded == Len(inq) <= ic /\ Len(outq) <= oc

FifoQ(q, q2) == \/ q2 = q
                \/ \E v \in Vals : q2 = Append(q, v)
                \/ (q # <<>> /\ q2 = Tail(q))
FifoStep == [][FifoQ(inq, inq') /\ FifoQ(outq, outq') /\ ic' = ic /\ oc' = oc]_vars

(* the statement's notification rule phrased on the state change alone, as a
   cross-check of the per-operation `need` sets above *)
NotifyRule ==
  [][LET nd == last'.res.need IN
     /\ ("recv"      \in nd) <=> (Len(inq) = 0   /\ Len(inq') > 0)
     /\ ("available" \in nd) <=> (Len(inq) = ic  /\ Len(inq') < ic)
     /\ ("send"      \in nd) <=> (Len(outq) = 0  /\ Len(outq') > 0)
     /\ ("free"      \in nd) <=> (Len(outq) = oc /\ Len(outq') < oc)]_vars

(* a retrieve returns the oldest element; a peek does not change anything *)
OldestOut ==
  [][/\ (last'.op = "retrievein" /\ inq # <<>>) => (last'.res.val = inq[1] /\ Len(inq') = Len(inq) - 1)
     /\ (last'.op = "retrieveout" /\ outq # <<>>) => (last'.res.val = outq[1] /\ Len(outq') = Len(outq) - 1)
     /\ (last'.op \in {"peekin", "peekout", "numin", "numout", "cansend", "candeliver"})
           => (inq' = inq /\ outq' = outq)]_vars
=========================================================================
