SPECIFICATION TSpec
CONSTANTS
  MaxCap = 3
  Vals = {1, 2, 3}
INVARIANT TBounded
CONSTRAINT Mark
POSTCONDITION TraceAccepted
CHECK_DEADLOCK FALSE
