SPECIFICATION Spec
CONSTANTS
  MaxT = 2
  MaxD = 2
  MaxEv = 3
  MaxReq = 2
  Guard = "code"
VIEW View
ACTION_CONSTRAINT Emit
INVARIANT TypeOK
INVARIANT WakeNoLaterThan
INVARIANT GuardSound
INVARIANT NothingLate
INVARIANT Quiescent
PROPERTY TimeMonotone
CHECK_DEADLOCK FALSE
