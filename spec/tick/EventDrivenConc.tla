--------------------------- MODULE EventDrivenConc ---------------------------
(* C13 — event-driven components wake no later than requested: the SCHEDULES
   part of the quantifier.

   EventDriven.tla treats a wake request as one atomic step.  Under a parallel
   engine it is not: while the component's processor (inside Handle, on one
   worker goroutine) asks for a wakeup, a handler of the same instant running
   on another goroutine may deliver a message to one of the component's ports
   or free one of them (NotifyRecv / NotifyPortFree -> ScheduleWakeNow), or ask
   for a wakeup itself.  Handle runs one at a time per component (its mutex);
   ScheduleWakeAt is not locked.

   ABSTRACT layer: the same as in EventDriven.tla (operators of
   EventDrivenAbs.tla).  An operation that takes more than one step raises its
   obligation when it is INVOKED (a message is in the port's buffer before the
   port notifies), a processor run discharges what was raised before it
   started.  WakeNoLaterThan = NoOverdue /\ Covered, and nothing is outstanding
   at quiescence.

   MECHANISM: ScheduleWakeAt(t) is two steps of the calling thread,
       Begin   look at the guard; if a wakeup at or before t is believed to be
               pending return, else write the guard
       Sched   hand the timer event to the engine (the only point of the
               operation that is visible from outside the component: the
               harness parks the calling goroutine there)
   and every thread may be between the two while the others move.  Thread "h"
   is the worker that runs the component's Handle: Dispatch takes the earliest
   queued wakeup, resets the guard and starts the processor run; HReq(d) is a
   request of the running processor; HEnd is the return of Handle.  The
   threads in Notifiers are handlers of other components of the same instant:
   NBegin(n, k) starts a notification (k = NRecv / NFree) or a request now + k.
   The engine works in rounds (timing.ParallelEngine): all events of the
   earliest time are started together, the next round starts when all their
   handlers have returned, and an event scheduled during a round is started in
   a later one.  Round moves the component's wakeups of that time to `ready`.

   Order = "code" is the order as found (guard written in Begin, before the
   engine call).  Mutant controls of the specification:
     Order = "sched_first"  the guard is written in a third step, AFTER the
                            engine call
     Drop  = TRUE           Handle discards a timer that fires before the time
                            the guard is armed for ("a superseded leftover")
   Each alone is harmless (EventDrivenConc_reorder.cfg holds); together they
   lose a notification that arrives between Begin and the guard write of a
   later request of the processor (EventDrivenConc_control.cfg, EXPECTED to
   fail).                                                                     *)
EXTENDS EventDrivenAbs, Sequences, FiniteSets, TLC, Json

CONSTANTS MaxT,       \* clock ticks move `now` up to MaxT
          MaxD,       \* a request asks for now + d, d \in 0..MaxD
          MaxEv,      \* bound on queued wakeup events (queued + about to be queued)
          MaxReq,     \* the processor makes at most MaxReq requests per run
          Notifiers,  \* names of the other threads
          Order, Drop

TMax    == MaxT + MaxD
Times   == 0..TMax
NoWake  == TMax + 1
Threads == {"h"} \cup Notifiers

VARIABLES now,      \* engine time
          queue,    \* queued wakeup events, [Times -> Nat]
          ready,    \* wakeup events of the instant `now` that the engine has started in the current round and
                    \* that wait for the component's mutex (Handle runs one at a time)
          pending,  \* the guard (NoWake = none)
          due,      \* abstract: outstanding obligations
          pc,       \* per thread: "idle" | "run" (h only: inside the processor) | "sched" | "write"
          tt,       \* per thread: the time of the wakeup it is in the middle of scheduling (0 when none)
          hn,       \* requests made by the current processor run
          last
vars == <<now, queue, ready, pending, due, pc, tt, hn, last>>

RECURSIVE SumTo(_, _)
SumTo(f, k) == IF k = 0 THEN f[0] ELSE f[k] + SumTo(f, k - 1)
QSize(q) == SumTo(q, TMax)
Earliest(q) == CHOOSE x \in Times : q[x] > 0 /\ \A y \in Times : q[y] > 0 => x <= y
InFlight == Cardinality({x \in Threads : pc[x] = "sched"})

St  == [now |-> now,  queue |-> queue,  ready |-> ready,  pending |-> pending,  due |-> due,  pc |-> pc,  tt |-> tt,  hn |-> hn]
St2 == [now |-> now', queue |-> queue', ready |-> ready', pending |-> pending', due |-> due', pc |-> pc', tt |-> tt', hn |-> hn']

Act(op, th, d, at, idle) == [op |-> op, th |-> th, d |-> d, at |-> at, idle |-> idle]

Init == /\ now = 0 /\ queue = [x \in Times |-> 0] /\ ready = 0 /\ pending = NoWake /\ due = {}
        /\ pc = [x \in Threads |-> "idle"] /\ tt = [x \in Threads |-> 0] /\ hn = 0
        /\ last = Act("new", "h", 0, 0, FALSE)
        /\ PrintT(<<"INIT", ToJson(St)>>)

Home(th) == IF th = "h" THEN "run" ELSE "idle"
Suppressed(t) == pending # NoWake /\ pending <= t

\* first step of ScheduleWakeAt(t) by thread th
Begin(th, t) ==
  /\ t <= TMax
  /\ due' = Raise(due, t)
  /\ IF Suppressed(t)
     THEN UNCHANGED <<pending, pc, tt>>
     ELSE /\ QSize(queue) + ready + InFlight < MaxEv
          /\ pc' = [pc EXCEPT ![th] = "sched"]
          /\ tt' = [tt EXCEPT ![th] = t]
          /\ pending' = (IF Order = "code" THEN t ELSE pending)
  /\ UNCHANGED <<queue, ready, now>>

\* the engine call
Sched(th) ==
  /\ pc[th] = "sched"
  /\ queue' = [queue EXCEPT ![tt[th]] = @ + 1]
  /\ IF Order = "code"
     THEN pc' = [pc EXCEPT ![th] = Home(th)] /\ tt' = [tt EXCEPT ![th] = 0]
     ELSE pc' = [pc EXCEPT ![th] = "write"] /\ UNCHANGED tt
  /\ UNCHANGED <<now, ready, pending, due, hn>>
  /\ last' = Act("sched", th, 0, now, FALSE)

\* controls only: the guard write that follows the engine call
Write(th) ==
  /\ pc[th] = "write"
  /\ pending' = tt[th]
  /\ pc' = [pc EXCEPT ![th] = Home(th)] /\ tt' = [tt EXCEPT ![th] = 0]
  /\ UNCHANGED <<now, queue, ready, due, hn>>
  /\ last' = Act("write", th, 0, now, FALSE)

NRecv == 100
NFree == 101
Notes == {NRecv, NFree}
OpTime(x) == IF x \in Notes THEN now ELSE now + x

\* a request of the running processor
HReq(d) == /\ pc["h"] = "run" /\ hn < MaxReq
           /\ Begin("h", now + d)
           /\ hn' = hn + 1
           /\ last' = Act("hreq", "h", d, now, FALSE)

\* Handle returns
HEnd == /\ pc["h"] = "run"
        /\ pc' = [pc EXCEPT !["h"] = "idle"] /\ hn' = 0
        /\ UNCHANGED <<now, queue, ready, pending, due, tt>>
        /\ last' = Act("hend", "h", 0, now, FALSE)

\* another handler of the same instant notifies (k \in Notes) or asks for now + k
NBegin(n, k) == /\ pc[n] = "idle"
                /\ Begin(n, OpTime(k))
                /\ UNCHANGED hn
                /\ last' = Act("nbegin", n, k, now, FALSE)

\* A round of the parallel engine: when every handler of the previous round has returned, the engine takes
\* ALL events of the earliest queued time and starts their handlers together; what is scheduled during the
\* round (also for the same instant) waits for a later round.  The component's own wakeups of that round
\* queue up on its mutex (ready).
Round ==
  /\ \A x \in Threads : pc[x] = "idle"
  /\ ready = 0 /\ QSize(queue) > 0
  /\ LET tau == Earliest(queue)
     IN /\ now' = tau
        /\ ready' = queue[tau]
        /\ queue' = [queue EXCEPT ![tau] = 0]
        /\ last' = Act("round", "h", 0, tau, FALSE)
  /\ UNCHANGED <<pending, due, pc, tt, hn>>

\* Handle of one wakeup of the round starts: the guard is reset and the processor runs; idle is what the run
\* will report (free: the statement does not depend on it)
Dispatch(idle) ==
  /\ pc["h"] = "idle" /\ ready > 0
  /\ LET dropped == Drop /\ pending # NoWake /\ now < pending
     IN /\ ready' = ready - 1
        /\ IF dropped
           THEN UNCHANGED <<pending, due, pc>>
           ELSE /\ pending' = NoWake
                /\ due' = Discharge(due, now)
                /\ pc' = [pc EXCEPT !["h"] = "run"]
        /\ hn' = 0
        /\ UNCHANGED <<now, queue, tt>>
        /\ last' = Act("dispatch", "h", 0, now, idle)

\* a round at an instant at which the component has no wakeup (other components' events only)
Tick == /\ now < MaxT
        /\ \A x \in Threads : pc[x] = "idle"
        /\ ready = 0
        /\ \A x \in Times : queue[x] > 0 => x > now + 1
        /\ now' = now + 1
        /\ UNCHANGED <<queue, ready, pending, due, pc, tt, hn>>
        /\ last' = Act("tick", "h", 0, now + 1, FALSE)

Next == \/ \E d \in 0..MaxD : HReq(d)
        \/ HEnd
        \/ \E n \in Notifiers, k \in (0..MaxD) \cup Notes : NBegin(n, k)
        \/ \E th \in Threads : Sched(th) \/ Write(th)
        \/ \E idle \in BOOLEAN : Dispatch(idle)
        \/ Round \/ Tick
Spec == Init /\ [][Next]_vars

---------------------------------------------------------------------------
TypeOK == /\ now \in Times /\ queue \in [Times -> 0..MaxEv] /\ ready \in 0..MaxEv
          /\ pending \in Times \cup {NoWake} /\ due \subseteq Times
          /\ pc \in [Threads -> {"idle", "run", "sched", "write"}]
          /\ tt \in [Threads -> Times] /\ hn \in 0..MaxReq
          /\ \A n \in Notifiers : pc[n] # "run"

\* a wakeup at time x is queued, or a thread is about to queue it
Coming(x) == queue[x] > 0 \/ (x = now /\ ready > 0) \/ \E th \in Threads : pc[th] = "sched" /\ tt[th] = x

(* WakeNoLaterThan *)
NoOverdue == NoOverdueAt(due, now)
Covered   == \A t \in due : \E x \in Times : Coming(x) /\ x <= t
WakeNoLaterThan == NoOverdue /\ Covered

\* every completed notification / request has been answered when nothing is left to happen
Quiescent == (QSize(queue) = 0 /\ ready = 0 /\ \A th \in Threads : pc[th] = "idle") => due = {}

(* facts about the mechanism as found (not required of the controls) *)
GuardSound  == pending # NoWake => Coming(pending)
NothingLate == \A x \in Times : Coming(x) => x >= now

TimeMonotone == [][now' >= now]_vars

View == <<now, queue, ready, pending, due, pc, tt, hn>>
Emit == PrintT(<<"EDGE", ToJson([s |-> St, a |-> last', t |-> St2])>>)
=============================================================================
