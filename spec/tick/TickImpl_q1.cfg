SPECIFICATION Spec
CONSTANTS
  TopoId = 1
  MaxSends = 3
  MaxWakes = 1
  Horizon = 2
  Repaired = TRUE
  WakeDelays = {1}
INVARIANTS BufferBounds TickDiscipline GuardSound TimeBounded Emit
CHECK_DEADLOCK TRUE
