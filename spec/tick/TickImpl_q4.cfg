SPECIFICATION Spec
CONSTANTS
  TopoId = 4
  MaxSends = 2
  MaxWakes = 1
  Horizon = 3
  Repaired = TRUE
  WakeDelays = {0, 1}
INVARIANTS BufferBounds TickDiscipline GuardSound TimeBounded Emit
CHECK_DEADLOCK TRUE
