SPECIFICATION Spec
CONSTANTS
  MaxT = 1
  MaxD = 2
  MaxEv = 3
  MaxReq = 2
  Notifiers = {"n1"}
  Order = "code"
  Drop = FALSE
VIEW View
ACTION_CONSTRAINT Emit
INVARIANT TypeOK
INVARIANT WakeNoLaterThan
INVARIANT Quiescent
INVARIANT GuardSound
INVARIANT NothingLate
PROPERTY TimeMonotone
CHECK_DEADLOCK FALSE
