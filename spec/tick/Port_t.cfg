SPECIFICATION Spec
CONSTANTS
  MaxCap = 3
  Vals = {1, 2, 3}
VIEW View
ACTION_CONSTRAINT Emit
INVARIANT Bounded
PROPERTY FifoStep
PROPERTY NotifyRule
PROPERTY OldestOut
CHECK_DEADLOCK FALSE
