SPECIFICATION TSpec
INVARIANT Bounded
CONSTRAINT Mark
POSTCONDITION TraceAccepted
CHECK_DEADLOCK FALSE
