SPECIFICATION Spec
INVARIANT NoOverdue
INVARIANT NoneMissing
INVARIANT WellFormed
CHECK_DEADLOCK FALSE
