SPECIFICATION TSpec
CONSTANT TickRule = FALSE
INVARIANT Bounded
CONSTRAINT Mark
POSTCONDITION TraceAccepted
CHECK_DEADLOCK FALSE
