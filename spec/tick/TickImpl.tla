------------------------------ MODULE TickImpl ------------------------------
(* C09 / C10 / C12 — implementation-shaped model of wake-up scheduling:
     modeling/ticker.go        TickScheduler.TickNow / TickLater and their dedup guard
                               (hasScheduledTick is never cleared; since the W1 repair the
                               scheduler also remembers that the tick at nextTickTime has
                               been handled — markTickHandled — and TickNow then wakes the
                               component at its next edge instead of dropping the request),
                               TickingComponent.Handle
     modeling/eventdriven.go   ScheduleWakeAt / pendingWakeup, Handle, NotifyRecv/NotifyPortFree
     messaging/port.go         Send / Deliver / RetrieveIncoming / RetrieveOutgoing and the
                               four notifications with their exact trigger conditions
     noc/directconnection      round-robin Tick / forwardMany, NotifyAvailable, NotifySend
     timing/serialengine.go    dispatch order (time, primary before secondary, FIFO)
   A handler runs as a sequence of micro-steps (only one handler is ever active, so
   micro-steps add no interleavings, they just keep each action small).  Components
   are scripted nondeterministically: at an activation a component drains its ports
   (unless it is stalling), may send on any port that has room, and an event-driven
   component may request later wake-ups.  TLC explores every script within the
   bounds; every quiescent behaviour is emitted with its script and whether the
   model ends with a lost wake-up, and is then replayed on the real packages.      *)
EXTENDS Integers, Sequences, FiniteSets, TLC, Json

CONSTANTS TopoId, MaxSends, MaxWakes, Horizon, WakeDelays,
          Repaired      \* TRUE: ticker.go after the W1 repair (tickHandled); FALSE: the design before it (negative control)
Inf == 1000000

(* ---------- topologies (time unit = 1000 ps) ---------- *)
P(name, owner, conn, icap, ocap) == [name |-> name, owner |-> owner, conn |-> conn, icap |-> icap, ocap |-> ocap]
C(name, kind, period, stall) == [name |-> name, kind |-> kind, period |-> period, stall |-> stall]
Topos == <<
  \* 1: chain A -K1- Z -K2- B, all event-driven, capacity 1
  [comps |-> <<C("A", "ed", 1, 0), C("Z", "ed", 1, 0), C("B", "ed", 1, 0)>>,
   conns |-> <<C("K1", "conn", 1, 0), C("K2", "conn", 1, 0)>>,
   ports |-> <<P("A.P", "A", "K1", 1, 1), P("Z.I", "Z", "K1", 1, 1), P("Z.O", "Z", "K2", 1, 1), P("B.P", "B", "K2", 1, 1)>>],
  \* 2: ticking (period 2) and event-driven endpoint on one connection (period 1), capacities 1/2
  [comps |-> <<C("A", "tick", 2, 0), C("B", "ed", 1, 0)>>,
   conns |-> <<C("K1", "conn", 1, 0)>>,
   ports |-> <<P("A.P", "A", "K1", 1, 2), P("B.P", "B", "K1", 2, 1)>>],
  \* 3: three ports on one connection, one receiver stalls for its first 2 activations
  [comps |-> <<C("A", "ed", 1, 0), C("B", "tick", 1, 0), C("S", "ed", 1, 2)>>,
   conns |-> <<C("K1", "conn", 1, 0)>>,
   ports |-> <<P("A.P", "A", "K1", 1, 1), P("B.P", "B", "K1", 1, 1), P("S.P", "S", "K1", 1, 1)>>],
  \* 4: chain with a ticking middle component (period 3 vs connection period 2)
  [comps |-> <<C("A", "ed", 1, 0), C("Z", "tick", 3, 0), C("B", "ed", 1, 0)>>,
   conns |-> <<C("K1", "conn", 2, 0), C("K2", "conn", 1, 0)>>,
   ports |-> <<P("A.P", "A", "K1", 1, 1), P("Z.I", "Z", "K1", 1, 1), P("Z.O", "Z", "K2", 1, 1), P("B.P", "B", "K2", 1, 1)>>],
  \* 5: two senders back-pressured by two receivers that stall for different lengths (one connection)
  [comps |-> <<C("A", "ed", 1, 0), C("B", "ed", 1, 0), C("X", "ed", 1, 1), C("Y", "ed", 1, 2)>>,
   conns |-> <<C("K1", "conn", 1, 0)>>,
   ports |-> <<P("A.P", "A", "K1", 1, 1), P("B.P", "B", "K1", 1, 1), P("X.P", "X", "K1", 1, 1), P("Y.P", "Y", "K1", 1, 1)>>]
>>
T == Topos[TopoId]
Range(s) == {s[i] : i \in DOMAIN s}
CompNames == {c.name : c \in Range(T.comps)}
ConnNames == {c.name : c \in Range(T.conns)}
AllNames == CompNames \cup ConnNames
Def(n) == CHOOSE c \in Range(T.comps) \cup Range(T.conns) : c.name = n
PortNames == {p.name : p \in Range(T.ports)}
PDef(n) == CHOOSE p \in Range(T.ports) : p.name = n
PortsOf(owner) == SelectSeq(T.ports, LAMBDA p : p.owner = owner)     \* in declaration order
PortsOn(conn) == SelectSeq(T.ports, LAMBDA p : p.conn = conn)        \* in plug-in order
Ticking == {n \in AllNames : Def(n).kind \in {"tick", "conn"}}
EDs == {n \in AllNames : Def(n).kind = "ed"}

ThisTick(t, per) == ((t + per - 1) \div per) * per
NextTick(t, per) == ((t \div per) + 1) * per

VARIABLES time, G,        \* G = [evq, ord, guard, pend]: event queue and the dedup guards
          inb, outb, nextPort, run, sendsLeft, wakesLeft, nmsg, script, acts, lastTick, tickOK
vars == <<time, G, inb, outb, nextPort, run, sendsLeft, wakesLeft, nmsg, script, acts, lastTick, tickOK>>

(* ---------- scheduler operators: state transformers on G ---------- *)
Sched(g, c, t) == [g EXCEPT !.evq = @ \cup {[c |-> c, t |-> t, sec |-> (Def(c).kind = "conn"), ord |-> g.ord]},
                            !.ord = @ + 1]
TickLaterOp(g, c, now) ==
    LET t == NextTick(now, Def(c).period) IN
    IF g.guard[c].has /\ g.guard[c].next >= t THEN g
    ELSE Sched([g EXCEPT !.guard[c] = [has |-> TRUE, next |-> t, handled |-> FALSE]], c, t)
TickNowOp(g, c, now) ==
    IF g.guard[c].has /\ g.guard[c].next >= now
    THEN IF Repaired /\ g.guard[c].handled /\ g.guard[c].next = now
         THEN TickLaterOp(g, c, now)        \* the tick of this instant already ran: next edge
         ELSE g
    ELSE LET t == ThisTick(now, Def(c).period) IN
         Sched([g EXCEPT !.guard[c] = [has |-> TRUE, next |-> t, handled |-> FALSE]], c, t)
WakeAtOp(g, c, t) ==
    IF g.pend[c] # Inf /\ g.pend[c] <= t THEN g
    ELSE Sched([g EXCEPT !.pend[c] = t], c, t)
NotifyComp(g, c, now) == IF Def(c).kind = "ed" THEN WakeAtOp(g, c, now) ELSE TickLaterOp(g, c, now)
RECURSIVE NotifyOthers(_, _, _, _, _)
NotifyOthers(g, ps, i, except, now) ==
    IF i > Len(ps) THEN g
    ELSE NotifyOthers(IF ps[i].name = except THEN g ELSE NotifyComp(g, ps[i].owner, now), ps, i + 1, except, now)
(* Connection.NotifyAvailable(p): every other port's owner gets NotifyPortFree, then TickNow *)
NotifyAvailableOp(g, k, p, now) == TickNowOp(NotifyOthers(g, PortsOn(k), 1, p, now), k, now)

Init == /\ time = 0
        /\ inb = [p \in PortNames |-> <<>>] /\ outb = [p \in PortNames |-> <<>>]
        /\ nextPort = [k \in ConnNames |-> 0]
        /\ run = [c |-> "", phase |-> "", i |-> 0, did |-> FALSE]
        /\ sendsLeft = MaxSends /\ wakesLeft = MaxWakes /\ nmsg = 0
        /\ script = [c \in CompNames |-> <<>>] /\ acts = <<>>
        /\ lastTick = [c \in AllNames |-> -1] /\ tickOK = TRUE
        /\ LET g0 == [evq |-> {}, ord |-> 0,
                      guard |-> [c \in Ticking |-> [has |-> FALSE, next |-> 0, handled |-> FALSE]],
                      pend |-> [c \in EDs |-> Inf]]
               RECURSIVE Kick(_, _)
               Kick(g, i) == IF i > Len(T.comps) THEN g
                             ELSE Kick(IF T.comps[i].kind = "ed" THEN WakeAtOp(g, T.comps[i].name, 0)
                                       ELSE TickNowOp(g, T.comps[i].name, 0), i + 1)
           IN G = Kick(g0, 1)

Less(a, b) == \/ a.t < b.t \/ (a.t = b.t /\ ~a.sec /\ b.sec) \/ (a.t = b.t /\ a.sec = b.sec /\ a.ord < b.ord)
Idle == run.c = ""

Dispatch ==
    /\ Idle /\ G.evq # {}
    /\ LET e == CHOOSE x \in G.evq : \A y \in G.evq \ {x} : Less(x, y) IN
       /\ time' = e.t
       /\ G' = [G EXCEPT !.evq = @ \ {e}, !.pend = IF e.c \in EDs THEN [@ EXCEPT ![e.c] = Inf] ELSE @,
                         \* markTickHandled (Handle of a ticking component / connection)
                         !.guard = IF e.c \in Ticking /\ @[e.c].has /\ @[e.c].next = e.t
                                   THEN [@ EXCEPT ![e.c].handled = TRUE] ELSE @]
       /\ run' = [c |-> e.c, phase |-> (IF e.c \in ConnNames THEN "fwd" ELSE "drain"), i |-> 0, did |-> FALSE]
       /\ tickOK' = (tickOK /\ (e.c \in Ticking => (e.t % Def(e.c).period = 0 /\ e.t > lastTick[e.c])))
       /\ lastTick' = [lastTick EXCEPT ![e.c] = e.t]
    /\ acts' = <<>>
    /\ UNCHANGED <<inb, outb, nextPort, sendsLeft, wakesLeft, nmsg, script>>

(* a component retrieves everything from all its ports (unless it is still stalling) *)
RECURSIVE DrainPorts(_, _, _, _)
DrainPorts(g, ps, i, now) ==
    IF i > Len(ps) THEN g
    ELSE DrainPorts(IF Len(inb[ps[i].name]) = ps[i].icap THEN NotifyAvailableOp(g, ps[i].conn, ps[i].name, now) ELSE g,
                    ps, i + 1, now)
Drain ==
    /\ run.c \in CompNames /\ run.phase = "drain"
    /\ LET c == run.c stalling == Len(script[c]) < Def(c).stall ps == PortsOf(c) IN
       IF stalling THEN /\ run' = [run EXCEPT !.phase = "script"] /\ UNCHANGED <<G, inb>>
       ELSE /\ G' = DrainPorts(G, ps, 1, time)
            /\ inb' = [p \in PortNames |-> IF PDef(p).owner = c THEN <<>> ELSE inb[p]]
            /\ run' = [run EXCEPT !.phase = "script", !.did = \E p \in Range(ps) : inb[p.name] # <<>>]
    /\ UNCHANGED <<time, outb, nextPort, sendsLeft, wakesLeft, nmsg, script, acts, lastTick, tickOK>>

Send(p, dst) ==
    /\ run.c \in CompNames /\ run.phase = "script" /\ sendsLeft > 0
    /\ PDef(p).owner = run.c /\ PDef(dst).conn = PDef(p).conn /\ dst # p
    /\ Len(outb[p]) < PDef(p).ocap
    /\ outb' = [outb EXCEPT ![p] = Append(@, [id |-> nmsg + 1, dst |-> dst])]
    /\ G' = IF outb[p] = <<>> THEN TickNowOp(G, PDef(p).conn, time) ELSE G      \* NotifySend
    /\ nmsg' = nmsg + 1 /\ sendsLeft' = sendsLeft - 1
    /\ run' = [run EXCEPT !.did = TRUE]
    /\ acts' = Append(acts, [op |-> "send", port |-> p, dst |-> dst])
    /\ UNCHANGED <<time, inb, nextPort, wakesLeft, script, lastTick, tickOK>>

Wake(d) ==
    /\ run.c \in EDs /\ run.phase = "script" /\ wakesLeft > 0 /\ time + d <= Horizon
    /\ G' = WakeAtOp(G, run.c, time + d)
    /\ wakesLeft' = wakesLeft - 1
    /\ acts' = Append(acts, [op |-> "wake", d |-> d])
    /\ UNCHANGED <<time, inb, outb, nextPort, run, sendsLeft, nmsg, script, lastTick, tickOK>>

EndComp ==
    /\ run.c \in CompNames /\ run.phase = "script"
    /\ G' = IF Def(run.c).kind = "tick" /\ run.did THEN TickLaterOp(G, run.c, time) ELSE G
    /\ script' = [script EXCEPT ![run.c] = Append(@, acts)]
    /\ run' = [c |-> "", phase |-> "", i |-> 0, did |-> FALSE] /\ acts' = <<>>
    /\ UNCHANGED <<time, inb, outb, nextPort, sendsLeft, wakesLeft, nmsg, lastTick, tickOK>>

(* connection tick: ports in round-robin order starting at nextPort; forwardMany one message per step *)
CurPort == LET ps == PortsOn(run.c) IN ps[((run.i + nextPort[run.c]) % Len(ps)) + 1]
Forward ==
    /\ run.c \in ConnNames /\ run.phase = "fwd" /\ run.i < Len(PortsOn(run.c))
    /\ LET p == CurPort.name IN
       IF outb[p] # <<>> /\ Len(inb[Head(outb[p]).dst]) < PDef(Head(outb[p]).dst).icap
       THEN LET m == Head(outb[p]) d == m.dst
                g1 == IF inb[d] = <<>> THEN NotifyComp(G, PDef(d).owner, time) ELSE G              \* NotifyRecv
                g2 == IF Len(outb[p]) = PDef(p).ocap THEN NotifyComp(g1, PDef(p).owner, time) ELSE g1 \* NotifyPortFree
            IN /\ inb' = [inb EXCEPT ![d] = Append(@, m)]
               /\ outb' = [outb EXCEPT ![p] = Tail(@)]
               /\ G' = g2
               /\ run' = [run EXCEPT !.did = TRUE]
       ELSE /\ run' = [run EXCEPT !.i = @ + 1] /\ UNCHANGED <<G, inb, outb>>
    /\ UNCHANGED <<time, nextPort, sendsLeft, wakesLeft, nmsg, script, acts, lastTick, tickOK>>
EndConn ==
    /\ run.c \in ConnNames /\ run.phase = "fwd" /\ run.i = Len(PortsOn(run.c))
    /\ nextPort' = [nextPort EXCEPT ![run.c] = (@ + 1) % Len(PortsOn(run.c))]
    /\ G' = IF run.did THEN TickLaterOp(G, run.c, time) ELSE G
    /\ run' = [c |-> "", phase |-> "", i |-> 0, did |-> FALSE]
    /\ UNCHANGED <<time, inb, outb, sendsLeft, wakesLeft, nmsg, script, acts, lastTick, tickOK>>

Quiescent == Idle /\ G.evq = {}
Next == \/ Dispatch \/ Drain \/ EndComp \/ Forward \/ EndConn
        \/ \E p, d \in PortNames : Send(p, d)
        \/ \E d \in WakeDelays : Wake(d)
        \/ (Quiescent /\ UNCHANGED vars)
Spec == Init /\ [][Next]_vars

(* ---------- properties ---------- *)
Draining(c) == Def(c).stall = 0 \/ Len(script[c]) >= Def(c).stall
Lost == \/ \E p \in PortNames : outb[p] # <<>> /\ Len(inb[Head(outb[p]).dst]) < PDef(Head(outb[p]).dst).icap
        \/ \E p \in PortNames : Draining(PDef(p).owner) /\ inb[p] # <<>>
NoLostWakeup == Quiescent => ~Lost                      \* C09 — reported as hypotheses, see Emit
BufferBounds == \A p \in PortNames : Len(inb[p]) <= PDef(p).icap /\ Len(outb[p]) <= PDef(p).ocap
TickDiscipline == tickOK                                \* C12: on edges, at most once per instant
GuardSound == \A c \in Ticking : \A e \in G.evq : e.c = c => (G.guard[c].has /\ G.guard[c].next >= e.t)
TimeBounded == time <= Horizon + 24   \* sanity bound that keeps the model finite, not a property of interest
Emit == Quiescent => PrintT(<<"BEHAVIOUR", ToJson([topo |-> T, script |-> script, lost |-> Lost, time |-> time])>>)
==============================================================================
