SPECIFICATION Spec
CONSTANTS
  TopoId = 1
  MaxSends = 3
  MaxWakes = 2
  Horizon = 3
  Repaired = TRUE
  WakeDelays = {0, 1, 2}
INVARIANTS BufferBounds TickDiscipline GuardSound TimeBounded Emit
CHECK_DEADLOCK TRUE
