----------------------------- MODULE EventDriven -----------------------------
(* C13 — event-driven components wake no later than requested.

   Two layers in one module.

   ABSTRACT (what the statement says; operators in EventDrivenAbs.tla).
   `due` is the set of outstanding obligations: a wake request for time t >= now (from outside the processor,
   or by the processor itself while it runs) adds t; a receive / port-free
   notification adds `now` ("runs at the current instant" — a pending wakeup
   that is not later than the current instant can only be at the current
   instant, so the second alternative of the statement is the same deadline).
   A processor run at time r discharges every obligation t >= r that was
   raised BEFORE the run; an obligation that is passed (t < r) stays in `due`
   for ever.  WakeNoLaterThan is then:
       NoOverdue  no outstanding obligation lies in the past, and
       Covered    every outstanding obligation has a wakeup at or before it
                  still to come (so that it cannot be missed at quiescence).
   How many runs happen is left free: a run never violates anything, only
   lateness or a missing run does.  The log of the real component is judged by
   exactly these rules (EventDrivenTrace.tla, and the same rules in
   checks/c13.py to name the failing case); the number and the times of runs
   are never compared with this model.

   MECHANISM (how modeling/eventdriven.go tries to achieve it): a guard
   `pending` (earliest wakeup believed to be queued) suppresses a request that
   is not earlier than it; a dispatched wakeup resets the guard before the
   processor runs; the engine dispatches queued wakeups in time order and
   time only moves when nothing at or before `now` is queued.  TLC checks that
   this mechanism satisfies the abstract layer for every interleaving of
   requests (earlier / later / equal / repeated, from outside and from inside
   the processor), notifications, dispatches and clock ticks within the
   bounds, and emits the transition graph whose paths are the input histories
   replayed on the real component.

   Guard = "code" is the mechanism as found.  The other values are mutant
   controls of the specification (EventDriven_control*.cfg, EXPECTED to fail):
     "no_reset"    the dispatch does not reset the guard
     "any_pending" any pending wakeup suppresses a request, even a later one
     "deaf_in_run" a notification that arrives while the processor is running
                   is dropped ("a running component is awake anyway")

     "skip_idle"   a wakeup that fires at the instant of a run that reported
                   "no progress" resets the guard but does not run the processor

   The processor reports whether it made progress (the boolean result of
   Process).  The statement does not let the obligation depend on that answer,
   so it is a free boolean of every run here (`idle`): WakeNoLaterThan is the
   same whatever the runs report.  The mechanism as found ignores it; the
   variable idleAt exists only for the "skip_idle" control.

   While the processor runs it may not only ask for wakeups: a message may be
   delivered to one of its ports, or one of its ports may become free, at that
   very moment (a loop-back caused by the processor itself, or another handler
   of the same instant under a parallel engine).  Such a notification raises
   the same obligation as any other: a run at the current instant AFTER the
   current run (the dispatch has reset the guard before the processor started,
   so the wakeup it asks for is a fresh one).  In the operation sequence of a
   dispatch the codes NRecv / NFree stand for these notifications, the numbers
   0..MaxD for wake requests.                                                *)
EXTENDS EventDrivenAbs, Sequences, FiniteSets, TLC, Json

CONSTANTS MaxT,    \* clock ticks move `now` up to MaxT
          MaxD,    \* a request asks for now + d, d \in 0..MaxD
          MaxEv,   \* bound on queued wakeup events
          MaxReq,  \* the processor makes at most MaxReq requests per run
          Guard

TMax   == MaxT + MaxD
Times  == 0..TMax
NoWake == TMax + 1

VARIABLES now,      \* engine time
          queue,    \* mechanism: queued wakeup events, [Times -> Nat] (a bag)
          pending,  \* mechanism: the guard (NoWake = none)
          due,      \* abstract: outstanding obligations
          idleAt,   \* control "skip_idle" only: instant of the last run if it reported no progress, else NoWake
          last
vars == <<now, queue, pending, due, idleAt, last>>

RECURSIVE SumTo(_, _)
SumTo(f, k) == IF k = 0 THEN f[0] ELSE f[k] + SumTo(f, k - 1)
QSize(q) == SumTo(q, TMax)
Earliest(q) == CHOOSE x \in Times : q[x] > 0 /\ \A y \in Times : q[y] > 0 => x <= y

St  == [now |-> now,  queue |-> queue,  pending |-> pending,  due |-> due]
St2 == [now |-> now', queue |-> queue', pending |-> pending', due |-> due']

Init == /\ now = 0 /\ queue = [x \in Times |-> 0] /\ pending = NoWake /\ due = {} /\ idleAt = NoWake
        /\ last = [op |-> "new", d |-> 0, at |-> 0, reqs |-> <<>>, idle |-> FALSE]
        /\ PrintT(<<"INIT", ToJson(St)>>)

\* one wake request for time t applied to a (pending, queue, due) record
Suppressed(m, t) == IF Guard = "any_pending" THEN m.pending # NoWake
                    ELSE m.pending # NoWake /\ m.pending <= t
Request(m, t) == IF Suppressed(m, t)
                 THEN [m EXCEPT !.due = Raise(@, t)]
                 ELSE [pending |-> t, queue |-> [m.queue EXCEPT ![t] = @ + 1], due |-> Raise(m.due, t)]
Cur == [pending |-> pending, queue |-> queue, due |-> due]
Become(m) == pending' = m.pending /\ queue' = m.queue /\ due' = m.due

\* a request from outside the processor (another handler, the test bench)
ExtReq(d) == /\ now + d <= TMax
             /\ LET m == Request(Cur, now + d) IN QSize(m.queue) <= MaxEv /\ Become(m)
             /\ UNCHANGED <<now, idleAt>>
             /\ last' = [op |-> "req", d |-> d, at |-> now, reqs |-> <<>>, idle |-> FALSE]

Notify(kind) == /\ LET m == Request(Cur, now) IN QSize(m.queue) <= MaxEv /\ Become(m)
                /\ UNCHANGED <<now, idleAt>>
                /\ last' = [op |-> kind, d |-> 0, at |-> now, reqs |-> <<>>, idle |-> FALSE]

\* what can happen while the processor runs: a wake request now + d, or a
\* notification (receive / port free)
NRecv == 100
NFree == 101
Notes == {NRecv, NFree}
InOps == (0..MaxD) \cup Notes
OpTime(tau, x) == IF x \in Notes THEN tau ELSE tau + x
InRun(m, tau, x) == IF x \in Notes /\ Guard = "deaf_in_run"
                    THEN [m EXCEPT !.due = Raise(@, tau)]
                    ELSE Request(m, OpTime(tau, x))
RECURSIVE InRuns(_, _, _)
InRuns(m, tau, xs) == IF xs = <<>> THEN m ELSE InRuns(InRun(m, tau, Head(xs)), tau, Tail(xs))

\* the engine dispatches the earliest queued wakeup; the processor runs at that
\* time; ds is what happens while it runs, idle is what it reports afterwards
DeltaSeqs == UNION {[1..k -> InOps] : k \in 0..MaxReq}
Dispatch(ds, idle) ==
  /\ QSize(queue) > 0
  /\ LET tau  == Earliest(queue)
         skip == Guard = "skip_idle" /\ idleAt = tau     \* control only: the processor is not run
         m0   == [pending |-> IF Guard = "no_reset" THEN pending ELSE NoWake,
                  queue   |-> [queue EXCEPT ![tau] = @ - 1],
                  due     |-> IF skip THEN due ELSE Discharge(due, tau)]
         m1   == InRuns(m0, tau, ds)
     IN /\ \A i \in 1..Len(ds) : OpTime(tau, ds[i]) <= TMax
        /\ skip => (ds = <<>> /\ idle)
        /\ QSize(m1.queue) <= MaxEv
        /\ now' = tau
        /\ Become(m1)
        /\ idleAt' = (IF Guard = "skip_idle" /\ (idle \/ skip) THEN tau ELSE NoWake)
        /\ last' = [op |-> "dispatch", d |-> 0, at |-> tau, reqs |-> ds, idle |-> idle]

\* the clock moves on when nothing at or before `now` is left to dispatch
Tick == /\ now < MaxT
        /\ \A x \in Times : queue[x] > 0 => x > now
        /\ now' = now + 1
        /\ UNCHANGED <<queue, pending, due, idleAt>>
        /\ last' = [op |-> "tick", d |-> 0, at |-> now + 1, reqs |-> <<>>, idle |-> FALSE]

Next == \/ \E d \in 0..MaxD : ExtReq(d)
        \/ Notify("notify_recv") \/ Notify("notify_free")
        \/ \E ds \in DeltaSeqs, idle \in BOOLEAN : Dispatch(ds, idle)
        \/ Tick
Spec == Init /\ [][Next]_vars

---------------------------------------------------------------------------
TypeOK == /\ now \in Times /\ queue \in [Times -> 0..MaxEv]
          /\ pending \in Times \cup {NoWake} /\ due \subseteq Times /\ idleAt \in Times \cup {NoWake}

(* WakeNoLaterThan *)
NoOverdue == NoOverdueAt(due, now)
Covered   == \A t \in due : \E x \in Times : queue[x] > 0 /\ x <= t
WakeNoLaterThan == NoOverdue /\ Covered

(* facts about the mechanism that make it work *)
GuardSound  == pending # NoWake => queue[pending] > 0
NothingLate == \A x \in Times : queue[x] > 0 => x >= now
Quiescent   == QSize(queue) = 0 => due = {}

TimeMonotone == [][now' >= now]_vars

View == <<now, queue, pending, due, idleAt>>
Emit == PrintT(<<"EDGE", ToJson([s |-> St, a |-> last', t |-> St2])>>)
=============================================================================
