\* EXPECTED TO FAIL (mutant control of the specification): the dispatch does not reset the guard.
SPECIFICATION Spec
CONSTANTS
  MaxT = 2
  MaxD = 2
  MaxEv = 3
  MaxReq = 1
  Guard = "no_reset"
VIEW View
INVARIANT WakeNoLaterThan
CHECK_DEADLOCK FALSE
