SPECIFICATION TSpec
CONSTANT TickRule = TRUE
INVARIANT Bounded
CONSTRAINT Mark
POSTCONDITION TraceAccepted
CHECK_DEADLOCK FALSE
