---------------------------- MODULE EventDrivenAbs ----------------------------
(* C13 — the abstract layer of EventDriven.tla as pure operators, shared by the
   model (EventDriven.tla) and by the trace specification that judges logs of
   the real component (EventDrivenTrace.tla).

   `due` is the set of outstanding obligations (deadlines).                    *)
EXTENDS Naturals

\* a wake request for time t, or a notification at time t, raises an obligation
Raise(due, t) == due \cup {t}

\* a processor run at time r discharges every obligation it is not too late
\* for; an obligation that was passed stays (and is reported by NoOverdueAt)
Discharge(due, r) == {t \in due : t < r}

\* no outstanding obligation lies in the past
NoOverdueAt(due, now) == \A t \in due : t >= now
=============================================================================
