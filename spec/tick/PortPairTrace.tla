--------------------------- MODULE PortPairTrace ---------------------------
(* C11, concurrent schedules judged by TLC.  Every record of the trace file is one
   gate-controlled two-goroutine run on the real messaging port:

     init   the state of Port.tla the port was brought into (ic, oc, inq, outq)
     a      the operation of goroutine A with the value it returned   [op, arg, val]
     b      the operations of goroutine B, in program order, with their values
     final  contents of both buffers afterwards (obtained by draining the real port)
     seen   how many notifications of each kind the stub owner / stub connection
            received between the start of the first and the end of the last operation

   A record is ACCEPTED iff some position p of A within B exists such that running
   the operations in that order through the actions of Port.tla (Next, unchanged)
   returns exactly the recorded values, ends in the recorded contents, and the
   notifications REQUIRED along that order (res.need of every step) are contained
   in the ones seen.  The position is chosen nondeterministically; TLC tries all.
   Records are consumed one after the other (high-water mark of TraceCommon): the
   run is accepted iff every record is.                                          *)
EXTENDS Port, TraceCommon, Integers
VARIABLES l,      \* record being judged
          p,      \* chosen position of A within B (-1: not chosen yet)
          k,      \* operations of the chosen order already executed
          need    \* required notifications accumulated along the order
tvars == <<ic, oc, inq, outq, last, l, p, k, need>>
Kinds == {"recv", "free", "send", "available"}
Zero == [x \in Kinds |-> 0]
Idle == [op |-> "new", arg |-> 0, res |-> [val |-> 0, need |-> {}]]

Rec == Trace[l]
Order(r, pos) == SubSeq(r.b, 1, pos) \o <<r.a>> \o SubSeq(r.b, pos + 1, Len(r.b))

TInit == /\ ic = 1 /\ oc = 1 /\ inq = <<>> /\ outq = <<>> /\ last = Idle
         /\ l = 1 /\ p = -1 /\ k = 0 /\ need = Zero
         /\ TraceMarkInit

(* bring the model into the recorded start state and choose where A takes effect *)
Choose == /\ l <= TraceLen /\ p = -1
          /\ ic' = Rec.init.ic /\ oc' = Rec.init.oc
          /\ inq' = Rec.init.inq /\ outq' = Rec.init.outq
          /\ last' = Idle
          /\ p' \in 0..Len(Rec.b)
          /\ k' = 0 /\ need' = Zero /\ UNCHANGED l

(* one operation of the chosen order: any action of Port.tla whose label and result are the recorded ones *)
Step == /\ l <= TraceLen /\ p >= 0 /\ k < Len(Rec.b) + 1
        /\ LET e == Order(Rec, p)[k + 1] IN
             /\ Next
             /\ last'.op = e.op
             /\ last'.arg = e.arg
             /\ last'.res.val = e.val
        /\ need' = [x \in Kinds |-> need[x] + (IF x \in last'.res.need THEN 1 ELSE 0)]
        /\ k' = k + 1 /\ UNCHANGED <<l, p>>

(* the order explains the run: same contents, every required notification was seen *)
Accept == /\ l <= TraceLen /\ p >= 0 /\ k = Len(Rec.b) + 1
          /\ inq = Rec.final.inq /\ outq = Rec.final.outq
          /\ \A x \in Kinds : need[x] <= Rec.seen[x]
          /\ l' = l + 1 /\ p' = -1 /\ k' = 0 /\ need' = Zero
          /\ ic' = 1 /\ oc' = 1 /\ inq' = <<>> /\ outq' = <<>> /\ last' = Idle

TNext == Choose \/ Step \/ Accept
TSpec == TInit /\ [][TNext]_tvars
Mark == TraceMark(l)

(* the model itself stays within the statement while it is used as the judge *)
TBounded == Len(inq) <= ic /\ Len(outq) <= oc
=============================================================================
