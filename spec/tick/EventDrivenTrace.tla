--------------------------- MODULE EventDrivenTrace ---------------------------
(* C13 — trace specification: judges logs recorded from a real
   modeling.EventDrivenComponent by the rules of the abstract layer
   (EventDrivenAbs.tla).

   The file named by the environment variable TRACE_FILE holds one JSON object
   per line, [k |-> kind, at |-> engine time, t |-> requested time]:
     reset                         a new log starts (time 0, nothing outstanding)
     req / inreq                   ScheduleWakeAt(t) from outside / inside the processor
     notify_recv / notify_free     a notification delivered at time at (t = at)
     in_notify_recv / in_notify_free   the same, delivered while the processor is running
     run                           the processor was invoked at time at
     end                           the engine ran out of events
   Every entry is one step.  Invariants:
     NoOverdue      when the log has reached time `at`, no obligation older than
                    `at` is outstanding (a run came too late, or not at all so far)
     NoneMissing    at `end` nothing is outstanding
     WellFormed     time does not run backwards inside a log and no request is in the past
   The check compares the number of distinct states with the length of the file
   to make sure the whole trace was consumed.                                 *)
EXTENDS EventDrivenAbs, Sequences, TLC, Json, IOUtils

Trace == ndJsonDeserialize(IOEnv.TRACE_FILE)

VARIABLES i, now, due, wf
vars == <<i, now, due, wf>>

Requests == {"req", "inreq", "notify_recv", "notify_free", "in_notify_recv", "in_notify_free"}

Init == i = 1 /\ now = 0 /\ due = {} /\ wf = TRUE

Next == /\ i <= Len(Trace)
        /\ LET e == Trace[i] IN
           /\ i' = i + 1
           /\ now' = (IF e.k = "reset" THEN 0 ELSE e.at)
           /\ wf' = (IF e.k = "reset" THEN TRUE
                     ELSE e.at >= now /\ (e.k \in Requests => e.t >= e.at))
           /\ due' = (CASE e.k = "reset"      -> {}
                        [] e.k = "run"        -> Discharge(due, e.at)
                        [] e.k \in Requests   -> Raise(due, e.t)
                        [] OTHER              -> due)
Spec == Init /\ [][Next]_vars

NoOverdue   == NoOverdueAt(due, now)
NoneMissing == (i > 1 /\ Trace[i - 1].k = "end") => due = {}
WellFormed  == wf
=============================================================================
