\* EXPECTED TO FAIL (mutant control of the specification): any pending wakeup suppresses a request.
SPECIFICATION Spec
CONSTANTS
  MaxT = 2
  MaxD = 2
  MaxEv = 3
  MaxReq = 1
  Guard = "any_pending"
VIEW View
INVARIANT WakeNoLaterThan
CHECK_DEADLOCK FALSE
