SPECIFICATION Spec
CONSTANTS
  TopoId = 1
  MaxSends = 3
  MaxWakes = 1
  Horizon = 2
  Repaired = FALSE
  WakeDelays = {1}
INVARIANTS BufferBounds TickDiscipline GuardSound TimeBounded NoLostWakeup
CHECK_DEADLOCK TRUE
