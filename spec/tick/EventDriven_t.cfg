SPECIFICATION Spec
CONSTANTS
  MaxT = 4
  MaxD = 3
  MaxEv = 4
  MaxReq = 2
  Guard = "code"
VIEW View
ACTION_CONSTRAINT Emit
INVARIANT TypeOK
INVARIANT WakeNoLaterThan
INVARIANT GuardSound
INVARIANT NothingLate
INVARIANT Quiescent
PROPERTY TimeMonotone
CHECK_DEADLOCK FALSE
