\* EXPECTED TO HOLD: dropping a timer that fires before the armed guard is, with the order as found, harmless.
SPECIFICATION Spec
CONSTANTS
  MaxT = 1
  MaxD = 2
  MaxEv = 3
  MaxReq = 2
  Notifiers = {"n1"}
  Order = "code"
  Drop = TRUE
VIEW View
INVARIANT TypeOK
INVARIANT WakeNoLaterThan
INVARIANT Quiescent
INVARIANT NothingLate
CHECK_DEADLOCK FALSE
