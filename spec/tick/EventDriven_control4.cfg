\* EXPECTED TO FAIL (mutant control of the specification): a wakeup at the instant of an idle run does not run the processor.
SPECIFICATION Spec
CONSTANTS
  MaxT = 2
  MaxD = 2
  MaxEv = 3
  MaxReq = 1
  Guard = "skip_idle"
VIEW View
INVARIANT WakeNoLaterThan
CHECK_DEADLOCK FALSE
