\* EXPECTED TO FAIL (mutant control of the specification): the guard is written after the engine call AND
\* Handle drops a timer that fires before the time the guard is armed for.
SPECIFICATION Spec
CONSTANTS
  MaxT = 1
  MaxD = 2
  MaxEv = 3
  MaxReq = 2
  Notifiers = {"n1"}
  Order = "sched_first"
  Drop = TRUE
VIEW View
INVARIANT WakeNoLaterThan
CHECK_DEADLOCK FALSE
