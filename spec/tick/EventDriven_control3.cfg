\* EXPECTED TO FAIL (mutant control of the specification): a notification during the processor run is dropped.
SPECIFICATION Spec
CONSTANTS
  MaxT = 2
  MaxD = 2
  MaxEv = 3
  MaxReq = 1
  Guard = "deaf_in_run"
VIEW View
INVARIANT WakeNoLaterThan
CHECK_DEADLOCK FALSE
