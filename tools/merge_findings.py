#!/usr/bin/env python3
"""Merge findings.d/<ID>.json fragments into known_findings.json (and delete the fragments)."""
import json, os, sys
ROOT = os.path.dirname(os.path.dirname(os.path.abspath(__file__)))
kp = os.path.join(ROOT, "known_findings.json")
k = json.load(open(kp))
ids = {f["id"] for f in k["findings"]}
for pid in sys.argv[1:]:
    fp = os.path.join(ROOT, "findings.d", pid + ".json")
    if not os.path.exists(fp):
        print("no fragment for", pid); continue
    for f in json.load(open(fp))["findings"]:
        if f["id"] in ids:
            k["findings"] = [x for x in k["findings"] if x["id"] != f["id"]]
        k["findings"].append(f); ids.add(f["id"])
    os.remove(fp)
k["findings"].sort(key=lambda f: (f["property"], f["id"]))
k.setdefault("fixed", [])
json.dump(k, open(kp, "w"), indent=1)
print("known_findings.json:", len(k["findings"]), "open findings,", len(k["fixed"]), "fixed")
