#!/usr/bin/env python3
"""tools/seed_verify.py <ID> <demo_pkg_dir> [check ids...]
Confirms a seeded change (/tmp/seeded/<ID> or /verif/seeded/<ID>): the demonstration passes on the
unchanged tree and fails with the patch, the touched package's tests still pass, then runs the
given checks (default: <ID>) against the patched worktree. Records what was run in meta.json and
copies the seed to /verif/seeded/<ID>/. Never touches /repo itself."""
import json, os, shutil, subprocess, sys, glob, time
ID = sys.argv[1]; pkg = sys.argv[2]; checks = sys.argv[3:] or [ID]
ROUND = os.environ.get("SEED_ROUND", "")
SUF = ("-r" + ROUND) if ROUND else ""
tmpsrc = "/tmp/seeded%s/%s" % (ROUND, ID)
src = tmpsrc if os.path.isdir(tmpsrc) else "/verif/seeded/%s%s" % (ID, SUF)
wt = "/tmp/wt-verify-%s%s" % (ID, SUF)
env = dict(os.environ, GOFLAGS="-mod=mod", GOPROXY="off", GOSUMDB="off", GOTOOLCHAIN="local")
def sh(cmd, cwd=None, e=None, t=3000):
    p = subprocess.run(cmd, shell=True, cwd=cwd, env=e or env, capture_output=True, text=True, timeout=t)
    return p.returncode, (p.stdout + p.stderr)
subprocess.run("git -C /repo worktree remove --force %s" % wt, shell=True, capture_output=True)
rc, out = sh("git -C /repo worktree add -q %s HEAD" % wt); assert rc == 0, out
log = {"repo_head": sh("git -C /repo rev-parse --short HEAD")[1].strip()}
try:
    demos = [f for f in glob.glob(src + "/*_test.go")]
    maindir = [d for d in glob.glob(src + "/cmd_demo_*") if os.path.isdir(d)]
    mains = glob.glob(src + "/main.go")
    def run_demo():
        if demos:
            for f in demos:
                shutil.copy(f, os.path.join(wt, pkg))
            names = "|".join(sorted({l.split("(")[0].split()[1] for f in demos for l in open(f) if l.startswith("func Test")}))
            return sh("go1.26.8 test -count=1 -run '%s' ./%s/" % (names, pkg), cwd=wt)
        if maindir:
            dst = os.path.join(wt, os.path.basename(maindir[0]))
            if not os.path.isdir(dst): shutil.copytree(maindir[0], dst)
            return sh("go1.26.8 run ./%s/" % os.path.basename(maindir[0]), cwd=wt)
        if mains:
            dst = os.path.join(wt, "cmd_demo_" + ID); os.makedirs(dst, exist_ok=True); shutil.copy(mains[0], dst)
            return sh("go1.26.8 run ./cmd_demo_%s/" % ID, cwd=wt)
        return 99, "no demo"
    rc0, o0 = run_demo(); log["demo_without_patch_rc"] = rc0
    rc, out = sh("git apply %s/patch.diff" % src, cwd=wt); assert rc == 0, "patch does not apply: " + out
    rc1, o1 = run_demo(); log["demo_with_patch_rc"] = rc1; log["demo_with_patch_tail"] = o1[-600:]
    for f in demos: os.remove(os.path.join(wt, pkg, os.path.basename(f)))
    rcb, ob = sh("go1.26.8 build ./...", cwd=wt); log["build_rc"] = rcb
    rct, ot = sh("go1.26.8 test -count=1 ./%s/..." % pkg, cwd=wt); log["pkg_tests_rc"] = rct; log["pkg_tests_tail"] = ot[-300:]
    log["checks"] = {}
    for c in checks:
        t0 = time.time()
        rcc, oc = sh("./check %s quick" % c, cwd="/verif", e=dict(os.environ, VERIF_REPO=wt), t=6000)
        viol = [l for l in oc.splitlines() if l.startswith("VIOLATION")]
        log["checks"][c] = {"exit": rcc, "violations": len(viol), "wall_s": round(time.time() - t0), "first": (viol[:1] + [l.strip() for l in oc.splitlines() if l.startswith("  ")][:1])}
        subprocess.run("cd /verif && git checkout -- evidence/%s.json" % c, shell=True, capture_output=True)
finally:
    subprocess.run("git -C /repo worktree remove --force %s" % wt, shell=True, capture_output=True)
dst = "/verif/seeded/%s%s" % (ID, SUF)
if src != dst:
    os.makedirs(dst, exist_ok=True)
    for f in os.listdir(src):
        s = os.path.join(src, f)
        (shutil.copytree if os.path.isdir(s) else shutil.copy)(s, os.path.join(dst, f)) if not os.path.exists(os.path.join(dst, f)) else None
mp = os.path.join(dst, "meta.json")
meta = json.load(open(mp)) if os.path.exists(mp) else {"property": ID}
meta["verified_by_integrator"] = log
json.dump(meta, open(mp, "w"), indent=1)
print(ID, json.dumps(log, indent=None)[:1500])
