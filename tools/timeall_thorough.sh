#!/bin/sh
cd /verif
for id in $(grep -v '^#' tools/ready.txt | sort); do
  s=$(date +%s); out=$(timeout 3600 ./check $id thorough 2>&1); rc=$?; e=$(date +%s)
  echo "$id rc=$rc wall=$((e-s))s known=$(echo "$out" | grep -c '^KNOWN-FINDING') viol=$(echo "$out" | grep -c '^VIOLATION') $(echo "$out" | grep -E 'BROKEN' | head -1 | cut -c1-200)"
  git checkout -q -- evidence/$id.json 2>/dev/null
done
