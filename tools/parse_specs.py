#!/usr/bin/env python3
"""SANY-parse every specification under spec/ (in a scratch copy)."""
import os, shutil, subprocess, sys, tempfile
ROOT = os.path.dirname(os.path.dirname(os.path.abspath(__file__)))
JARS = "/opt/veriftools/tla/tla2tools.jar:/opt/veriftools/tla/CommunityModules-deps.jar"
bad = 0
for area in sorted(os.listdir(os.path.join(ROOT, "spec"))):
    src = os.path.join(ROOT, "spec", area)
    if not os.path.isdir(src):
        continue
    d = tempfile.mkdtemp(prefix="sany-")
    for fn in os.listdir(src):
        shutil.copy(os.path.join(src, fn), d)
    common = os.path.join(ROOT, "spec", "common")
    if os.path.isdir(common) and area != "common":
        for fn in os.listdir(common):
            shutil.copy(os.path.join(common, fn), d)
    tlas = sorted(f for f in os.listdir(src) if f.endswith(".tla"))
    for t in tlas:
        p = subprocess.run(["java", "-cp", JARS, "tla2sany.SANY", t], cwd=d, capture_output=True, text=True)
        ok = p.returncode == 0 and "error" not in p.stdout.lower().replace("0 errors", "")
        if not ok:
            bad += 1
            print("SANY FAILED", area, t); print(p.stdout[-2000:])
    shutil.rmtree(d, ignore_errors=True)
print("sany: all specifications parse" if not bad else "sany: %d failures" % bad)
sys.exit(1 if bad else 0)
