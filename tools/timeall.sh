#!/bin/sh
# run every integrated check's quick tier once, log exit code and wall time
cd /verif
for id in $(grep -v '^#' tools/ready.txt); do
  s=$(date +%s); out=$(./check $id quick 2>&1); rc=$?; e=$(date +%s)
  echo "$id rc=$rc wall=$((e-s))s known=$(echo "$out" | grep -c '^KNOWN-FINDING') viol=$(echo "$out" | grep -c '^VIOLATION')"
done
