#!/usr/bin/env python3
"""Run the repository's test suite with the verif tag OFF and compare per test name with
/root/.vp/BASELINE.json stable_pass. Prints missing/failed tests; exit 0 iff all stable tests pass."""
import json, os, subprocess, sys
env = dict(os.environ, GOFLAGS="-mod=mod", GOPROXY="off", GOSUMDB="off", GOTOOLCHAIN="local")
p = subprocess.run(["go1.26.8", "test", "-json", "-vet=off", "-count=1", "-timeout", "25m", "./..."], cwd="/repo", env=env,
                   capture_output=True, text=True)
passed, failed = set(), set()
for line in p.stdout.splitlines():
    try:
        r = json.loads(line)
    except Exception:
        continue
    if r.get("Test") and r.get("Action") in ("pass", "fail"):
        name = "%s::%s" % (r["Package"], r["Test"])
        (passed if r["Action"] == "pass" else failed).add(name)
stable = set(json.load(open("/root/.vp/BASELINE.json"))["stable_pass"])
missing = sorted(stable - passed)
print("stable_pass=%d passed_now=%d missing_or_failed=%d" % (len(stable), len(passed & stable), len(missing)))
for m in missing[:40]:
    print("  NOT PASSING:", m, "(failed)" if m in failed else "(not run)")
sys.exit(1 if missing else 0)
