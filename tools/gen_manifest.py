#!/usr/bin/env python3
"""Regenerate MANIFEST.json from the check modules (checks/cNN.py) — the modules are the
single source of truth for level / technique / notes."""
import importlib, json, os, subprocess, sys
ROOT = os.path.dirname(os.path.dirname(os.path.abspath(__file__)))
sys.path.insert(0, ROOT)

props = [json.loads(l) for l in open(os.path.join(ROOT, "properties.jsonl"))]
NA = {}
na_path = os.path.join(ROOT, "tools", "not_applicable.json")
if os.path.exists(na_path):
    NA = json.load(open(na_path))

READY = set(l.strip() for l in open(os.path.join(ROOT, "tools", "ready.txt")) if l.strip() and not l.startswith("#"))
checks, na = [], []
for p in props:
    pid = p["id"]
    path = os.path.join(ROOT, "checks", pid.lower() + ".py")
    if pid in NA or pid not in READY or not os.path.exists(path):
        na.append({"property_id": pid, "reason": NA.get(pid, "check not built yet in this session (see DESIGN.md section 5 for the plan)")})
        continue
    m = importlib.import_module("checks." + pid.lower())
    c = {
        "property_id": pid,
        "quick_cmd": "./check %s quick" % pid,
        "thorough_cmd": "./check %s thorough" % pid,
        "evidence_file": "/verif/evidence/%s.json" % pid,
        "engine": getattr(m, "ENGINE", "tlc+go-harness"),
        "level_claimed": {"category": m.LEVEL, "text": getattr(m, "LEVEL_TEXT", (m.__doc__ or "").strip()),
                          "design_ref": getattr(m, "DESIGN_REF", "DESIGN.md section 5, " + pid)},
        "level_note": getattr(m, "LEVEL_NOTE", "TLC 1.8 and the Go toolchain are trusted; bounds as stated in the evidence file"),
        "technique": getattr(m, "TECHNIQUE", "TLA+ spec checked by TLC; behaviours replayed on the real code"),
    }
    checks.append(c)

hooks_commits = []
hp = os.path.join(ROOT, "tools", "hook_commits.txt")
if os.path.exists(hp):
    hooks_commits = [l.split()[0] for l in open(hp) if l.strip() and not l.startswith("#")]

manifest = {
    "version": 1,
    "setup_cmd": "./setup.sh",
    "hooks": {
        "guard": "verif",
        "enable": "go build -tags verif (every harness binary is built with the tag by vlib/core.py build_harness)",
        "baseline_off_cmd": "cd /repo && GOPROXY=off GOSUMDB=off GOFLAGS=-mod=mod GOTOOLCHAIN=local go1.26.8 test -json -vet=off -count=1 -timeout 25m ./...",
        "source_commits": hooks_commits,
        "add_only": True,
    },
    "engines": [
        {"name": "tlc+go-harness", "path": "/verif/check", "serves_properties": [c["property_id"] for c in checks],
         "kind_free_text": "explicit TLA+ specifications (spec/) checked with TLC; behaviours replayed on the real packages and recorded traces validated against the specification (harness/, vlib/)"}
    ],
    "checks": checks,
    "not_applicable": na,
    "notes": "All verdicts come from real-code behaviour (DESIGN.md R1). known_findings.json lists recorded genuine defects; exit 2 = check broken.",
}
json.dump(manifest, open(os.path.join(ROOT, "MANIFEST.json"), "w"), indent=1)
print("MANIFEST.json: %d checks, %d not_applicable" % (len(checks), len(na)))
