#!/usr/bin/env python3
"""Regenerates the machine-written tables of DESIGN.md (between the GENERATED markers) from
known_findings.json, seeded/*/meta.json, tools/hook_commits.txt and the check modules."""
import json, glob, os, re, importlib, sys
ROOT = os.path.dirname(os.path.dirname(os.path.abspath(__file__))); sys.path.insert(0, ROOT)
k = json.load(open(os.path.join(ROOT, "known_findings.json")))
out = []
out.append("#### Repaired defects (`fix:` commits in /repo; from known_findings.json `fixed`)\n")
out.append("| property | commit | what failed |\n|---|---|---|")
for f in k.get("fixed", []):
    m = re.match(r"fixed: property=(\S+) (\S+) (.*)", f)
    out.append("| %s | %s | %s |" % (m.group(1), m.group(2), m.group(3).replace("|", "/")))
out.append("\n#### Known findings (open; the check prints KNOWN-FINDING and exits 0, anything else is a VIOLATION)\n")
out.append("| property | id | what fails | match key |\n|---|---|---|---|")
for f in k["findings"]:
    out.append("| %s | %s | %s | `%s` |" % (f["property"], f["id"], f["what"].replace("|", "/")[:400], json.dumps(f["match"])[:200]))
out.append("\n#### Hooks in /repo (build tag `verif`)\n")
for l in open(os.path.join(ROOT, "tools", "hook_commits.txt")):
    if l.strip(): out.append("* `%s`" % l.strip())
out.append("\n#### Seeded changes (written by fresh sub-agents from the property text only) and which check catches them\n")
out.append("| seed | change | needs | demo fails with / passes without | check result on the patched tree |\n|---|---|---|---|---|")
for mp in sorted(glob.glob(os.path.join(ROOT, "seeded", "*", "meta.json"))):
    m = json.load(open(mp)); v = m.get("verified_by_integrator", {})
    res = "; ".join("%s: exit %s (%s violations)" % (c, x["exit"], x["violations"]) for c, x in v.get("checks", {}).items())
    note = m.get("integrator_note", "")
    out.append("| %s | %s | %s | %s / %s | %s %s |" % (os.path.basename(os.path.dirname(mp)), str(m.get("summary", ""))[:300].replace("|", "/"),
               str(m.get("needs", ""))[:250].replace("|", "/"), "yes" if v.get("demo_with_patch_rc") else "?", "yes" if v.get("demo_without_patch_rc") == 0 else "?", res, note))
out.append("\n#### Checks as built (from the check modules and the committed evidence of the last quick run)\n")
out.append("| id | level | technique | TLC states / transitions (quick) | behaviours replayed or traces validated | evaluations |\n|---|---|---|---|---|---|")
for l in open(os.path.join(ROOT, "tools", "ready.txt")):
    pid = l.strip()
    if not pid or pid.startswith("#"): continue
    try:
        m = importlib.import_module("checks." + pid.lower())
        e = json.load(open(os.path.join(ROOT, "evidence", pid + ".json")))
        c = e["coverage"]
        out.append("| %s | %s | %s | %s / %s | %s | %s |" % (pid, m.LEVEL, getattr(m, "TECHNIQUE", "")[:260].replace("|", "/"), c.get("states", ""), c.get("transitions", ""),
                   c.get("traces_validated_against_impl", ""), c.get("evaluations", "")))
    except Exception as x:
        out.append("| %s | ? | %s | | | |" % (pid, x))
txt = "\n".join(out) + "\n"
p = os.path.join(ROOT, "DESIGN.md"); s = open(p).read()
a, b = "<!-- GENERATED:BEGIN -->", "<!-- GENERATED:END -->"
if a not in s:
    s = s.replace("### 0.5 False alarms met while building", "### 0.45 Generated tables\n\n%s\n%s\n\n### 0.5 False alarms met while building" % (a, b))
s = s[:s.index(a) + len(a)] + "\n" + txt + s[s.index(b):]
open(p, "w").write(s); print("DESIGN.md tables regenerated:", len(k.get("fixed", [])), "fixed,", len(k["findings"]), "open")
