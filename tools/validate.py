#!/usr/bin/env python3-vt
"""Validate MANIFEST.json and every evidence file against the schemas in /root/.vp."""
import json, glob, sys, jsonschema
ms = json.load(open("/root/.vp/MANIFEST.schema.json")); es = json.load(open("/root/.vp/EVIDENCE.schema.json"))
m = json.load(open("/verif/MANIFEST.json")); jsonschema.validate(m, ms); print("MANIFEST ok:", len(m["checks"]), "checks")
bad = 0
for c in m["checks"]:
    f = c["evidence_file"]
    try:
        e = json.load(open(f)); jsonschema.validate(e, es)
        if e["level"] != c["level_claimed"]["category"]:
            print("LEVEL MISMATCH", f, e["level"], c["level_claimed"]["category"]); bad += 1
    except Exception as x:
        print("BAD", f, str(x)[:200]); bad += 1
print("evidence files bad:", bad); sys.exit(1 if bad else 0)
