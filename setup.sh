#!/bin/sh
# MANIFEST.setup_cmd — offline build of every harness binary (warms the Go build cache)
# and a SANY parse of every specification.
set -e
cd "$(dirname "$0")"
export GOFLAGS=-mod=mod GOPROXY=off GOSUMDB=off GOTOOLCHAIN=local
mkdir -p .build evidence replays
cp /repo/go.sum harness/go.sum
for d in harness/cmd/*/; do
  n=$(basename "$d")
  echo "building $n"
  (cd harness && go1.26.8 build -tags verif -o ../.build/$n ./cmd/$n) || echo "WARNING: family $n does not build (its checks will report BROKEN)"
done
python3 tools/parse_specs.py || echo "WARNING: some specifications do not parse"
echo setup ok
