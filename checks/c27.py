"""C27 — MMU auto-allocation never aliases physical memory (spec/vm/MMUAlloc.tla).

1. TLC model-checks the abstract allocator of MMUAlloc.tla (any disjoint frame) over every
   small pre-populated table x request stream x interleaving of concurrent walks: one
   mapping per (pid, va), no auto page overlaps any other page, answers agree with the
   table, and a disjoint frame always exists (a correct allocator exists: non-vacuity).
2. TLC enumerates the (pre-populated table, request stream) cases (CaseSpec, CASE lines).
3. The Go driver `mmudir mmualloc` runs every case on the real MMU (exported builder,
   AutoPageAllocation, real vm page table, serial engine, direct connection, several
   requests in flight) under several timing configurations and dumps the final page table
   and the answers.
4. TLC (MMUAllocJudge.tla, same predicates from MMUAllocDefs.tla) judges every observation.
"""
import json, os, time, concurrent.futures
from vlib import core

LEVEL = "model_checking"
TECHNIQUE = ("TLA+ model of the page table with an abstract (any-disjoint-frame) allocator, model-checked by TLC; "
             "TLC-enumerated (pre-populated table x request stream) cases replayed on the real MMU; the observed final "
             "page tables are judged by TLC with the same predicates")
LEVEL_TEXT = ("Exhaustive within bounds: every pre-populated table of <=2 pages (bases in half-page steps over 2 frames "
              "quick / 4 frames thorough, sizes one/two pages, plus half pages in thorough) x every request stream of <=3 "
              "requests over the listed (pid, page) keys; each case under 3 latency / in-flight / window configurations "
              "(quick) or one of 8 rotating with case index and seed (thorough).")
LEVEL_NOTE = ("The real allocator is deterministic, so per case only the timing configurations listed are explored; "
              "physical space is 3-4 frames for pre-populated pages; address wrap-around near 2^64 is out of bounds.")

LOG2_PAGE = 12
U = 2                      # units per page in the model
UNIT_BYTES = (1 << LOG2_PAGE) // U
PAGE = 1 << LOG2_PAGE

# (lat, maxfl, window, topbuf, offset, pre-populated pages valid)
TIMINGS_Q = [(0, 1, 1, 1, 0, True), (2, 4, 4, 4, 100, True), (1, 2, 1, 2, 8, False)]
TIMINGS_T = TIMINGS_Q + [(0, 4, 3, 2, 8, True), (3, 2, 4, 1, 4095, True), (1, 1, 4, 4, 64, False), (5, 3, 2, 2, 1, True),
                         (4, 1, 1, 1, 7, True)]


def pre_class(o):
    unaligned = o["base"] % PAGE != 0
    if o["size"] > PAGE:
        return "unaligned_larger" if unaligned else "larger"
    if o["size"] < PAGE:
        return "unaligned_smaller" if unaligned else "aligned_smaller"
    return "unaligned" if unaligned else "aligned_pagesize"


def keys_of(v):
    """Feature keys (dicts) of one failing observation."""
    ks = []
    for al in v.get("alias") or []:
        if al["o_pre"]:
            ks.append({"kind": "alias", "other": "pre", "pre_class": pre_class(al["o"])})
        else:
            ks.append({"kind": "alias", "other": "auto", "pre_class": "none"})
    for name, kind in (("dup", "duplicate_mapping"), ("badkeys", "not_exactly_one_mapping"),
                       ("degenerate", "degenerate_page"), ("prelost", "prepopulated_page_changed"),
                       ("badrsps", "answer_inconsistent"), ("stray", "stray_answer")):
        if v.get(name):
            ks.append({"kind": kind, "other": "none", "pre_class": "none"})
    # one report per distinct key
    out, seen = [], set()
    for k in ks:
        c = core.canon(k)
        if c not in seen:
            seen.add(c)
            out.append(k)
    return out


def run(ck):
    q = ck.tier == "quick"
    # 1. the model itself and 2. the cases (two TLC runs side by side)
    with concurrent.futures.ThreadPoolExecutor(max_workers=2) as ex:
        fm = ex.submit(ck.run_tlc, ["vm"], "MMUAlloc", "MMUAlloc_q.cfg" if q else "MMUAlloc_t.cfg", workers=4 if q else 8,
                       timeout=240 if q else 900, tags=())
        fc = ex.submit(ck.run_tlc, ["vm"], "MMUAlloc", "MMUAlloc_cases_q.cfg" if q else "MMUAlloc_cases_t.cfg", workers=4,
                       timeout=240 if q else 600, tags=("CASE",))
        r = fm.result()
        if not r.ok:
            raise core.Broken("MMUAlloc model fails its own invariants: %s %s\n%s" % (r.violated, r.error, "\n".join(r.lines[-30:])))
        model_states = r.distinct
        r = fc.result()
    if not r.ok:
        raise core.Broken("case enumeration failed: %s %s" % (r.violated, r.error))
    cases = r.tagged["CASE"]
    if not cases:
        raise core.Broken("no cases emitted")
    cases.sort(key=core.canon)
    timings = TIMINGS_Q if q else TIMINGS_T
    runs = []
    for ci, c in enumerate(cases):
        if q:
            ts = timings
        else:
            # thorough: every case once, the timing configuration rotates with the case index and the seed
            ts = [timings[(ci + ck.seed) % len(timings)]]
        for (lat, maxfl, window, topbuf, offset, prevalid) in ts:
            runs.append(dict(id=len(runs), case=ci, pre=c["pre"], stream=c["stream"], lat=lat, maxfl=maxfl,
                             window=window, topbuf=topbuf, offset=offset, prevalid=prevalid))
    ck.note("model: %d states; %d cases -> %d runs on the real MMU (t=%.0fs)" % (model_states, len(cases), len(runs), time.time() - ck.t0))

    # 3. the real MMU
    binary = ck.binary("mmudir")
    chunk = 4000
    chunks = [runs[i:i + chunk] for i in range(0, len(runs), chunk)]

    def drive(ch):
        out = core.harness(binary, "mmualloc", {"log2_page": LOG2_PAGE, "unit_bytes": UNIT_BYTES, "cases": ch}, timeout=600)
        if out["cases"] != len(ch) or len(out["obs"]) != len(ch):
            raise core.Broken("driver returned %s observations for %d cases" % (len(out.get("obs") or []), len(ch)))
        return out["obs"]
    obs = []
    with concurrent.futures.ThreadPoolExecutor(max_workers=4) as ex:
        for o in ex.map(drive, chunks):
            obs += o
    byid = {o["id"]: o for o in obs}
    if len(byid) != len(runs):
        raise core.Broken("observation ids do not match the runs")
    ck.note("driver done (t=%.0fs)" % (time.time() - ck.t0))
    kicks = sum(o.get("kicks", 0) for o in obs)
    ck.cov["extra_wakeups_needed"] = kicks

    # driver-level failures
    for o in obs:
        if o.get("err"):
            rn = runs[o["id"]]
            if o["err"].startswith("panic:"):
                ck.report({"kind": "panic", "other": "none", "pre_class": "none"},
                          "real MMU panicked: %s (pre=%s stream=%s)" % (o["err"], json.dumps(rn["pre"]), json.dumps(rn["stream"])),
                          {"driver": "mmualloc", "case": rn, "observation": o})
            else:
                raise core.Broken("driver error: " + o["err"])
    judged_obs = [o for o in obs if not o.get("err")]
    for o in judged_obs:
        for f in ("pre", "reqs", "table", "rsps"):
            if o.get(f) is None:
                o[f] = []

    # 4. the judge (observations that differ only in their id are judged once)
    d = core.scratch("c27-obs-")
    groups = {}
    for o in judged_obs:
        groups.setdefault(core.canon({k: o[k] for k in ("page_bytes", "pre", "reqs", "table", "rsps")}), []).append(o["id"])
    distinct = [dict(byid[ids[0]]) for ids in groups.values()]
    members = {ids[0]: ids for ids in groups.values()}
    jchunk = 6000 if q else 20000
    jchunks = [distinct[i:i + jchunk] for i in range(0, len(distinct), jchunk)]
    verdicts = []

    def judge(args):
        k, ch = args
        p = os.path.join(d, "obs%d.ndjson" % k)
        with open(p, "w") as f:
            for o in ch:
                f.write(json.dumps({x: o[x] for x in ("id", "page_bytes", "pre", "reqs", "table", "rsps")}) + "\n")
        jr = ck.run_tlc(["vm"], "MMUAllocJudge", "MMUAllocJudge.cfg", workers=1, timeout=600 if q else 1500,
                        env={"OBS_FILE": p}, tags=("VERDICT", "JUDGED"), heap="3g")
        if not jr.ok:
            raise core.Broken("judge did not finish: %s %s\n%s" % (jr.violated, jr.error, "\n".join(jr.lines[-20:])))
        j = jr.tagged.get("JUDGED") or []
        if not j or j[-1]["n"] != len(ch) or j[-1]["states"] != len(ch):
            raise core.Broken("judge saw %s of %d observations" % (j[-1] if j else None, len(ch)))
        return jr.tagged.get("VERDICT") or []
    with concurrent.futures.ThreadPoolExecutor(max_workers=4) as ex:
        for vs in ex.map(judge, list(enumerate(jchunks))):
            for v in vs:
                for oid in members[v["id"]]:
                    verdicts.append(dict(v, id=oid))
    ck.cov["distinct_observations_judged"] = len(distinct)
    ck.note("judge done: %d distinct observations (t=%.0fs)" % (len(distinct), time.time() - ck.t0))

    ck.cov["traces_validated_against_impl"] += len(judged_obs)
    ck.cov["evaluations"] += len(judged_obs)
    # non-trivial: distinct case with a pre-populated page and at least one auto allocation, or
    # with concurrent walks of one still unmapped page
    nt = set()
    allocs = 0
    for o in judged_obs:
        rn = runs[o["id"]]
        prekeys = {(p["pid"], p["va"]) for p in o["pre"]}
        auto = [p for p in o["table"] if (p["pid"], p["va"]) not in prekeys]
        allocs += len(auto)
        ks = [(k["pid"], k["va"]) for k in rn["stream"]]
        dup_unmapped = any(ks.count(k) > 1 and (k[0], k[1] << LOG2_PAGE) not in prekeys for k in ks)
        if (o["pre"] and auto) or dup_unmapped:
            nt.add(rn["case"])
    ck.cov["distinct_nontrivial"] += len(nt)
    ck.cov["auto_allocations_observed"] = allocs
    ck.cov["exhaustive"] = True
    ck.cov["rule"] = ("TLC model-checks MMUAlloc.tla (abstract allocator; OneMapping, NoAlias, RspConsistent, RspStable, "
                      "PreKept, AllocPossible, Final, GrowOnly, deadlock freedom) and enumerates all (pre-populated table, "
                      "request stream) cases within the cfg bounds; each case runs on the real MMU (auto allocation on) "
                      "under the timing configurations (walk latency, MaxRequestsInFlight, requester window, Top buffer, "
                      "in-page offset, validity bit of pre-populated pages; all 3 in quick, one rotating of 8 per case in thorough); the final real page table and all answers are judged by TLC (MMUAllocJudge.tla). "
                      "Non-trivial = distinct case where an auto allocation happens next to a pre-populated page, or two "
                      "walks of one unmapped page are requested.")
    ck.assumptions += ["page size 4 KiB (log2 12); model unit = 2 KiB, so odd bases are unaligned pages",
                       "pre-populated pages have page-aligned virtual addresses (Valid true or false per configuration); requests never name a virtual "
                       "page inside the extent of a larger pre-populated page other than its first",
                       "a wake-up lost by the connection (C09/W1) is repaired by waking all components again; it is not judged here",
                       "pre-populated pages may overlap each other (shared memory): the statement constrains auto-allocated pages only"]
    for o in judged_obs[:1] + judged_obs[len(judged_obs) // 2:len(judged_obs) // 2 + 2]:
        rn = runs[o["id"]]
        ck.sample({"pre": rn["pre"], "stream": rn["stream"], "timing": [rn[k] for k in ("lat", "maxfl", "window", "topbuf", "offset", "prevalid")],
                   "final_table_bytes": [[p["pid"], p["va"], p["base"], p["size"]] for p in o["table"]]})

    new = 0
    for v in verdicts:
        o = byid[v["id"]]
        rn = runs[v["id"]]
        for key in keys_of(v):
            desc = ("%s: pre=%s stream=%s timing(lat=%d maxfl=%d window=%d) final table=%s verdict=%s" % (
                key["kind"], json.dumps(rn["pre"]), json.dumps(rn["stream"]), rn["lat"], rn["maxfl"], rn["window"],
                json.dumps([[p["pid"], p["va"], p["base"], p["size"]] for p in o["table"]]),
                json.dumps({k: x for k, x in v.items() if x and k != "id"})))
            if ck.report(key, desc, {"driver": "mmualloc", "config": {"log2_page": LOG2_PAGE, "unit_bytes": UNIT_BYTES},
                                     "case": rn, "observation": o, "verdict": v}) == "new":
                new += 1
    ck.note("judged %d observations (%d auto allocations), %d contradict the statement (%d new reports), extra wake-ups %d" % (
        len(judged_obs), allocs, len(verdicts), new, kicks))
