"""C37 — the trace query tool cannot modify the trace (spec/daisen/QueryGuard.tla)."""
import re
from vlib import core, daisen, daisen_sql

LEVEL = "exploration"
TECHNIQUE = ("TLA+ model of the data-query tool in front of the replay server's connection pool (statement classifier, "
             "per-connection read-only switch, caller deadline firing at any step, the server's own writes interleaved), "
             "model-checked by TLC for DBUnchanged / NoNewFile / CapsRespected / PoolUsable; TLC emits the reachable "
             "class x deadline x connection x overlap cases, each of which is bound to concrete SQL (hand-written seeds per "
             "class plus seeded token-level variations) and run through the real tool on a copy of a trace database "
             "written by the real recorder, observing file hashes, a content digest read through an independent handle, "
             "directory listings, output size and a follow-up use of every pooled connection")
LEVEL_TEXT = ("The pool/guard state machine is model-checked exhaustively (2 connections, <=3 calls, <=3 server writes) and a "
              "negative control shows TLC finds the PoolUsable counterexample when the switch reset is tied to the query's "
              "context. The SQL input space is sampled: every emitted case gets several concrete texts per tier and seed.")
LEVEL_NOTE = ("SQL strings are sampled from a seeded grammar over hand-written seeds, not enumerated; SQLite and the Go driver "
              "are trusted (a lost interrupt inside the driver makes a tool call hang - counted, not judged). Caps are the "
              "documented ones: 1000 rows (tool description) and 64 KiB of CSV (formatRows comment / dataQueryByteCap), "
              "measured on the CSV part of the answer (header + rows), not on the one-line '[n rows]' summary.")

ROW_CAP = 1000
BYTE_CAP = 64 * 1024

WRITE_INTENT = {"cte_write", "multi", "comment", "ddl", "dml", "attach", "vacuum", "pragma", "pragma_fn"}


def pick_sql(ck, case, tier):
    """Concrete tool arguments + deadline for one TLC case."""
    cl, when = case["class"], case["when"]
    rng = ck.rng
    st = {"op": "tool", "class": cl, "when": when, "conn": case["conn"], "overlap": bool(case["overlap"]), "live": False}
    if cl == "malformed":
        args, note = rng.choice(daisen_sql.MALFORMED_ARGS)
        st["args"] = dict(args)
        st["sql"] = ""
        st["note"] = note
    else:
        seed = rng.choice(daisen_sql.SEEDS[cl])
        if cl == "plain" and when == "during":
            seed = rng.choice(daisen_sql.SLOW_PLAIN)
        if cl == "endless" and when in ("before", "early"):
            seed = rng.choice(daisen_sql.LONG_NOT_ENDLESS)
        preserving = cl in ("plain", "huge", "huge_header", "endless") or rng.random() < 0.6
        st["sql"] = daisen_sql.vary(rng, seed, meaning_preserving=preserving)
        st["seed"] = seed if len(seed) < 200 else seed[:80] + "...(%d bytes)" % len(seed)
        # anti-vacuity only (the statement does not promise answers): a plain read must be answered. Texts in which the LIMIT
        # keyword is separated from its count by a comment are left out: the tool then appends a second LIMIT and SQLite
        # rejects the statement — a usability defect of the tool, not a contradiction of this property
        st["live"] = cl == "plain" and when == "none" and (re.search(r"(?i)\blimit\s+\d", st["sql"]) is not None
                                                            or re.search(r"(?i)\blimit\b", st["sql"]) is None)
    if when == "none":
        st["deadline_ms"] = -1 if cl != "endless" else rng.choice([40, 60, 90])
    elif when == "before":
        st["deadline_ms"] = 0
    elif when == "early":
        st["deadline_ms"] = rng.choice([0.02, 0.05, 0.1, 0.2, 0.4])
    else:  # during
        st["deadline_ms"] = rng.choice([30, 45, 70])
    return st


def run(ck):
    binary = daisen.binary(ck)
    quick = ck.tier == "quick"
    r = ck.run_tlc(["daisen"], "QueryGuard", "QueryGuard_q.cfg" if quick else "QueryGuard_t.cfg", workers=8, timeout=300)
    if not r.ok:
        raise core.Broken("QueryGuard.tla fails its own invariants: %s %s" % (r.violated, r.error))
    neg = ck.run_tlc(["daisen"], "QueryGuard", "QueryGuard_neg.cfg", workers=4, timeout=300)
    if neg.violated != "PoolUsable":
        raise core.Broken("negative control lost: with the reset tied to the query context TLC must violate PoolUsable, got %s" % neg.violated)
    cases = {}
    for c in r.tagged["CASE"]:
        c = dict(c)
        c.pop("res", None), c.pop("out", None)         # the real result kind is left free except for plain reads
        cases[core.canon(c)] = c
    cases = [cases[k] for k in sorted(cases)]
    if len(cases) < 100:
        raise core.Broken("only %d cases emitted" % len(cases))
    ck.cov["cases"] = len(cases)

    reps = 1 if quick else 6
    behaviours = []
    bid = 0
    per_mode = {True: [], False: []}
    for c in cases:
        for _ in range(reps):
            per_mode[bool(c["writable"])].append(pick_sql(ck, c, ck.tier))
    for writable, steps in per_mode.items():
        ck.rng.shuffle(steps)
        i = 0
        while i < len(steps):
            k = ck.rng.choice([1, 2, 3, 4])
            seq = [{"op": "probe"}]
            for st in steps[i:i + k]:
                seq += [st, {"op": "probe"}]
            i += k
            bid += 1
            behaviours.append({"id": bid, "mode": "rw" if writable else "ro", "steps": seq})
    # the complete product of the multi_quoted corpus (literal / identifier / comment style of the leading SELECT that hides the first
    # ';' x trailing statement x decoy "limit n"), verbatim, on a writable pool: these texts differ in exactly the features a
    # quote-aware separator scan can get wrong, so sampling them is not enough
    sweep = [t for t in daisen_sql.multi_quoted_texts() if not quick or (" ; " in t[0] and t[1].endswith("/decoy"))]
    for j in range(0, len(sweep), 14):
        bid += 1
        seq = [{"op": "probe"}]
        for text, tag in sweep[j:j + 14]:
            seq.append({"op": "tool", "class": "multi_quoted", "when": "none", "conn": 1 + (j // 14) % 2, "overlap": False, "sql": text,
                        "deadline_ms": -1, "live": False, "note": tag})
        seq.append({"op": "probe"})
        behaviours.append({"id": bid, "mode": "rw", "steps": seq})
    ck.cov["multi_quoted_sweep"] = len(sweep)

    # the tool's own timeout (no caller deadline at all) on an endless query
    n_nat = 0 if quick else 3      # 15 s each: thorough only
    for j in range(n_nat):
        bid += 1
        sql = daisen_sql.vary(ck.rng, daisen_sql.SEEDS["endless"][j % 2])
        behaviours.append({"id": bid, "mode": "rw", "steps": [
            {"op": "probe"},
            {"op": "tool", "class": "endless", "when": "tool_timeout", "conn": 1 + j % 2, "overlap": j == 1, "sql": sql, "deadline_ms": -1, "live": False},
            {"op": "probe"},
            {"op": "tool", "class": "cte_write", "when": "none", "conn": 1 + j % 2, "overlap": False, "deadline_ms": -1, "live": False,
             "sql": "WITH x AS (SELECT 1 LIMIT 1) DELETE FROM trace"},
            {"op": "probe"}]})

    out = {"results": []}
    batch = 120
    meta = None
    for i in range(0, len(behaviours), batch):
        o = core.harness(binary, "queryguard", {"tasks": 300, "behaviours": behaviours[i:i + batch]}, timeout=1500)
        out["results"] += o["results"]
        meta = o
    m = re.search(r"capped at (\d+) rows", meta["description"])
    doc_rows = int(m.group(1)) if m else ROW_CAP
    ck.cov["documented_row_cap"] = doc_rows
    ck.cov["compiled_caps"] = {"rows": meta["row_cap"], "bytes": meta["byte_cap"], "cell": meta["cell_cap"], "timeout_ms": meta["timeout_ms"]}
    row_cap = min(doc_rows, ROW_CAP)

    ck.cov["rule"] = ("Each TLC case (query class x when the caller's deadline fires x pooled connection x concurrent server write x "
                      "pool writable) is bound to concrete SQL and run through the real data_query tool closure on a copy of a real trace "
                      "database with a 2-connection pool. Judged after every call: SHA-256 of the database and -wal files and an "
                      "independent content digest (schema, rows, user_version, journal mode) unchanged, no file added/removed anywhere below "
                      "the server's scratch tree (database directory with its -wal/-shm siblings, working directory, TMPDIR), reported rows <= 1000 and CSV bytes <= 65536, and - on every pooled connection - read, write and the "
                      "server's real ensureIndex behave as in the probe taken before the first call. Plain reads without deadline must "
                      "return rows. Non-trivial = a tool call whose text is not a plain read, or whose deadline fired.")
    ck.assumptions += ["trace database produced by the real simulation builder + DBTracer (300 tasks, milestones, tags), copied per behaviour",
                       "documented caps taken as 1000 rows / 65536 CSV bytes (tool description and formatRows contract at the pinned commit)",
                       "the -shm file is not hashed (readers legitimately update it); the probes' own verif_* tables/indexes are excluded from the digest",
                       "a tool call that never returns because the SQLite driver lost its interrupt is counted (interrupt_lost) and not judged",
                       "no HTTP(S)_PROXY, no LLM in the loop: the tool closure is invoked directly with the arguments the agent loop would pass"]

    by_id = {b["id"]: b for b in behaviours}
    n_tool = n_probe = nontriv = hung = 0
    kinds = {}
    seen_texts = set()
    for res in out["results"]:
        b = by_id[res["id"]]
        if res.get("error"):
            raise core.Broken("driver failed on behaviour %d: %s" % (res["id"], res["error"]))
        base = None
        last_tool = None
        for st, ob in zip(b["steps"], res["obs"]):
            if st["op"] == "probe":
                n_probe += 1
                conns = {c["conn"]: c for c in ob["conns"]}
                if base is None:
                    base = conns
                    if b["mode"] == "ro":
                        # side observation, not judged: can the pool of a server opened like NewReplayServerReadOnly write?
                        ck.cov["readonly_server_pool_can_write"] = any(c["write_ok"] for c in conns.values())
                    if any(not c["read_ok"] for c in conns.values()):
                        raise core.Broken("pool unusable before any tool call: %s" % conns)
                    continue
                for n, c in sorted(conns.items()):
                    ref = base.get(n) or next(iter(base.values()))
                    what = None
                    if c["query_only"] != ref["query_only"]:
                        what = "query_only_left_on"
                    elif ref["write_ok"] and not c["write_ok"]:
                        what = "write_fails"
                    elif ref["index_ok"] and not c["index_ok"]:
                        what = "server_index_build_fails"
                    elif not c["read_ok"]:
                        what = "read_fails"
                    if what:
                        key = {"prop": "PoolUsable", "what": what, "class": last_tool["class"], "when": last_tool["when"]}
                        ck.report(key, "after data_query(%s, deadline %s) pooled connection %d: %s (before the call: %s)" % (
                            last_tool["class"], last_tool["when"], n, c, ref), replay_of(b, res))
                continue
            n_tool += 1
            last_tool = st
            kinds[ob["kind"]] = kinds.get(ob["kind"], 0) + 1
            txt = st.get("sql") or repr(st.get("args"))
            if txt not in seen_texts:
                seen_texts.add(txt)
                if st["class"] != "plain" or st["when"] != "none":
                    nontriv += 1
            if ob["kind"] == "hung":
                hung += 1
                ck.cov.setdefault("interrupt_lost_cases", []).append({"class": st["class"], "when": st["when"], "deadline_ms": st.get("deadline_ms"),
                                                                      "sql": clip(txt, 120)})
                break
            cl, when = st["class"], st["when"]

            def rep(prop, what, desc):
                key = {"prop": prop, "what": what, "class": cl, "when": when}
                ck.report(key, "data_query(%s) %s; sql=%r deadline_ms=%s -> %s %s" % (
                    cl, desc, clip(txt), st.get("deadline_ms"), ob["kind"], ob.get("err", "")), replay_of(b, res, st))
            if ob["kind"] == "panic":
                rep("NoPanic", "panic", "panicked: " + ob.get("err", ""))
            if ob["data_changed"]:
                rep("DBUnchanged", "contents", "changed the contents of the trace database")
            if not st["overlap"] and (ob["db_changed"] or ob["wal_changed"]):
                rep("DBUnchanged", "file", "changed the database file (db=%s wal=%s)" % (ob["db_changed"], ob["wal_changed"]))
            if ob.get("added") or ob.get("removed"):
                rep("NoNewFile", "files", "added %s removed %s" % (ob.get("added"), ob.get("removed")))
            if ob["rows"] > row_cap:
                rep("CapsRespected", "rows", "reported %d rows (cap %d)" % (ob["rows"], row_cap))
            if ob["body_len"] > BYTE_CAP:
                what = "header" if ob["header_len"] > BYTE_CAP else "bytes"
                rep("CapsRespected", what, "returned %d CSV bytes, header %d (cap %d)" % (ob["body_len"], ob["header_len"], BYTE_CAP))
            if st.get("live") and (ob["kind"] != "rows" or ob["rows"] < 1):
                rep("LiveRead", "refused_plain_read", "a plain read without deadline did not return rows")
            if st["overlap"] and b["mode"] == "rw" and not ob.get("overlap_ok"):
                rep("PoolUsable", "concurrent_server_write_fails", "the server's index build during the call did not succeed")
            if when == "tool_timeout" and ob["kind"] != "timeout":
                rep("Bounded", "no_timeout", "endless query without caller deadline ended as %s after %.0f ms" % (ob["kind"], ob["elapsed_ms"]))
            if len(ck.cov["samples"]) < 6 and (cl, when) not in [(s.get("class"), s.get("when")) for s in ck.cov["samples"]]:
                ck.sample({"class": cl, "when": when, "sql": clip(txt, 160), "deadline_ms": st.get("deadline_ms"), "kind": ob["kind"],
                           "err": ob.get("err", "")[:80], "rows": ob["rows"], "csv_bytes": ob["body_len"], "db_changed": ob["db_changed"]})
    ck.cov["traces_validated_against_impl"] += len(out["results"])
    ck.cov["evaluations"] += n_tool + n_probe
    ck.cov["tool_calls"] = n_tool
    ck.cov["probes"] = n_probe
    ck.cov["result_kinds"] = kinds
    ck.cov["interrupt_lost"] = hung
    ck.cov["distinct_nontrivial"] += nontriv
    ck.note("%d cases -> %d behaviours, %d tool calls (%s), %d probes, %d hung" % (len(cases), len(behaviours), n_tool, kinds, n_probe, hung))


def clip(s, n=300):
    return s if len(s) <= n else s[:n] + "...(%d bytes)" % len(s)


def replay_of(b, res, st=None):
    steps = []
    for s in b["steps"]:
        s = dict(s)
        if len(s.get("sql", "")) > 2000:
            s["sql"] = clip(s["sql"], 400)
        steps.append(s)
    obs = []
    for o in res["obs"]:
        o = dict(o)
        if len(o.get("err", "")) > 400:
            o["err"] = o["err"][:400]
        obs.append(o)
    return {"driver": "queryguard", "behaviour": {"id": b["id"], "mode": b["mode"], "steps": steps}, "observed": obs,
            "failing_step": None if st is None else {k: (clip(v) if isinstance(v, str) else v) for k, v in st.items()}}
