"""C19 — cache directories stay well-formed (spec/mem/Directory.tla, DirectoryTrace.tla).

Part 1 (model_checking, B1): TLC enumerates the complete state graph of Directory.tla
(2 sets x 2-3 ways; blocks valid/locked/readers/pid/line; recency rank per set) checking the
statement's invariants on the model; every transition is replayed on the real
cache.DirectoryState with DirectoryLookup / DirectoryFindVictim / DirectoryVisit /
DirectoryReset (transition cover + seeded walks), results and projected state compared.

Part 2 (exploration, B2): real write-back and write-through caches over an ideal memory
controller run seeded read/write workloads on few sets; the directory is projected from the
component state at every hook invocation of the cache and after every engine event; TLC
(DirectoryTrace.tla, same predicates from DirectoryDefs.tla) validates every recorded state
and every step.
"""
import json, os, re, concurrent.futures
from vlib import core, objcheck

LEVEL = "model_checking"
TECHNIQUE = ("TLA+ model of the set-associative directory, complete state graph replayed on the real directory functions "
             "(B1); directory states recorded from real write-back / write-through caches under seeded workloads are "
             "validated by TLC against the same predicates (B2)")
LEVEL_TEXT = ("Exhaustive for the exported directory functions within 2 sets x 2 ways, 3 lines, two processes (quick) and "
              "2x2 with 4 lines, 2x2 with two processes and up to 2 readers, 1 set x 3 ways (thorough); seeded exploration for the cache pipelines (every recorded state and step is "
              "checked by TLC, but only the interleavings the seeded workloads reach).")
LEVEL_NOTE = ("Which idle way is the victim is left free (the statement does not say); pipeline interleavings of the real "
              "caches are explored, not enumerated.")

BLOCK = 64


def init_state(ns, nw):
    return [[list(range(1, nw + 1)), [[False, False, 0, 0, 0, 0] for _ in range(nw)]] for _ in range(ns)]


def read_cfg(name):
    txt = open(os.path.join(core.SPEC, "mem", name)).read()
    return {k: int(v) for k, v in re.findall(r"^\s*(NumSets|NumWays|NumLines|MaxRC)\s*=\s*(\d+)", txt, re.M)}


def choose_lines(ck, binary, num_sets, num_lines):
    """Concrete line addresses for the abstract lines: line l must really map to set l % num_sets."""
    addrs = [k * BLOCK for k in range(0, 64 * num_sets * max(1, num_lines))]
    sets = core.harness(binary, "dirsetid", {"block_size": BLOCK, "num_sets": num_sets, "addrs": addrs})["sets"]
    if any(s < 0 or s >= num_sets for s in sets):
        return None, "DirectorySetID returned a set index outside 0..%d" % (num_sets - 1)
    used, out = set(), {}
    for l in range(1, num_lines + 1):
        want = l % num_sets
        for a, s in zip(addrs, sets):
            if s == want and a not in used:
                used.add(a)
                out[str(l)] = a
                break
        else:
            return None, "no line address maps to set %d" % want
    return out, None


def part1_tlc(ck, cfg, workers):
    c = read_cfg(cfg)
    r = ck.run_tlc(["mem"], "Directory", cfg, workers=workers, timeout=900)
    if not r.ok:
        raise core.Broken("Directory model fails its own properties (%s): %s %s\n%s" % (cfg, r.violated, r.error, "\n".join(r.lines[-30:])))
    inits = r.tagged["INIT"] or [init_state(c["NumSets"], c["NumWays"])]
    g = core.Graph(inits, r.tagged["EDGE"])
    if not g.edges or core.canon(inits[0]) not in g.out:
        raise core.Broken("no behaviours emitted by Directory/%s" % cfg)
    return c, g


def part1_replay(ck, cfg, c, g, walks, walk_len):
    binary = ck.binary("mmudir")
    lines, err = choose_lines(ck, binary, c["NumSets"], c["NumLines"])
    if err:
        ck.report({"part": "functions", "op": "setid", "kind": "result"}, err, {"driver": "dirsetid"})
        return
    config = {"num_sets": c["NumSets"], "num_ways": c["NumWays"], "block_size": BLOCK, "lines": lines}

    def nontrivial(h):
        for s in h["steps"]:
            a = s["a"]
            if a["op"] == "findvictim" and (a["res"]["allbusy"] or len(a["res"]["ways"]) < c["NumWays"]):
                return True
            if a["op"] == "lookup" and a["res"]["found"]:
                return True
            if a["op"] in ("invalidate", "reset"):
                return True
        return False

    def keyfn(m):
        return {"part": "functions", "op": (m.get("op") or {}).get("op"), "kind": m.get("kind")}
    ck.note("%s: %d states, %d transitions" % (cfg, len(g.nodes), len(g.edges)))
    objcheck.replay_graph(ck, g, "mmudir", "directory", config=config, walks=walks, walk_len=walk_len, keyfn=keyfn,
                          nontrivial=nontrivial)


# ------------------------------------------------------------------ part 2: real caches

def cache_cases(ck, q):
    rng = ck.rng
    kinds = [("writeback", ""), ("writethrough", "write-through"), ("writethrough", "write-around"),
             ("writethrough", "write-evict")]
    n = 8 if q else 24
    cases = []
    for k in range(n):
        kind, policy = kinds[k % 4] if k % 8 < 4 else rng.choice(kinds)
        sets = 2 if q or k % 3 else 4
        ways = 2 if k % 2 == 0 else 3
        c = dict(id=k, kind=kind, policy=policy, sets=sets, ways=ways,
                 lines=sets * ways + rng.choice([1, 2, sets * ways]), pids=[1] if k % 4 == 3 else [1, 2],
                 ops=250 if q else 1000, seed=rng.randrange(1, 1 << 30), window=rng.choice([1, 2, 4, 6]),
                 mshr=rng.choice([1, 2, 4]), bank_lat=rng.choice([0, 1, 2, 5]), dir_lat=rng.choice([0, 1, 2]),
                 per_cycle=rng.choice([1, 2, 4]), banks=rng.choice([1, 2]), mem_lat=rng.choice([1, 5, 20]),
                 port_buf=rng.choice([1, 2, 4]), write_p=rng.choice([0.2, 0.5, 0.7]), ctl=[])
        if kind == "writethrough":
            # the write-through cache makes no progress with a zero-latency directory or bank pipeline
            # (a configuration limit, not this property's subject)
            c["bank_lat"], c["dir_lat"] = max(1, c["bank_lat"]), max(1, c["dir_lat"])
        if k % 4 in (1, 2):
            # a control episode in the middle: drain, flush, invalidate, enable (C18 judges the protocol itself;
            # here only the directory states reached are validated)
            at = c["ops"] // 2
            wait = rng.choice([True, False])
            c["ctl"] = [dict(at=at, cmd="drain", wait=wait), dict(at=at, cmd="flush", wait=False),
                        dict(at=at, cmd="invalidate", wait=False), dict(at=at, cmd="enable", wait=False)]
            if rng.random() < 0.5:
                c["ctl"] = [dict(at=at // 2, cmd="pause", wait=False), dict(at=at // 2, cmd="enable", wait=False)] + c["ctl"]
        cases.append(c)
    return cases


def changed_slots(prev, d):
    out = []
    for s, (st, pst) in enumerate(zip(d, prev or d)):
        for w, (b, pb) in enumerate(zip(st[1], pst[1])):
            if b != pb:
                out.append((s + 1, w + 1, b, pb))
    return out


def part2(ck, q, cases):
    binary = ck.binary("mmudir")
    d = core.scratch("c19-traces-")
    for c in cases:
        c["trace"] = os.path.join(d, "trace%d.ndjson" % c["id"])
    groups = [cases[i::4] for i in range(4)]
    results = {}
    with concurrent.futures.ThreadPoolExecutor(max_workers=4) as ex:
        for out in ex.map(lambda g: core.harness(binary, "cachedir", {"cases": g}, timeout=900), groups):
            for r in out["results"]:
                results[r["id"]] = r
    stats = dict(caches=len(cases), records=0, snapshots=0, events=0, requests=0, answered=0, fills=0, evictions=0,
                 records_with_busy_block=0, max_readers=0, control_acks=0, extra_wakeups=0, tlc_rejected_records=0)

    def judge(c):
        r = results[c["id"]]
        if r.get("err"):
            return c, r, None, None
        jr = ck.run_tlc(["mem"], "DirectoryTrace", "DirectoryTrace.cfg", workers=1, timeout=900,
                        env={"TRACE_FILE": c["trace"]}, tags=("REJECTED", "JUDGED"), heap="2g")
        if not jr.ok:
            raise core.Broken("trace validation did not finish: %s %s\n%s" % (jr.violated, jr.error, "\n".join(jr.lines[-20:])))
        j = jr.tagged.get("JUDGED") or []
        if not j or j[-1]["n"] != r["records"] or j[-1]["states"] != r["records"]:
            raise core.Broken("trace validation saw %s of %d records" % (j[-1] if j else None, r["records"]))
        with open(c["trace"]) as f:
            recs = [json.loads(l) for l in f]
        return c, r, jr.tagged.get("REJECTED") or [], recs
    with concurrent.futures.ThreadPoolExecutor(max_workers=4) as ex:
        judged = list(ex.map(judge, cases))

    for c, r, rejected, recs in judged:
        label = dict(cache=c["kind"], policy=c["policy"] or "none")
        if r.get("err"):
            if r["err"].startswith("panic:"):
                ck.report(dict(part="caches", inv="panic", cause="none", stale_pid=False, **label),
                          "real %s cache panicked: %s" % (c["kind"], r["err"]), {"driver": "cachedir", "case": c})
                continue
            raise core.Broken("cachedir driver: " + r["err"])
        for k_, f_ in (("records", "records"), ("snapshots", "snapshots"), ("events", "events"), ("requests", "sent"),
                       ("answered", "answered"), ("fills", "fills"), ("evictions", "evictions"),
                       ("records_with_busy_block", "busy_seen"), ("extra_wakeups", "kicks")):
            stats[k_] += r[f_]
        stats["max_readers"] = max(stats["max_readers"], r["max_readers"])
        stats["control_acks"] += len(r.get("ctl_acks") or [])
        stats["tlc_rejected_records"] += len(rejected)
        # second opinion: the driver's own evaluation must name the same first record
        go_first = (r.get("violations") or [{}])[0].get("index")
        tlc_first = rejected[0]["i"] if rejected else None
        if go_first != tlc_first:
            raise core.Broken("driver and TLC disagree on trace %d: first bad record %s vs %s" % (c["id"], go_first, tlc_first))
        ck.cov["traces_validated_against_impl"] += 1
        ck.cov["evaluations"] += r["records"]
        if r["fills"] > 0 and r["busy_seen"] > 0:
            ck.cov["distinct_nontrivial"] += 1
        seen = set()
        for v in rejected:
            rec = recs[v["i"] - 1]
            cause = rec.get("cause") or {}
            for inv, wit in (("OrderWellFormed", v["order"]), ("NoDupValid", v["dups"]), ("RightSet", v["misplaced"]),
                             ("ReadersNonNegative", v["negative"]), ("ShapeChanged", v["shape"]),
                             ("NeverReplaceBusy", v["busyreplaced"])):
                if not wit:
                    continue
                stale = False
                if inv == "NoDupValid" and cause:
                    # the block installed in this step carries another process id than the request that caused it
                    for (s_, w_, b, pb) in changed_slots(v["prev"], v["d"]):
                        if b[0] and any([s_, w_] in pair for pair in wit) and b[3] != cause.get("pid"):
                            stale = True
                key = dict(part="caches", inv=inv, cause=cause.get("what", "none"), stale_pid=stale, **label)
                if core.canon(key) in seen:
                    continue
                seen.add(core.canon(key))
                desc = ("%s cache (%s) %s at record %d (%s, cause %s): witnesses %s; directory %s; before %s" % (
                    c["kind"], c["policy"] or "-", inv, v["i"], v["at"], json.dumps(cause), json.dumps(wit),
                    json.dumps(v["d"]), json.dumps(v["prev"])))
                ck.report(key, desc, {"driver": "cachedir", "case": {k: x for k, x in c.items() if k != "trace"},
                                      "record": v["i"], "trace_prefix": recs[max(0, v["i"] - 6):v["i"]]})
    ck.cov["caches"] = stats
    ck.sample({"cache_case": {k: x for k, x in cases[0].items() if k != "trace"},
               "result": {k: results[cases[0]["id"]][k] for k in ("records", "events", "fills", "evictions", "max_readers")}})
    ck.note("caches: %s" % json.dumps(stats))


def run(ck):
    q = ck.tier == "quick"
    ck.cov["exhaustive"] = False
    ck.cov["rule"] = ("Part 1: TLC enumerates the complete state graph of Directory.tla (all operations: lookup, victim search, "
                      "visit, fill, lock/unlock, start/end read, invalidate, reset) and checks WellFormed (recency order is a "
                      "permutation of the ways, no duplicate valid (pid, line), every valid block in its home set, readers >= 0), "
                      "NeverReplaceBusy and VictimAnswer on the model; every transition is replayed on cache.DirectoryState "
                      "with the real functions (result and projected directory compared after each step; victim answers are "
                      "accepted iff they are in the specification's set of idle ways), plus seeded walks. Non-trivial = distinct "
                      "history with a victim search in a set with a busy way, a successful lookup, an invalidation or a reset. "
                      "Counts of part 2 are in cov['caches'].")
    ck.assumptions += ["block size 64 bytes; abstract line l is a concrete line address whose real DirectorySetID is l % NumSets",
                       "LRUOrder lists the least recently visited way first (documented in DirectoryVisit)",
                       "fill / lock / unlock / read-count / invalidate are the field updates the caches perform around the exported functions"]
    ck.binary("mmudir")
    cases = cache_cases(ck, q)     # drawn first: the seeded choices do not depend on thread timing
    plan = [("Directory_q.cfg", 200, 80, 4)] if q else [("Directory_t.cfg", 1000, 200, 5), ("Directory_t2.cfg", 1000, 200, 5),
                                                         ("Directory_t3.cfg", 1000, 200, 4)]
    with concurrent.futures.ThreadPoolExecutor(max_workers=4) as ex:
        f2 = ex.submit(part2, ck, q, cases)
        graphs = [ex.submit(part1_tlc, ck, p[0], p[3]) for p in plan]
        for p, fg in zip(plan, graphs):
            c, g = fg.result()
            part1_replay(ck, p[0], c, g, p[1], p[2])
        f2.result()
    ck.cov["rule"] += (" Part 2: %d real caches (write-back; write-through with write-through / write-around / write-evict "
                       "policies; 2-4 sets x 2-3 ways, seeded read/write/masked-write workloads of one or two processes, control "
                       "episodes pause/drain/flush/invalidate/enable) run to quiescence; the directory is projected at every hook "
                       "invocation inside the cache and after every engine event; every recorded state (WellFormed) and step "
                       "(StepOK) is judged by TLC (DirectoryTrace.tla). Non-trivial trace = has fills and busy blocks."
                       % ck.cov["caches"]["caches"])
    ck.assumptions += ["part 2 observes the directory at hook invocations (tracing calls) and engine events; a replacement and the "
                       "unlock that made it legal are separated by a hook call in both caches (dir_pipeline milestone)",
                       "control episodes are issued by the workload agent; the control protocol itself is C18's subject"]
