"""C09 — no lost wake-ups (spec/tick/TickImpl.tla, TickTrace.tla)."""
from vlib import core, tickcheck, partick

LEVEL = "model_checking"
TECHNIQUE = "implementation-shaped TLA+ model of tick/wake-up guards, ports and direct connections explored exhaustively by TLC; every script replayed on the real packages; traces monitored by TLC against the abstract rules; logs of parallel-engine runs validated by TLC against ParTick.tla (nothing left undelivered when the run returns)"
LEVEL_TEXT = ("TickImpl.tla models TickNow/TickLater and their dedup guard, ScheduleWakeAt, the four port notifications and the round-robin "
              "connection tick one micro-step per critical section; TLC explores every component script (sends, wake requests, stalls) within the "
              "bounds on several topologies and emits each quiescent behaviour with a flag saying whether the model ends with a lost wake-up. "
              "Each script is rebuilt with real ports, real direct connections, modeling ticking/event-driven components on the real serial engine; "
              "the recorded trace is judged by TickTrace.tla: at quiescence no outgoing head whose destination can accept it, no unread input on a draining component. "
              "Seeded random topologies/scripts (mixed frequencies, capacities 1-3) are monitored the same way.")
LEVEL_NOTE = "Exhaustive only for the listed topologies and script bounds; other topologies are sampled. Non-direct connections are covered at delivery level by C29."


def run(ck):
    q = ck.tier == "quick"
    ck.cov["rule"] = ("case = one system (topology + per-activation scripts) run to quiescence on the real code; TLC-enumerated scripts of TickImpl.tla "
                      "(all model behaviours that end in a lost wake-up + a seeded sample of the others) plus seeded random systems; "
                      "non-trivial = at least one message sent.")
    ck.assumptions += ["components drain every port at every activation unless marked stalling", "quiescence = Run() returned"]
    cfgs = ["TickImpl_q1.cfg", "TickImpl_q2.cfg"] if q else ["TickImpl_t1.cfg", "TickImpl_t2.cfg", "TickImpl_t3.cfg", "TickImpl_t4.cfg", "TickImpl_t5.cfg"]
    # negative control: the design before the W1 repair (Repaired = FALSE) must lose a wake-up
    neg = ck.run_tlc(["tick"], "TickImpl", "TickImpl_neg_w1.cfg", workers=4, timeout=900, tags=())
    if neg.ok or neg.violated != "NoLostWakeup":
        raise core.Broken("negative control TickImpl_neg_w1.cfg (pre-repair TickNow) did not violate NoLostWakeup: %s" % neg.violated)
    lost, ok = tickcheck.model_behaviours(ck, cfgs, workers=8 if q else 16, cap=2000 if q else 40000)
    ck.note("model: %d behaviours end with a lost wake-up (hypotheses), %d do not" % (len(lost), len(ok)))
    if lost:
        ck.note("DRIFT/hypotheses: the model of the repaired scheduler still loses a wake-up in %d behaviours; they are replayed on the real code below" % len(lost))
    systems = [tickcheck.system_from_behaviour(b) for b in lost + ok]
    cases, out = tickcheck.run_and_monitor(ck, "model-scripts", systems=systems)
    ck.cov["distinct_nontrivial"] += sum(1 for s in systems if any(a for c in s["comps"] for acts in c["script"] for a in acts if a["op"] == "send"))
    n = tickcheck.report_cases(ck, cases, {"C09"}, "model-scripts")
    reproduced = len({i for c, i, _ in cases if tickcheck.CLASS_PROPERTY.get(c["class"]) == "C09" and i < len(lost)})
    ck.note("hypotheses reproduced on real code: %d of %d" % (reproduced, len(lost)))
    ck.cov["hypotheses"] = len(lost)
    ck.cov["hypotheses_reproduced"] = reproduced
    cases, out = tickcheck.run_and_monitor(ck, "random", random=300 if q else 6000, max_comps=5, max_msgs=10, stress=15 if q else 300)
    ck.cov["distinct_nontrivial"] += out["systems"]
    tickcheck.report_cases(ck, cases, {"C09"}, "random")
    # the same on the parallel engine: a run that returns while a draining receiver has not got every message sent to it has stalled with
    # deliverable messages (ParTick's `ret` rule); senders of one round wake one idle connection from several goroutines at once
    partick.run(ck, systems=8 if q else 80, msgs=80 if q else 200, wide=1 if q else 8, wide_msgs=100 if q else 300, cfg="ParTick_deliveries.cfg")
    ck.cov["exhaustive"] = True
