"""C20 — storage is a bounded flat byte array (spec/container/Storage.tla)."""
import hashlib, json, time
from vlib import core, objcheck

LEVEL = "model_checking"
TECHNIQUE = ("TLC enumerates the complete state graph of Storage.tla over a W-bit address word (capacity x unit size x "
             "address x length, up to two successful writes, failing accesses from every state with a write left) and "
             "the class table of every (capacity, address, length); every transition is replayed on the real mem.Storage "
             "with the W-bit word embedded in the 64-bit address space (top of the word -> top of 2^64), at scale 1 and "
             "at scale 1024, and the boundary classes are re-instantiated at 64 bits with realistic capacities")
LEVEL_TEXT = ("model checking of the specification (invariant Bounded, action property StepOK, assumption ClassTheorem) "
              "plus exhaustive transition-cover conformance replay of the bounded state graph on the real object")
LEVEL_NOTE = ("bounded: W=5 (quick) / W=7 (thorough), capacities <= 9, lengths <= 6, two successful writes per history; "
              "64-bit behaviour is reached by embedding/scaling the small behaviours and by per-class representatives, "
              "not by exploring the 64-bit space")

TOP64 = 1 << 64


# ----------------------------------------------------------------------------- keys

def outcome_of(m):
    op = m.get("op") or {}
    want, got = m.get("want"), m.get("got")
    if m["kind"] == "panic":
        return "panic"
    if m["kind"] == "state":
        if isinstance(op.get("res"), dict) and op["res"].get("err"):
            return "contents_changed_by_failed_access"
        return "wrong_contents"
    if m["kind"] == "init":
        return "init"
    if isinstance(want, dict) and isinstance(got, dict):
        if want.get("err") and not got.get("err"):
            return "accepted"
        if not want.get("err") and got.get("err"):
            return "refused"
        return "wrong_data"
    return "other"


def keyfn(m):
    op = m.get("op") or {}
    return {"op": op.get("op"), "class": op.get("cls"), "kind": m["kind"], "outcome": outcome_of(m)}


# ----------------------------------------------------------------------------- histories

def failing(a):
    return isinstance(a.get("res"), dict) and bool(a["res"].get("err"))


def build_histories(ck, g, walks, walk_len):
    """Transition cover that survives known defects: every edge whose operation is expected
    to fail gets a history of its own (shortest path to the source state + the edge), since
    the replay of a history stops at its first mismatch; the other edges are chained."""
    hs = []
    ok_edges = []
    idx = {}
    for i, (s, a, t) in enumerate(g.edges):
        if s not in g.parent:
            continue
        if failing(a):
            root, steps = g.path_to(s)
            hs.append(g.history(root, list(steps) + [(a, t)]))
        else:
            ok_edges.append(i)
            idx.setdefault(s, []).append(i)
    n_fail = len(hs)
    uncovered = set(ok_edges)
    order = list(ok_edges)
    ck.rng.shuffle(order)
    for i in order:
        if i not in uncovered:
            continue
        s, a, t = g.edges[i]
        root, steps = g.path_to(s)
        steps = list(steps)
        cur = i
        while cur is not None and len(steps) < 80:
            s, a, t = g.edges[cur]
            steps.append((a, t))
            uncovered.discard(cur)
            nxt = [j for j in idx.get(t, []) if j in uncovered]
            cur = nxt[0] if nxt else None
        hs.append(g.history(root, steps))
    n_chain = len(hs) - n_fail
    # random walks over the succeeding operations, each ended by one failing access
    fail_out = {}
    for s, a, t in g.edges:
        if failing(a):
            fail_out.setdefault(s, []).append((a, t))
    for _ in range(walks):
        root = ck.rng.choice(g.inits)
        k, steps = root, []
        for _ in range(walk_len):
            outs = [g.edges[j] for j in idx.get(k, [])]
            if not outs:
                break
            s, a, t = ck.rng.choice(outs)
            steps.append((a, t))
            k = t
        if fail_out.get(k):
            steps.append(ck.rng.choice(fail_out[k]))
        hs.append(g.history(root, steps))
    return hs, n_fail, n_chain


def table_histories(ck, g, tables, per_cap_states):
    """Every failing row of the class table (all start addresses of the W-bit word), as a read
    and as a write, from the empty storage and from the fullest reachable storages."""
    hs = []
    by_cap = {}
    for k, st in g.nodes.items():
        if k in g.parent:
            by_cap.setdefault((st["cap"], st["unit"]), []).append(k)
    for (cap, unit), ks in sorted(by_cap.items()):
        tab = tables.get(cap)
        if tab is None:
            raise core.Broken("no class table for capacity %d" % cap)
        ks.sort(key=lambda k: (-sum(1 for b in g.nodes[k]["mem"] if b), k))
        chosen = ks[:per_cap_states] + [k for k in ks if not any(g.nodes[k]["mem"])][:1]
        for k in dict.fromkeys(chosen):
            root, steps = g.path_to(k)
            st = g.nodes[k]
            for a, n, cls, outcome in tab:
                if outcome != "error":
                    continue
                for op in ("read", "write"):
                    data = [] if op == "read" else [48 + j + 1 for j in range(n)]
                    act = {"op": op, "addr": a, "len": n, "data": data, "cls": cls, "res": {"err": True, "data": []}}
                    h = g.history(root, list(steps))
                    h["steps"].append({"a": act, "t": st})
                    hs.append(h)
    return hs


def replay_all(ck, hs, config, label):
    """Replay on the real storage; the driver reports every mismatch (a history stops at its first one)."""
    binary = ck.binary("memaddr")
    total_steps, mism = 0, []
    CH = 20000
    for pos in range(0, len(hs), CH):
        out = core.harness(binary, "storage", {"config": config, "histories": hs[pos:pos + CH]}, timeout=900)
        total_steps += out["steps"]
        for m in out["mismatches"] or []:
            m["history"] += pos
            mism.append(m)
    ck.cov["traces_validated_against_impl"] += len(hs)
    ck.cov["evaluations"] += total_steps
    new = 0
    for m in mism:
        key = dict(keyfn(m), scale=config.get("scale", 1))
        desc = "[%s] %s mismatch at step %d: op=%s want=%s got=%s" % (
            label, m["kind"], m["step"], json.dumps(m.get("op")), json.dumps(m["want"]), json.dumps(m["got"]))
        if ck.report(key, desc, {"driver": "storage", "config": config,
                                 "history": {"init": m.get("init"), "steps": m.get("prefix")}}) == "new":
            new += 1
    ck.note("%s: replayed %d histories, %d steps, %d mismatches (%d new) [t=%.0fs]" % (
        label, len(hs), total_steps, len(mism), new, time.time() - ck.t0))
    return mism


# ----------------------------------------------------------------------------- 64-bit representatives

def klass(cap, a, n, top):
    """Storage.tla's Class, for the instantiation at 64 bits (cross-checked against the TLC table)."""
    if a + n > top:
        return "wraps_address_space"
    if a + n == top:
        return "ends_at_top_of_address_space"
    if a > cap:
        return "starts_past_capacity"
    if a == cap:
        return "starts_at_capacity"
    if a + n > cap:
        return "crosses_capacity"
    return "in_range"


def pattern(n, salt):
    return [((i * 7 + salt) % 250) + 1 for i in range(n)]


def big_cases(ck, thorough):
    shapes = [(4 << 30, 4096), ((4 << 30) + 100, 4096), ((1 << 20) + 1, 96), (3 * 4096 + 17, 4096),
              (4096, 4096), (100, 4096), (0, 4096), (1 << 40, 4096)]
    if thorough:
        shapes += [(65536, 1), ((1 << 32) - 1, 4096), ((1 << 32) + 1, 1024), (12345, 7), (1 << 33, 1 << 16),
                   ((1 << 63) + 5, 4096)]
    cases = []
    for cap, unit in shapes:
        up = -(-cap // unit) * unit                      # end of the last allocation unit
        last = cap - cap % unit if cap % unit else max(cap - unit, 0)
        lens = sorted({1, 2, 3, unit - 1, unit, unit + 1, 2 * unit + 3} - {0})
        lens = [n for n in lens if n <= 3 * 4096 + 3]
        pre = []
        lo = min(16, cap)
        if lo:
            pre.append({"addr": "0", "data": pattern(lo, 3)})
        win = min(cap, 96)                              # the bytes just below the capacity
        if win:
            pre.append({"addr": str(cap - win), "data": pattern(win, 11)})
        if last >= 40 and last + 40 <= cap - win:       # around the start of the last allocation unit
            pre.append({"addr": str(last - 40), "data": pattern(80, 23)})
        content = {}
        for w in pre:
            for j, b in enumerate(w["data"]):
                content[int(w["addr"]) + j] = b
        probes = []
        if lo:
            probes.append(["0", lo])
        if cap:
            probes.append([str(cap - min(cap, 64)), min(cap, 64)])
        if last and last < cap:
            s = max(last - 32, 0)
            probes.append([str(s), min(64, cap - s)])
        for n in lens:
            starts = {0, cap - 1, cap, cap + 1, cap - n, cap - n + 1, cap - n - 1, last, last - 1, last + 1, up - 1, up - n,
                      up, up + 1, up + unit, 1 << 63, TOP64 - 1, TOP64 - n, TOP64 - n + 1, TOP64 - n - 1, TOP64 - 2 * n}
            if thorough:
                starts |= {ck.rng.randrange(0, max(cap, 1)) for _ in range(4)} | {ck.rng.randrange(cap, TOP64) for _ in range(4)}
            for a in sorted(x for x in starts if 0 <= x < TOP64):
                for op in ("read", "write"):
                    cases.append({"cap": str(cap), "unit": str(unit), "pre": pre, "op": op, "addr": str(a), "len": n,
                                  "salt": 101, "probes": probes,
                                  "_cls": klass(cap, a, n, TOP64), "_content": content})
    return cases


def expect_bytes(content, a, n):
    return [content.get(a + j, 0) for j in range(n)]


def run_big(ck, class_outcome, thorough):
    cases = big_cases(ck, thorough)
    payload = [{k: v for k, v in c.items() if not k.startswith("_")} for c in cases]
    res = []
    binary = ck.binary("memaddr")
    for i in range(0, len(payload), 500):
        res += core.harness(binary, "storage64", {"cases": payload[i:i + 500]}, timeout=900)["results"]
    if len(res) != len(cases):
        raise core.Broken("storage64 returned %d results for %d cases" % (len(res), len(cases)))
    seen_classes = set()
    n_bad = 0
    for c, r in zip(cases, res):
        cls = c["_cls"]
        seen_classes.add(cls)
        if cls not in class_outcome:
            raise core.Broken("class %s is not in the TLC class table" % cls)
        want_err = class_outcome[cls] == "error"
        cap, a, n = int(c["cap"]), int(c["addr"]), c["len"]
        content = c["_content"]
        problems = []
        before = [expect_bytes(content, int(p[0]), p[1]) for p in c["probes"]]
        if r.get("pre_err"):
            problems.append(("refused", "in-range preparation write refused: %s" % r["pre_err"]))
            cls = "in_range"
        elif (r.get("before") or []) != before and not r.get("panic"):
            problems.append(("wrong_data", "in-range bytes are not read back as written: got %s want %s" % (r.get("before"), before)))
            cls = "in_range"
        after_content = dict(content)
        if not want_err and c["op"] == "write":
            for j, b in enumerate(pattern(n, c["salt"])):
                after_content[a + j] = b
        after = [expect_bytes(after_content, int(p[0]), p[1]) for p in c["probes"]]
        if problems:
            pass
        elif r.get("panic"):
            problems.append(("panic", "panic: " + r["panic"]))
        else:
            if want_err and not r["err"]:
                problems.append(("accepted", "access accepted, want error"))
            if not want_err and r["err"]:
                problems.append(("refused", "access refused (%s), want success" % r.get("err_text")))
            if not want_err and not r["err"] and c["op"] == "read":
                exp = expect_bytes(content, a, n)
                if (r.get("data_len") != n or (r.get("data") or []) != exp[:64]
                        or r.get("data_sha") != hashlib.sha256(bytes(exp)).hexdigest()):
                    problems.append(("wrong_data", "read returned other bytes than last written"))
            if (r.get("after") or []) != after and after:
                problems.append(("contents_changed_by_failed_access" if want_err else "wrong_contents",
                                 "contents after the access differ: got %s want %s" % (r.get("after"), after)))
            if r.get("ckpt_err"):
                problems.append(("ckpt", "checkpoint round trip failed: " + r["ckpt_err"]))
            elif (r.get("after_ckpt") or []) != (r.get("after") or []):
                problems.append(("ckpt", "contents differ after checkpoint save/load"))
        for outcome, text in problems[:1]:
            n_bad += 1
            key = {"op": c["op"], "class": cls, "kind": "state" if "contents" in outcome else "result",
                   "outcome": outcome, "scale": 64}
            desc = "[64-bit] cap=%s unit=%s %s(addr=%s, len=%d) class=%s: %s" % (c["cap"], c["unit"], c["op"], c["addr"], n, cls, text)
            ck.report(key, desc, {"driver": "storage64", "cases": [{k: v for k, v in c.items() if not k.startswith("_")}],
                                  "result": r})
    ck.cov["evaluations"] += len(cases)
    ck.cov["traces_validated_against_impl"] += len(cases)
    missing = set(class_outcome) - seen_classes
    if missing:
        raise core.Broken("64-bit representatives miss the classes %s" % sorted(missing))
    ck.note("64-bit representatives: %d cases over %d classes, %d contradict the statement" % (len(cases), len(seen_classes), n_bad))
    ck.cov["big_cases"] = len(cases)
    return cases


# ----------------------------------------------------------------------------- run

def run(ck):
    thorough = ck.tier != "quick"
    cfg = "Storage_t.cfg" if thorough else "Storage_q.cfg"
    W = 7 if thorough else 5
    g, r = objcheck.graph_from_tlc(ck, ["container"], "Storage", cfg, workers=8 if thorough else 4, timeout=1500)
    tables, class_outcome = {}, {}
    for t in r.tagged["CASE"]:
        if t["w"] != W:
            raise core.Broken("configuration word width %s differs from the check's %s" % (t["w"], W))
        tables[t["cap"]] = sorted(t["rows"])
        for a, n, cls, outcome in t["rows"]:
            if klass(t["cap"], a, n, 1 << W) != cls:
                raise core.Broken("class of (%d,%d,%d) differs between Storage.tla and the check" % (t["cap"], a, n))
            if class_outcome.setdefault(cls, outcome) != outcome:
                raise core.Broken("outcome is not a function of the class (%s)" % cls)
    if class_outcome.get("in_range") != "ok" or any(v != "error" for k, v in class_outcome.items() if k != "in_range"):
        raise core.Broken("unexpected class table %s" % class_outcome)
    ck.cov["exhaustive"] = True
    ck.cov["rule"] = ("TLC enumerates the complete state graph of Storage.tla (W-bit address word, shapes = capacity x unit "
                      "size, every start address in the window around the capacity and the top of the word x every length, "
                      "<= 2 successful writes, checkpoint round trips); every transition is replayed on mem.Storage (result "
                      "and whole contents compared after each step) at scale 1 and at scale 1024, every failing row of the "
                      "class table (all start addresses) is replayed as read and write from empty and filled storages, and "
                      "each class is re-instantiated at 64 bits on realistic capacities. Non-trivial = distinct history that "
                      "contains an access the statement requires to fail, a read over previously written bytes, or a "
                      "checkpoint round trip.")
    ck.assumptions += [
        "the W-bit word is embedded in the 64-bit space (lower half kept, upper half moved to the top): behaviour is assumed "
        "to depend on addresses only through their position relative to 0, the capacity, unit boundaries and 2^64",
        "zero-length accesses are not specified by the statement and not exercised",
        "contents = the bytes readable below the capacity (allocation of units is not content)",
        "single-threaded use of the storage",
    ]
    walks, wl = (300, 12) if not thorough else (5000, 20)
    hs, n_fail, n_chain = build_histories(ck, g, walks, wl)
    ths = table_histories(ck, g, tables, 1 if not thorough else 2)
    ck.note("graph: %d states, %d edges -> %d failing-access histories, %d chains, %d walks; class table: %d histories "
            "[TLC %.0fs, t=%.0fs]" % (len(g.nodes), len(g.edges), n_fail, n_chain, walks, len(ths), r.wall, time.time() - ck.t0))

    def nontrivial(h):
        wrote = False
        for s in h["steps"]:
            a = s["a"]
            if failing(a) or a["op"] == "ckpt":
                return True
            if a["op"] == "write":
                wrote = True
            elif a["op"] == "read" and wrote and any(a["res"]["data"]):
                return True
        return False
    seen = set()
    for h in hs + ths:
        k = core.canon([h["init"], [s["a"] for s in h["steps"]]])
        if k not in seen:
            seen.add(k)
            if nontrivial(h):
                ck.cov["distinct_nontrivial"] += 1
    for h in (hs[:1] + hs[n_fail:n_fail + 1] + hs[-1:] + ths[:1]):
        ck.sample({"init": h["init"], "ops": [{k: s["a"][k] for k in ("op", "addr", "len", "cls", "res")} for s in h["steps"]][:8]})

    replay_all(ck, hs, {"w": W, "scale": 1}, "scale 1")
    replay_all(ck, ths, {"w": W, "scale": 1}, "class table, scale 1")
    # the same behaviours with realistic unit sizes: every specification byte = 1024 real bytes
    sub = hs
    if thorough:   # all failing-access histories, a seeded third of the chains and walks
        sub = hs[:n_fail] + [h for h in hs[n_fail:] if ck.rng.random() < 1 / 3]
    replay_all(ck, sub, {"w": W, "scale": 1024}, "scale 1024")
    replay_all(ck, ths[::2] if thorough else ths, {"w": W, "scale": 1024}, "class table, scale 1024")
    cases = run_big(ck, class_outcome, thorough)
    c = cases[len(cases) // 2]
    ck.sample({"cap": c["cap"], "unit": c["unit"], "op": c["op"], "addr": c["addr"], "len": c["len"], "class": c["_cls"]})
