"""C12 — ticking components tick on clock edges, once per instant, while busy (spec/tick/TickImpl.tla, TickTrace.tla)."""
from vlib import core, tickcheck, partick

LEVEL = "model_checking"
TECHNIQUE = "TLA+ model of TickNow/TickLater guards explored by TLC (TickDiscipline, GuardSound invariants); scripts replayed on real ticking components with mixed frequencies; tick obligations monitored by TLC on the traces; logs of parallel-engine runs (lined-up concurrent wake-ups of one component) validated by TLC against ParTick.tla"
LEVEL_TEXT = ("TickImpl.tla checks in every reachable state that ticks fall on multiples of the period and at most once per instant, and that the dedup guard covers "
              "every queued tick; the enumerated scripts and seeded random systems with periods that do not divide each other (500, 1000, 2000, 3000, 5000 ps) run on real "
              "TickingComponents and direct connections; TickTrace.tla discharges the statement's obligations on the trace: tick on edge, once per instant, after a progress "
              "tick the next tick is exactly the next edge, after a receive into an empty buffer or a freed full outgoing buffer some tick follows at a later edge, none left at quiescence.")
LEVEL_NOTE = "Progress of a scripted component = it retrieved or sent something; progress of a connection = it delivered something."


def run(ck):
    q = ck.tier == "quick"
    ck.cov["rule"] = ("case = one system run to quiescence; TLC-enumerated scripts on topologies with ticking components of periods 2 and 3 against connection periods 1 and 2, "
                      "plus seeded random systems with mixed frequencies; non-trivial = contains a ticking component that ticked at least twice.")
    ck.assumptions += ["a ticking component is started with TickNow at time 0"]
    cfgs = ["TickImpl_q2.cfg", "TickImpl_q4.cfg", "TickImpl_q1.cfg"] if q else ["TickImpl_t2.cfg", "TickImpl_t4.cfg", "TickImpl_t3.cfg"]
    lost, ok = tickcheck.model_behaviours(ck, cfgs, workers=8 if q else 16, cap=1500 if q else 30000)
    systems = [tickcheck.system_from_behaviour(b) for b in lost + ok]
    cases, out = tickcheck.run_and_monitor(ck, "model-scripts", systems=systems)
    ck.cov["distinct_nontrivial"] += len(systems)
    tickcheck.report_cases(ck, cases, {"C12"}, "model-scripts")
    cases, out = tickcheck.run_and_monitor(ck, "random", random=400 if q else 8000, max_comps=5, max_msgs=12, stress=10 if q else 300)
    ck.cov["distinct_nontrivial"] += out["systems"]
    tickcheck.report_cases(ck, cases, {"C12"}, "random")
    # once per instant with handlers on several goroutines: star systems (several connections wake one receiver) and mesh systems
    # (twelve lined-up retrievals wake every component of the connection at once)
    partick.run(ck, systems=6 if q else 60, msgs=60 if q else 200, wide=2 if q else 16, wide_msgs=150 if q else 300, cfg="ParTick.cfg")
    ck.cov["exhaustive"] = True
