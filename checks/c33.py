"""C33 — observing a simulation does not change it
(spec/tracing/Observe.tla; harness family nettrace, driver observe)."""
import json, os
from vlib import core, tracepar

LEVEL = "exploration"
TECHNIQUE = ("two-run (self-composition) TLA+ specification of non-interference of observers, model-checked with TLC on a tiny abstract "
             "simulator with fault controls; real assemblies run bare and under all 16 combinations of {engine hook, component tracers, "
             "buffer tracing, SQLite DB tracer}; TLC compares every observed run's ID-erased outcome stream and final storage with the bare run")
LEVEL_TEXT = ("Observe.tla composes two copies of an abstract discrete-event simulation with a shared-style ID counter; copy B carries "
              "observers that may read anything, write only their own log and draw fresh IDs. TLC checks that the ID-erased outcome streams "
              "agree position by position in every interleaving; two controls (an observer that delays an event; comparing with IDs kept) "
              "must violate the invariant. Each seeded real assembly (ideal/DRAM/banked memory, write-back and write-through caches, L1+L2, "
              "ROB+AT+TLB+MMU+L1+L2 stack with control histories, and networks with device traffic) is then run once bare and once with every "
              "combination of: a hook on the engine; a recording tracer plus BusyTime/AverageTime/TotalTime/TagCount tracers on every "
              "component and connection; incoming/outgoing buffer tracers on every port; a DBTracer writing to a SQLite file. The outcome "
              "fingerprint is what the requester sees — response kind, data, simulated time, in order, control acknowledgements — plus the "
              "digest of the final storage and the end time, IDs erased (a response names the index of its request). The comparator part of "
              "Observe.tla (TLC) reports the first divergence of every run from its bare run.")
LEVEL_NOTE = ("A hyperproperty: TLC is the comparator, the exploration is in the seeded assemblies, workloads and observer combinations; "
              "nothing here is exhaustive. Serial engine only. Observers are the library's own (tracing package, buffer hooks, DB tracer) "
              "plus a counting engine hook; monitoring2 and the parallel engine are not covered.")

CLASSES = {"stream_diverges", "final_state_differs", "end_time_differs", "crash_differs"}


def model(ck, dummy):
    quick = ck.tier == "quick"
    jobs = [dict(cfg="Observe_q.cfg" if quick else "Observe_t.cfg", workers=2 if quick else 8),
            dict(cfg="Observe_delay.cfg", expect="NonInterference"), dict(cfg="Observe_ids.cfg", expect="NonInterference"),
            dict(cfg="Observe_active.cfg", expect="ObserversActive")]
    res = tracepar.model_runs(ck, ["tracing", "common"], "Observe", jobs, parallel=4, timeout=1500, env={"TRACE_FILE": dummy})
    ck.cov["model"] = {c: dict(distinct=r.distinct, generated=r.generated, wall_s=round(r.wall, 1)) for c, r in res.items()}
    ck.note("Observe.tla: %s" % ", ".join("%s %d states" % (c, r.distinct) for c, r in res.items()))


def selftest(ck, trace_path):
    """Negative controls of the comparator: a run whose stream has one time changed, one outcome dropped, and one whose
    final digest differs must each be reported."""
    recs = tracepar.read_ndjson(trace_path)
    base = next((r for r in recs if r["variant"] == 0 and len(r["obs"]) >= 3), None)
    if base is None:
        raise core.Broken("no bare run with outcomes to derive negative controls from")
    mk = lambda v, **kw: dict(json.loads(json.dumps(base)), asm=9000, variant=v, vname="control%d" % v, **kw)
    o1 = json.loads(json.dumps(base["obs"]))
    o1[1]["t"] = str(int(o1[1]["t"]) + 1000)
    o2 = json.loads(json.dumps(base["obs"]))
    del o2[len(o2) // 2]
    ctl = [mk(0), mk(1, obs=o1), mk(2, obs=o2), mk(3, final="0" * 64)]
    d = core.scratch("c33self-")
    p = os.path.join(d, "controls.ndjson")
    tracepar.write_ndjson(p, ctl)
    v = tracepar.validate_many(ck, ["tracing", "common"], "Observe", "Observe_cmp.cfg", [p], parallel=1, timeout=600)[0]
    got = {c["variant"]: c["class"] for c in v.cases}
    want = {1: "stream_diverges", 2: "stream_diverges", 3: "final_state_differs"}
    if got != want or not v.accepted:
        raise core.Broken("negative controls of the comparator: wanted %s, got %s (accepted=%s)" % (want, got, v.accepted))
    ck.cov["negative_controls"] = ["time_changed", "outcome_dropped", "final_digest_changed"]


def run(ck):
    quick = ck.tier == "quick"
    ck.cov["rule"] = ("(1) Observe.tla model: NonInterference over all interleavings of two copies (one observed) of the tiny simulator; controls "
                      "delay / ids / active. (2) each seeded assembly run bare and under the 15 non-empty observer combinations (fresh build each "
                      "time, same seed); TLC's comparator checks stream[i] equal for all i, final storage digest, end time and crash status against "
                      "the bare run. Counted per observed run; non-trivial = an observed run whose observers really saw events (engine events, task "
                      "events or database rows) and whose assembly produced at least 10 outcomes.")
    ck.assumptions += ["outcomes identify requests by their index, so generated IDs are erased by construction",
                       "the bare run has no hook anywhere (device agents note their own retrievals; the run is bounded with RunUntil, not a hook)"]
    d = core.scratch("c33-")
    dummy = os.path.join(d, "empty.ndjson")
    tracepar.write_ndjson(dummy, [{"asm": 0, "variant": 0}])
    if not os.environ.get("VERIF_SKIP_MODEL"):   # development aid (sensitivity runs): the model part does not depend on /repo
        model(ck, dummy)
    stacks, nets, ops, msgs, per = (6, 1, 40, 40, 3) if quick else (40, 6, 150, 120, 5)
    binary = ck.binary("nettrace")
    traces, outs = [], []
    first = 0
    while first < stacks:
        n = min(per, stacks - first)
        nn = 1 if (first // per) < nets else 0
        path = os.path.join(d, "obs_%03d.ndjson" % first)
        out = core.harness(binary, "observe", dict(seed=ck.seed, stacks=n, nets=nn, ops=ops, msgs=msgs, first=first, out=path, scratch=d), timeout=2400)
        traces.append(path)
        outs.append(out)
        first += n
    verdicts = tracepar.validate_many(ck, ["tracing", "common"], "Observe", "Observe_cmp.cfg", traces, parallel=3 if quick else 8, timeout=1500)
    selftest(ck, traces[0])
    runs = outcomes = nontrivial = assemblies = crashed = 0
    kinds = {}
    for out, v in zip(outs, verdicts):
        if not v.accepted:
            keep = tracepar.keep_trace(ck, v.trace, "observe")
            raise core.Broken("comparator did not get through %s (matched %s, invariant %s); kept at %s" % (v.trace, v.matched, v.invariant, keep))
        assemblies += out["assemblies"]
        outcomes += out["outcomes"]
        for i in out["infos"]:
            if i["variant"] == "bare":
                kinds[i["kind"]] = kinds.get(i["kind"], 0) + 1
                if i["panic"]:
                    crashed += 1
                continue
            runs += 1
            seen = i.get("seen") or {}
            if i["outcomes"] >= 10 and (seen.get("engine_events", 0) + seen.get("task_events", 0) > 0 or seen.get("db_bytes", 0) > 30000):
                nontrivial += 1
        for c in v.cases:
            if c["class"] not in CLASSES:
                raise core.Broken("unexpected CASE from the comparator: %s" % json.dumps(c)[:400])
            key = {"class": c["class"], "assembly": c["kind"], "observers": c["vname"]}
            desc = "assembly %d (%s) observed with %s differs from its bare run: %s at outcome %s: bare %s, observed %s" % (
                c["asm"], c["kind"], c["vname"], c["class"], c["at"], json.dumps(c["bare"]), json.dumps(c["observed"]))
            ck.report(key, desc, {"driver": "observe", "input": out["replays"][c["asm"]], "variants": [0, c["variant"]], "case": c})
    ck.cov["traces_validated_against_impl"] += runs
    ck.cov["evaluations"] += outcomes
    ck.cov["distinct_nontrivial"] += nontrivial
    ck.cov["assemblies"] = kinds
    ck.cov["assemblies_crashing_bare"] = crashed
    if outs:
        ck.sample({"observed_run": outs[0]["infos"][15] if len(outs[0]["infos"]) > 15 else outs[0]["infos"][-1]})
        ck.sample({"assembly": outs[0]["replays"][0]})
    ck.note("%d assemblies %s x 16 observer sets: %d observed runs compared with their bare runs, %d outcomes" % (assemblies, kinds, runs, outcomes))
