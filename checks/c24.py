"""C24 — interleaved address conversion is consistent and order-preserving (spec/container/Interleave.tla)."""
import json
from vlib import core

LEVEL = "model_checking"
TECHNIQUE = ("TLC computes, for every (interleaving size, element count, offset) in the bounded ranges, the owner and the "
             "internal address of every address of several rounds from the statement's set/rank definitions, checks that the "
             "tables are order-preserving bijections, contiguous within stripes and equal to the closed form, and emits them; "
             "every table row is put to the real InterleavingConverter, ConvertAddress, InterleavedAddressPortMapper and to "
             "the bank selection of a real simplebankedmemory component, for every element index, at scale 1 and scaled to "
             "sizes 2^6..2^12 with offsets near 2^40")
LEVEL_TEXT = ("model checking of the specification's tables (8 invariants per configuration) plus exhaustive comparison of "
              "every table row x element index with the real functions")
LEVEL_NOTE = ("bounded: sizes <= 4, n <= 3 (quick) / sizes <= 8, n <= 4 (thorough), 2-3 rounds of addresses from the offset; "
              "large sizes/offsets are reached by the cell-scaling homomorphism (each table address stands for F addresses), "
              "not explored independently")


def klass(size, n, off):
    if off % size:
        return "offset_not_multiple_of_interleaving"
    if off % (size * n):
        return "offset_not_multiple_of_round"
    return "offset_aligned"


def run(ck):
    thorough = ck.tier != "quick"
    cfg = "Interleave_t.cfg" if thorough else "Interleave_q.cfg"
    r = ck.run_tlc(["container"], "Interleave", cfg, workers=8 if thorough else 4, timeout=900)
    if not r.ok:
        raise core.Broken("Interleave.tla itself fails: %s %s\n%s" % (r.violated, r.error, "\n".join(r.lines[-30:])))
    cases = r.tagged["CASE"]
    if not cases:
        raise core.Broken("no tables emitted by Interleave/%s" % cfg)
    cases.sort(key=lambda c: (c["size"], c["n"], c["off"]))
    rows = sum(len(c["rows"]) for c in cases)
    scales = [{"f": 1, "base": "0", "eps": [0]},
              {"f": 64, "base": str(1 << 40), "eps": [0, 1, -1]}]
    if thorough:
        scales += [{"f": 1, "base": str((1 << 40) + 12345), "eps": [0]},
                   {"f": 1, "base": str((1 << 40) + 12345), "eps": [0], "raw": True},
                   {"f": 64, "base": str((1 << 40) + 64 * 7), "eps": [0, -1], "raw": True},
                   {"f": 512, "base": str((1 << 40) + (1 << 33)), "eps": [0, -1]},
                   {"f": 4096, "base": str((1 << 41) - 1), "eps": [0, 2047, -1]}]
    for sc in scales:   # plus seeded positions inside the scaled address cells
        if sc["f"] > 2:
            sc["eps"] = sorted(set(sc["eps"]) | {ck.rng.randrange(1, sc["f"] - 1) for _ in range(2 if thorough else 1)})
    ck.cov["exhaustive"] = True
    ck.cov["rule"] = ("TLC builds the owner/internal tables of every (size, n, offset) of the configuration from the set and "
                      "rank definitions and checks 8 invariants on each; every row x element index is evaluated on "
                      "InterleavingConverter.ConvertExternalToInternal, ConvertAddress, InterleavedAddressPortMapper.Find "
                      "(LowAddress = offset) and on the bank a simplebankedmemory component dispatches a request to, at "
                      "scale 1 and at scaled sizes/offsets; the owner must get the table's internal address, every other "
                      "element must refuse. Non-trivial = address of a configuration with a non-zero offset (the "
                      "repository's tests use offset 0 only).")
    ck.assumptions += [
        "reading of 'offset': the interleaved region starts at the offset, stripe 0 begins there (as the code's "
        "address-below-offset refusal implies); addresses below the offset are not specified and not exercised",
        "the internal address space of an element starts at 0, so the order-preserving bijection is the rank",
        "the port mapper is configured with LowAddress = offset (it has no other notion of an offset)",
        "bank selection is observed on a real component with pipeline depth 0 and BankSelectorKind \"interleaved\": the bank "
        "whose buffer receives the request; the expected bank is the owner of the table's internal address in the "
        "interleaving of the controller-local addresses over the banks (stride 2^BankSelectorLog2InterleaveSize, offset 0; "
        "closed form (internal / stride) mod banks, which TLC checks as invariant ClosedForm), as README/Spec document",
        "scaled instances rely on the specification being invariant under translation of the offset and under replacing "
        "each address cell by F addresses (internal' = internal*F + e)",
    ]
    binary = ck.binary("memaddr")
    mism, evals = [], {}
    B = 60
    for i in range(0, len(cases), B):
        out = core.harness(binary, "interleave", {"cases": cases[i:i + B], "scales": scales, "bank": {"enabled": True}},
                           timeout=900)
        mism += out["mismatches"] or []
        for k, v in (out.get("evals") or {}).items():
            evals[k] = evals.get(k, 0) + v
    for t in ("converter", "convertaddr", "mapper", "bank"):
        if not evals.get(t):
            raise core.Broken("driver evaluated nothing for target %s" % t)
    ck.cov["evaluations"] += sum(v for k, v in evals.items() if k != "nonzero_offset_addresses")
    ck.cov["traces_validated_against_impl"] += len(cases) * len(scales)
    ck.cov["distinct_nontrivial"] += evals.get("nonzero_offset_addresses", 0)
    ck.cov["per_target_evaluations"] = evals
    ck.cov["tables"] = len(cases)
    ck.cov["table_rows"] = rows
    for c in cases[:1] + cases[len(cases) // 2:len(cases) // 2 + 1] + cases[-1:]:
        ck.sample({"size": c["size"], "n": c["n"], "off": c["off"], "rows[addr,owner,internal]": c["rows"][:10]})
    new = 0
    for m in mism:
        size, n, off = int(m["size"]), m["n"], int(m["off"])
        key = {"target": m["target"], "kind": m["kind"], "class": klass(size, n, off)}
        desc = ("%s: %s with size=%d n=%d offset=%d element=%d address=%s: want %s, got %s (%d such addresses in this "
                "configuration; table row %s, scale %d)" % (m["target"], m["kind"], size, n, off, m["idx"], m["addr"],
                                                            m["want"], m["got"], m["count"], m["row"], m["f"]))
        case = [c for c in cases if (c["size"], c["n"], c["off"]) == (m["case_size"], n, m["case_off"])]
        scale = [sc for sc in scales if sc["f"] == m["f"]]  # all scales with that factor (the bases differ)
        if ck.report(key, desc, {"driver": "interleave", "mismatch": m,
                                 "input": {"cases": case, "scales": scale, "bank": {"enabled": True}}}) == "new":
            new += 1
    ck.note("%d tables (%d rows) x %d scales: %s evaluations, %d mismatching (target, kind, configuration, scale) groups (%d new)" % (
        len(cases), rows, len(scales), json.dumps(evals), len(mism), new))
