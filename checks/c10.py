"""C10 — direct connections deliver exactly once, intact, in order (spec/tick/TickImpl.tla, TickTrace.tla)."""
from vlib import core, tickcheck, partick

LEVEL = "model_checking"
TECHNIQUE = "TLA+ model of ports and the round-robin direct connection explored by TLC; scripts replayed on the real packages; traces monitored by TLC for exactly-once, in-order, intact, right-destination delivery; logs of parallel-engine runs (several goroutines waking one connection) validated by TLC against ParTick.tla"
LEVEL_TEXT = ("TickImpl.tla (forwardMany, round-robin cursor, back-pressure through CanDeliver, stalling receivers) is explored exhaustively for small "
              "topologies incl. three ports on one connection; every enumerated script and seeded stress systems (one connection, 2-8 ports, capacities 1-4, "
              "hundreds of messages, receivers stalling up to 50 activations, refilling senders) run on real ports and directconnection; TickTrace.tla "
              "tracks every per-(source,destination) channel: a delivery must be the oldest undelivered message of its source for that destination, "
              "to the port named by Dst, once; nothing may vanish inside the connection; messages are compared by value at receipt.")
LEVEL_NOTE = "Exhaustive for the model topologies within script bounds; port counts/capacities beyond them are sampled."


def run(ck):
    q = ck.tier == "quick"
    ck.cov["rule"] = ("case = one system run to quiescence on the real code: TLC-enumerated scripts of TickImpl.tla on topologies with 2-3 ports per connection, "
                      "and seeded stress systems; non-trivial = at least 2 messages sent.")
    ck.assumptions += ["senders call CanSend before Send (documented contract)", "message identity compared by value (ID, Src, Dst, class, bytes, payload)"]
    cfgs = ["TickImpl_q3.cfg", "TickImpl_q2.cfg"] if q else ["TickImpl_t3.cfg", "TickImpl_t1.cfg", "TickImpl_t5.cfg"]
    lost, ok = tickcheck.model_behaviours(ck, cfgs, workers=8 if q else 16, cap=1500 if q else 30000)
    systems = [tickcheck.system_from_behaviour(b) for b in lost + ok]
    cases, out = tickcheck.run_and_monitor(ck, "model-scripts", systems=systems)
    ck.cov["distinct_nontrivial"] += sum(1 for s in systems if sum(1 for c in s["comps"] for acts in c["script"] for a in acts if a["op"] == "send") >= 2)
    tickcheck.report_cases(ck, cases, {"C10", "C09"}, "model-scripts")
    cases, out = tickcheck.run_and_monitor(ck, "stress", stress=40 if q else 1000, max_msgs=300 if q else 2000, random=100 if q else 2000, max_comps=5)
    ck.cov["distinct_nontrivial"] += out["systems"]
    tickcheck.report_cases(ck, cases, {"C10", "C09"}, "stress")
    # the same statement with handlers on several goroutines: senders of one round wake one idle connection at once (deliveries judged, not ticks)
    partick.run(ck, systems=12 if q else 120, msgs=120 if q else 200, cfg="ParTick_deliveries.cfg")
    ck.cov["exhaustive"] = True
