"""C28 — LRU sets behave as a recency-ordered key map (spec/container/LRUSet.tla)."""
from concurrent.futures import ThreadPoolExecutor
from vlib import core, objcheck

LEVEL = "model_checking"
TECHNIQUE = ("TLC enumerates the complete bounded state graph of LRUSet.tla (recency list + key map, every exported "
             "operation of lruset.Set); every transition is replayed on the real lruset.Set (transition cover + seeded "
             "random walks), once plainly and once with a JSON round trip after every operation")
LEVEL_TEXT = ("Explicit TLA+ reference model checked by TLC (type invariant, list ordered by last-visit time, eviction "
              "returns the least recently visited listed way, visit makes a way most recent and keeps the others' order, "
              "recency and bindings independent); all of its transitions within the bounds replayed on the real object, "
              "comparing every result and the projected state (bindings via Lookup, recency order via eviction of a "
              "decoded copy, and of the object itself at the end of each history).")
LEVEL_NOTE = ("Bounded: 0..3 ways x 2 keys (quick), 0..4 ways x 3 keys (thorough); with snapshots 2 ways x 2 keys "
              "(quick), additionally 0..3 ways x 1 key (thorough), one outstanding snapshot. Rebinds whose old key is bound to a "
              "different way are caller misuse the statement is silent about and are not generated. Way indices out of "
              "range are not generated.")


def _with_drain(h):
    """Append a final step that empties the real object itself by evictions: the recency order the
    specification holds at the end must come out, independently of the JSON-based projection."""
    last = h["steps"][-1]["t"] if h["steps"] else h["init"]
    t = dict(last, rec=[])
    return {"init": h["init"], "steps": h["steps"] + [{"a": {"op": "drain", "arg": 0, "res": list(last["rec"])}, "t": t}]}


def run(ck):
    cfg = "LRUSet_q.cfg" if ck.tier == "quick" else "LRUSet_t.cfg"
    g, r = objcheck.graph_from_tlc(ck, ["container"], "LRUSet", cfg, workers=4 if ck.tier == "quick" else 8,
                                   timeout=300 if ck.tier == "quick" else 900)
    # the same specification with snapshots (save ... rollback into the live set / decode into another used
    # set); the saved contents are part of the state, hence smaller bounds
    gss = []
    for scfg in (["LRUSet_snap_q.cfg"] if ck.tier == "quick" else ["LRUSet_snap_q.cfg", "LRUSet_snap_t.cfg"]):
        gs, _ = objcheck.graph_from_tlc(ck, ["container"], "LRUSet", scfg, workers=4 if ck.tier == "quick" else 8,
                                        timeout=300 if ck.tier == "quick" else 900)
        if not any(a["op"] == "rollback" for _, a, _ in gs.edges) or not any(a["op"] == "load_into_used" for _, a, _ in gs.edges):
            raise core.Broken("no rollback / load_into_used behaviours emitted by LRUSet/%s" % scfg)
        gss.append(gs)
    ck.cov["exhaustive"] = True
    ck.cov["rule"] = ("TLC enumerates the complete state graph of LRUSet.tla (way counts MinWays..MaxWays, NKeys keys; lookup, "
                      "rebind (UpdateKey, old key = none or a key of that way), remove, evict (also on an empty list), visit "
                      "(also of evicted ways), JSON round trip), and of the same specification with snapshots on smaller bounds (save; "
                      "keep operating; rollback = decode the snapshot into the same live set; load_into_used = decode it into another "
                      "set that has been visited, evicted from and bound differently); every transition is replayed on lruset.Set with the result "
                      "and the projected state compared after each step, then seeded random walks; each history ends with "
                      "draining the real object by evictions; the whole set is replayed a second time with a JSON round "
                      "trip (object replaced by the decoded one) after every operation. Non-trivial = distinct history "
                      "containing an eviction from an empty list, a visit of an evicted way, a rebind that moves or "
                      "overwrites a binding, a remove of a bound key, a JSON round trip, or a restore of a snapshot that differs from the "
                      "current contents.")
    ck.assumptions += ["keys are lruset.KeyString(k, k*0x1000); the 'no previous key' argument is the empty string",
                       "the way returned together with a lookup miss / failed eviction is not compared (statement silent)",
                       "the recency order is observed through Evict (on a decoded copy during a history, on the object "
                       "itself at its end); bindings through Lookup"]

    walks, wl = (150, 60) if ck.tier == "quick" else (2000, 150)
    hs = g.edge_cover(rng=ck.rng)
    for gs in gss:
        hs += gs.edge_cover(rng=ck.rng)
    n_cover = len(hs)
    hs += g.random_walks(ck.rng, walks, wl)
    for gs in gss:
        hs += gs.random_walks(ck.rng, walks // 2, wl)

    def nontrivial(h):
        cur = h["init"]
        for s in h["steps"]:
            a = s["a"]
            if a["op"] == "jsonrt":
                return True
            if a["op"] in ("rollback", "load_into_used") and (cur["rec"] != cur["snap"]["rec"] or cur["bind"] != cur["snap"]["bind"]):
                return True
            if a["op"] == "evict" and not a["res"]["ok"]:
                return True
            if a["op"] == "visit" and a["arg"] not in cur["rec"]:
                return True
            if a["op"] == "remove" and cur["bind"][a["arg"] - 1] != -1:
                return True
            if a["op"] == "rebind" and (a["arg"]["old"] != 0 or cur["bind"][a["arg"]["new"] - 1] != -1):
                return True
            cur = s["t"]
        return False

    seen, nt = set(), 0
    for h in hs:
        k = core.canon(h)
        if k not in seen:
            seen.add(k)
            nt += 1 if nontrivial(h) else 0
    ck.cov["distinct_nontrivial"] += nt
    for h in hs[:2] + hs[n_cover:n_cover + 1]:
        ck.sample({"init": h["init"], "ops": [s["a"] for s in h["steps"]][:12]})

    def slim(x):      # the driver observes the set only: the snapshot component of the states stays here
        return {k: v for k, v in x.items() if k != "snap"}
    hs = [_with_drain({"init": slim(h["init"]), "steps": [{"a": st["a"], "t": slim(st["t"])} for st in h["steps"]]}) for h in hs]
    binary = ck.binary("vmcontainers")

    def keyfn(m, mode):
        return {"op": (m.get("op") or {}).get("op"), "kind": m.get("kind"), "mode": mode}

    total = 0
    batch = 2000
    for mode, config in (("plain", {}), ("rt_every", {"rt_every": True})):
        steps, mism = 0, []
        starts = list(range(0, len(hs), batch))
        with ThreadPoolExecutor(max_workers=6) as ex:
            outs = list(ex.map(lambda i: core.harness(binary, "lruset", {"config": config, "histories": hs[i:i + batch]}), starts))
        for i, out in zip(starts, outs):
            steps += out["steps"]
            for m in out["mismatches"] or []:
                m["history"] += i
                mism.append(m)
        total += steps
        ck.cov["traces_validated_against_impl"] += len(hs)
        new = 0
        for m in mism:
            desc = "%s mismatch (%s replay) at step %d of history %d: op=%s want=%s got=%s" % (
                m["kind"], mode, m["step"], m["history"], core.canon(m.get("op")), core.canon(m["want"]), core.canon(m["got"]))
            if ck.report(keyfn(m, mode), desc, {"driver": "lruset", "config": config,
                                                "history": {"init": m.get("init"), "steps": m.get("prefix")}}) == "new":
                new += 1
        ck.note("%s: replayed %d histories (%d edge-cover + %d walks), %d steps, %d mismatches (%d new)" % (
            mode, len(hs), n_cover, len(hs) - n_cover, steps, len(mism), new))
    ck.cov["evaluations"] += total
