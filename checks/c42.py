"""C42 — clock arithmetic is exact (spec/engine/Clock.tla, ClockW.tla; driver timingmisc/clock).

Clock.tla states ThisTick / NextTick / NCyclesLater / Cycle mathematically (least multiple, number of
elapsed periods); TLC checks lemmas about the definitions for every small period and time and emits
the table of results.  ClockW.tla writes the formulas of timing/freq.go over a W-bit word and TLC
compares them with the mathematics wherever the result fits: every disagreement is a hypothesis about
the 64-bit code.  The check replays on real timing.Freq values

  (a) the emitted table, directly, for every period that is the exact period of a frequency
      (divisors of 10^12: 1 THz <-> 1 ps ... 1 Hz <-> 10^12 ps);
  (b) the same rows re-instantiated at large times for all 169 exact frequencies: a row is kept as
      offsets in periods relative to k = t div p (Clock!ShapeLemma, checked by TLC, says the result
      depends only on k and on the position of t inside the period), and k is moved next to 2^32,
      2^53, 2^63 and to the top of the 64-bit range;
  (c) the hypotheses of ClockW (t within one period of the top of the word, result still fitting),
      re-instantiated at 2^64;
  (d) seeded random (frequency, time, n);
  (e) frequencies whose period is NOT a whole number of picoseconds (boundary families with 10^12 mod f next to
      0, f/2 and f; common clock rates such as 1.2/1.5/1.6/2.4/3.2 GHz, 333/666 MHz; small primes; 999 999 999 999 Hz;
      a seeded log-uniform sample over 1 Hz..1 THz): the driver first asks the code for p = Period(); p must be
      10^12/f rounded to a whole picosecond (either direction, >= 1); then Clock.tla's definitions instantiated with
      that p are demanded of ThisTick / NextTick / NCyclesLater / Cycle (table rows for small p, the scaled shapes, the
      top of the 64-bit range) — the four functions must agree with each other through the same period.
Only results that fit in 64 bits are compared (the quantifier of the property).
"""
from vlib import core

LEVEL = "model_checking"
TECHNIQUE = ("TLA+ (Clock.tla: mathematical definitions + lemmas; ClockW.tla: Go formulas over a W-bit word) "
             "checked exhaustively by TLC; emitted result table and overflow hypotheses replayed on real "
             "timing.Freq at 64 bits")
LEVEL_TEXT = ("TLC explores every period/time of the bounded models (lemmas, monotonicity, W-bit agreement); the "
              "emitted table, its re-instantiation at 64-bit boundaries and the W-bit disagreement shapes are "
              "evaluated on the real functions for all 169 frequencies with an exact period.")
LEVEL_NOTE = ("64-bit inputs are sampled (boundary shapes + seeded random), not exhausted. For a frequency whose period "
              "10^12/f is not a whole number of picoseconds the statement speaks of 'the period' without fixing how it is "
              "rounded, so Period() is left free between floor and ceiling (it must be >= 1 and within 1 ps of 10^12/f) and "
              "the oracle demands the mutual consistency of the four functions through the period the code reports; for the "
              "169 frequencies with a whole period, Period() must be exactly 10^12/f.")

M64 = 1 << 64
PS = 10 ** 12


def exact_periods():
    ps = sorted({(2 ** a) * (5 ** b) for a in range(13) for b in range(13)})
    assert len(ps) == 169 and ps[0] == 1 and ps[-1] == PS
    return ps


def dclass(d, p):
    if d == 0:
        return "on_tick"
    if d == 1:
        return "one_after_tick"
    if d == p - 1:
        return "one_before_tick"
    return "between_ticks"


def offsets_table(rows):
    """row -> offsets in periods relative to k = t div p; must be uniform per position class."""
    tab = {}
    for r in rows:
        p, t, n = r["p"], r["t"], r["n"]
        k, d = divmod(t, p)
        for f in ("thisTick", "nextTick", "nCyclesLater"):
            if r[f] % p:
                raise core.Broken("Clock.tla emitted a tick that is not a multiple of the period: %r" % r)
        off = (r["thisTick"] // p - k, r["nextTick"] // p - k, r["nCyclesLater"] // p - k - n, r["cycle"] - k)
        c = dclass(d, p)
        if tab.setdefault(c, off) != off:
            raise core.Broken("Clock.tla table is not shape-uniform for class %s: %r vs %r (row %r)" % (c, tab[c], off, r))
    for c in ("on_tick", "one_after_tick", "one_before_tick", "between_ticks"):
        if c not in tab:
            raise core.Broken("Clock.tla table lacks class " + c)
    return tab


def boundary_class(P, t):
    if t + P - 1 >= M64:
        return "within_one_period_of_2^64"
    return "other"


def run(ck):
    q = ck.tier == "quick"
    rng = ck.rng
    # ---- TLC: mathematics
    r = ck.run_tlc(["engine"], "Clock", "Clock_q.cfg" if q else "Clock_t.cfg", workers=4 if q else 8, timeout=300 if q else 1200)
    if not r.ok:
        raise core.Broken("Clock.tla fails its own lemmas: %s %s" % (r.violated, r.error))
    rows = r.tagged["CASE"]
    if not rows:
        raise core.Broken("Clock.tla emitted no table")
    tab = offsets_table(rows)
    # ---- TLC: W-bit formulas vs mathematics
    rw = ck.run_tlc(["engine"], "ClockW", "ClockW_q.cfg" if q else "ClockW_t.cfg", workers=8, timeout=300 if q else 1500)
    if not rw.ok:
        raise core.Broken("ClockW.tla: an invariant delimiting the hypothesis region fails: %s %s" % (rw.violated, rw.error))
    hyps = rw.tagged["CASE"]
    # positive control of the method: the unrestricted agreement claim must be refuted by TLC
    rc = ck.run_tlc(["engine"], "ClockW", "ClockW_control.cfg", workers=2, timeout=300)
    if rc.ok or rc.violated != "ThisAgrees":
        raise core.Broken("control ClockW_control.cfg did not refute ThisAgrees (ok=%s violated=%s)" % (rc.ok, rc.violated))
    ck.note("Clock: %d rows; ClockW: %d W-bit disagreements (hypotheses), fns=%s" % (
        len(rows), len(hyps), sorted({h["fn"] for h in hyps})))

    periods = exact_periods()
    pset = set(periods)

    def expect(P, t, n):
        k, d = divmod(t, P)
        o = tab[dclass(d, P)]
        vals = dict(this=(k + o[0]) * P, next=(k + o[1]) * P, later=(k + o[2] + n) * P, cycle=k + o[3])
        return {a: (str(v) if 0 <= v < M64 else "") for a, v in vals.items()}

    cases, meta, seen = [], [], set()

    def add(P, t, n, origin, f=None):
        """P is the period: 10^12/f for an exact frequency (f=None), the period the code reports otherwise."""
        f = PS // P if f is None else f
        if not (0 <= t < M64) or (f, t, n) in seen:
            return
        seen.add((f, t, n))
        e = expect(P, t, n)
        cases.append(dict(f=str(f), period=str(P), t=str(t), n=n, **e))
        meta.append(dict(P=P, t=t, n=n, origin=origin, exact=(PS % f == 0)))

    # (a) the table itself
    n_direct = 0
    for w in rows:
        if w["p"] in pset:
            k = len(cases)
            add(w["p"], w["t"], w["n"], "table")
            if len(cases) > k:
                # the directly emitted values must coincide with the offsets form
                c = cases[-1]
                if (c["this"], c["next"], c["later"], c["cycle"]) != tuple(str(w[x]) for x in ("thisTick", "nextTick", "nCyclesLater", "cycle")):
                    raise core.Broken("offset form disagrees with emitted row %r" % w)
                n_direct += 1
    # (b) shapes at large times, every exact frequency
    ns_small = sorted({w["n"] for w in rows})
    bounds = [1 << 31, 1 << 32, 1 << 52, 1 << 53, 1 << 62, 1 << 63, M64 - 1]
    def shapes(P, origin, f=None, light=False):
        ks = {0, 1, 7} if light else {0, 1, 2, 3, 7}
        for b in (bounds[1::2] if light else bounds):
            kb = b // P
            ks |= {kb, kb + 1} if light else ({kb - 1, kb, kb + 1} if q else {kb - 2, kb - 1, kb, kb + 1})
        ktop = (M64 - 1) // P
        ks |= {ktop} if light else {ktop - 3, ktop - 2, ktop - 1, ktop}
        ks |= {rng.randrange(0, ktop + 1) for _ in range(1 if light else (2 if q else 8))}
        ds = {0, 1, P - 1, rng.randrange(0, P)} | (set() if light else {P // 2} if q else {P // 2, P // 2 + 1, rng.randrange(0, P)})
        big_n = [10 ** 6, (1 << 31) - 1, rng.randrange(4, 1 << 40)]
        for k in ks:
            if k < 0:
                continue
            for d in ds:
                if not 0 <= d < P:
                    continue
                t = k * P + d
                for n in ([rng.choice(ns_small)] if light else [ns_small[0], rng.choice(ns_small[1:])] if q else ns_small) + [rng.choice(big_n)]:
                    add(P, t, n, origin, f)

    for P in periods:
        shapes(P, "shape")
    n_shape = len(cases) - n_direct
    # (c) hypotheses from the W-bit model at the top of the 64-bit word
    hyp_shapes = {}
    for h in hyps:
        hyp_shapes.setdefault((h["fn"], h["n"], h["onTick"]), set()).add((h["fromTop"], h["p"]))
    n_before = len(cases)
    for (fn, n, on_tick), wit in sorted(hyp_shapes.items()):
        rs = sorted({ft for ft, _ in wit})
        if q:
            rs = rs[:6] + rng.sample(rs, min(len(rs), 10))
        for P in periods:
            top = ((M64 - 1) // P) * P          # largest representable tick
            cand = set()
            if on_tick:
                cand.add(M64 - top)
            else:
                for ft in rs:
                    cand.add(ft)                                # same distance from the top
                for ft, pw in rng.sample(sorted(wit), min(len(wit), 4 if q else 24)):
                    cand.add(max(1, (ft * P) // pw))            # same distance relative to the period
                cand |= {1, 2, P - 1, P // 2, M64 - top + 1}
            for ft in cand:
                t = M64 - ft
                # the shape: t within one period of the top, tick at/after t still representable
                if 1 <= ft <= P - 1 and t <= top and (t % P == 0) == on_tick:
                    add(P, t, n, "hypothesis:" + fn)
            add(P, M64 - P, n, "hypothesis-edge")               # just outside the region
    add(1000, 18446744073709551000, 0, "hypothesis:W12-example")     # DESIGN.md W12: the largest tick of a 1 GHz clock
    n_hyp = len(cases) - n_before
    # (e) frequencies whose period is not a whole number of picoseconds: the oracle is stated relative to the
    #     period p the code itself reports (Clock.tla instantiated with that p); p must be 10^12/f rounded either way.
    binary = ck.binary("timingmisc")
    fset = set()
    named = [6, 3, 7, 9, 11, 13, 17, 19, 23, 29, 31, 37, 41, 43, 47, 53, 59, 61, 67, 71, 73, 79, 83, 89, 97, 60, 666, 999,
             333 * 10 ** 6, 666 * 10 ** 6, 1200 * 10 ** 6, 1500 * 10 ** 6, 1600 * 10 ** 6, 2400 * 10 ** 6, 3200 * 10 ** 6,
             1333 * 10 ** 6, 1866 * 10 ** 6, 2133 * 10 ** 6, 2666 * 10 ** 6, 2933 * 10 ** 6, 3600 * 10 ** 6, 4800 * 10 ** 6,
             3 * 10 ** 11, 6 * 10 ** 11, 7 * 10 ** 11, 9 * 10 ** 11, PS - 1, PS - 2, PS // 2 + 1, PS // 2 - 1, PS // 3, PS // 3 + 1,
             2 * PS // 3, 2 * PS // 3 + 1, 2 * PS // 3 - 1, 2 * PS // 5, 2 * PS // 5 + 1, 32768, 44100, 48000 * 3, 14318180, 33333333,
             66666666, 133333333, 266666666, 533333333, 1066666666]
    fset |= set(named)
    # boundary families: 10^12 mod f in {1, f/2-1, f/2, f/2+1, f-1} (fractional part of the period next to 0, .5 and 1)
    def residue_family(f):
        r = PS % f
        return r in (1, f - 1) or abs(2 * r - f) <= 2
    fam = [f for f in range(2, 60000 if q else 400000) if residue_family(f)]
    fset |= set(fam if len(fam) <= (150 if q else 800) else rng.sample(fam, 150 if q else 800))
    for _ in range(300 if q else 1500):
        # f next to 10^12/(m+1/2) and 10^12/m for a random whole number of picoseconds m
        m = rng.randrange(1, 10 ** rng.randrange(1, 12))
        for f0 in ((2 * PS) // (2 * m + 1), PS // m):
            for df in (-1, 0, 1, 2):
                if residue_family(f0 + df) if f0 + df >= 2 else False:
                    fset.add(f0 + df)
    for p in sorted({w["p"] for w in rows}):          # frequencies whose period is one of the table's small periods
        fset |= {PS // p, PS // p - 1, PS // (p + 1) + 1, (2 * PS) // (2 * p + 1), (2 * PS) // (2 * p + 1) + 1}
    for _ in range(200 if q else 1500):               # seeded sample over the whole range, log-uniform
        fset.add(rng.randrange(1, 10 ** rng.randrange(1, 13)) if rng.random() < .5 else rng.randrange(1, PS + 1))
    fs = sorted(f for f in fset if 1 <= f <= PS and PS % f != 0)
    reported = core.harness(binary, "clock_periods", {"fs": [str(f) for f in fs]})["periods"]
    n_before = len(cases)
    rows_by_p = {}
    for w in rows:
        rows_by_p.setdefault(w["p"], []).append(w)
    period_readings = {"floor": 0, "ceil": 0}
    table_done = set()
    for f, ps in zip(fs, reported):
        lo, hi = PS // f, -((-PS) // f)
        if not ps.isdigit() or not (max(1, lo) <= int(ps) <= hi):
            ck.report({"fn": "Period", "class": "not_the_period_in_ps", "period": "inexact"},
                      "timing.Freq(%d).Period() = %s, but 10^12/f lies between %d and %d ps" % (f, ps, lo, hi),
                      {"driver": "clock_periods", "fs": [str(f)]})
            continue
        P = int(ps)
        period_readings["floor" if P == lo else "ceil"] += 1
        tr = rows_by_p.get(P, [])
        if P in table_done and len(tr) > 120:          # the complete table once per reported period, a sample afterwards
            tr = rng.sample(tr, 120)
        elif q:
            tr = tr[::3]
        table_done.add(P)
        for w in tr:
            add(P, w["t"], w["n"], "table@reported-period", f)
        shapes(P, "shape@reported-period", f, light=True)
        top = ((M64 - 1) // P) * P
        for t in (top, top - 1, M64 - P, M64 - P + 1, M64 - 1):
            add(P, t, 0, "top@reported-period", f)
    n_inexact = len(cases) - n_before
    ck.cov["inexact_frequencies"] = dict(frequencies=len(fs), cases=n_inexact, period_reading=period_readings)
    # (d) seeded random
    n_before = len(cases)
    for _ in range(4000 if q else 60000):
        P = rng.choice(periods)
        bits = rng.randrange(1, 65)
        t = rng.randrange(0, 1 << bits)
        n = rng.choice([0, 1, rng.randrange(0, 1000), rng.randrange(0, 1 << 31)])
        add(P, t, n, "random")
    n_rand = len(cases) - n_before

    evaluations = 0
    mism = []
    B = 100000
    for i in range(0, len(cases), B):
        out = core.harness(binary, "clock", {"cases": cases[i:i + B], "max": 5 * B})
        evaluations += out["evaluations"]
        for m in out["mismatches"] or []:
            m["case"] += i
            mism.append(m)
    ck.cov["traces_validated_against_impl"] += len(cases)
    ck.cov["evaluations"] += evaluations
    ck.cov["exhaustive"] = False
    ck.cov["distinct_nontrivial"] = sum(1 for m in meta if m["t"] % m["P"] != 0 or m["t"] >= (1 << 31))
    ck.cov["cases"] = dict(table=n_direct, shapes=n_shape, hypotheses=n_hyp, random=n_rand, frequencies=len(periods),
                           wbit_disagreements=len(hyps))
    ck.cov["rule"] = ("Clock.tla: TLC checks the lemmas and monotonicity of the mathematical definitions for every period "
                      "1..MaxP and time 0..MaxT and emits the result table; ClockW.tla: TLC compares the freq.go formulas over "
                      "a W-bit word with the mathematics for every period and time of the word. Replayed on timing.Freq: the "
                      "table rows whose period is exact, their re-instantiation at k next to 2^31..2^64 for all 169 exact "
                      "frequencies, the W-bit disagreement shapes at the top of the 64-bit word, seeded random cases, and the same table/"
                      "shapes for frequencies with a fractional period relative to the period the code reports. "
                      "Non-trivial = distinct (f,t,n) with t off a tick or t >= 2^31.")
    ck.assumptions += ["all 169 frequencies with an integral period (divisors of 10^12 Hz) + a sampled set of frequencies with a "
                       "fractional period, for which the period is whatever Period() reports (floor or ceiling of 10^12/f)",
                       "n >= 0 for NCyclesLater", "results that do not fit in 64 bits are not compared",
                       "expected 64-bit values are the TLC table rows expressed as offsets in periods (Clock!ShapeLemma)"]
    for i in (0, n_direct + 5, len(cases) - n_rand - 3, len(cases) - 1):
        if 0 <= i < len(cases):
            ck.sample(dict(case=cases[i], origin=meta[i]["origin"]))
    new = 0
    if mism:
        m0 = mism[0]
        ck.sample(dict(mismatch=dict(case=cases[m0["case"]], fn=m0["fn"], want=m0["want"], got=m0["got"])), cap=8)
    for m in mism:
        c, mt = cases[m["case"]], meta[m["case"]]
        key = {"fn": m["fn"], "class": boundary_class(mt["P"], mt["t"]), "period": "exact" if mt["exact"] else "inexact"}
        desc = "timing.Freq(%s).%s(%s%s): specification %s, code %s [%s, period %s ps]" % (
            c["f"], m["fn"], ("%d, " % c["n"]) if m["fn"] == "NCyclesLater" else "", c["t"], m["want"], m["got"],
            mt["origin"], c["period"])
        if ck.report(key, desc, {"driver": "clock", "cases": [c]}) == "new":
            new += 1
    ck.note("evaluated %d cases (%d table, %d shapes, %d hypotheses, %d random), %d function results, %d mismatches (%d new)" % (
        len(cases), n_direct, n_shape, n_hyp, n_rand, evaluations, len(mism), new))
    ck.note("of these, %d cases on %d frequencies with a fractional period (period reading of the code: %s)" % (
        n_inexact, len(fs), period_readings))


def replay(ck, doc):
    """Re-run a recorded contradiction (replays/C42-*.json) on the real code."""
    rp = doc["replay"]
    out = core.harness(ck.binary("timingmisc"), "clock", {"cases": rp["cases"], "max": 100})
    for m in out["mismatches"] or []:
        c = rp["cases"][m["case"]]
        P, t = int(c["period"]), int(c["t"])
        ck.report({"fn": m["fn"], "class": boundary_class(P, t), "period": "exact" if PS % int(c["f"]) == 0 else "inexact"},
                  "timing.Freq(%s).%s(%s): specification %s, code %s" % (c["f"], m["fn"], c["t"], m["want"], m["got"]), rp)
    ck.cov["traces_validated_against_impl"] += len(rp["cases"])
    ck.cov["rule"] = "replay of a recorded case"
