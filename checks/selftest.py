"""selftest — negative controls for the machinery itself (DESIGN R6): recorded traces with one field
corrupted or one event deleted must be REJECTED / flagged by the trace specifications; a wrong
restore must be rejected by Checkpoint.tla. Exit 0 = every control behaved as expected."""
import json, os
from vlib import core, tracecheck

LEVEL = "other"


def _lines(path):
    with open(path) as f:
        return [json.loads(l) for l in f if l.strip()]


def _write(path, recs):
    with open(path, "w") as f:
        for r in recs:
            f.write(json.dumps(r) + "\n")


def run(ck):
    ck.cov["explanation"] = "negative controls: corrupted / truncated traces must be rejected by EngineTrace, ParTrace and flagged by TickTrace"
    failures = []
    d = core.scratch("self-")
    # --- EngineTrace
    p = os.path.join(d, "e.ndjson")
    core.harness(ck.binary("engine"), "engine_trace", dict(seed=3, programs=3, max_events=60, boundaries=True, out=p))
    recs = _lines(p)
    v = tracecheck.validate(ck, ["engine", "common"], "EngineTrace", "EngineTrace.cfg", p)
    if not v.accepted:
        failures.append("EngineTrace rejects an unmodified trace")
    starts = [i for i, r in enumerate(recs) if r["e"] == "start"]
    # (a) swap the ids of two consecutive starts with different ids
    bad = [dict(r) for r in recs]
    for a, b in zip(starts, starts[1:]):
        if bad[a]["id"] != bad[b]["id"] and bad[a]["t"] == bad[b]["t"]:
            bad[a]["id"], bad[b]["id"] = bad[b]["id"], bad[a]["id"]
            break
    q = os.path.join(d, "e_swap.ndjson"); _write(q, bad)
    if tracecheck.validate(ck, ["engine", "common"], "EngineTrace", "EngineTrace.cfg", q).accepted:
        failures.append("EngineTrace accepts a trace with two handler starts swapped")
    # (b) delete one 'end'
    bad = [r for i, r in enumerate(recs) if not (r["e"] == "end" and i > len(recs) // 2)][:]
    bad = recs[:]
    del bad[next(i for i, r in enumerate(recs) if r["e"] == "end")]
    q = os.path.join(d, "e_del.ndjson"); _write(q, bad)
    if tracecheck.validate(ck, ["engine", "common"], "EngineTrace", "EngineTrace.cfg", q).accepted:
        failures.append("EngineTrace accepts a trace with a handler end deleted")
    # (c) corrupt a return record
    bad = [dict(r) for r in recs]
    for r in bad:
        if r["e"] == "ret":
            r["np"] += 1
            break
    q = os.path.join(d, "e_ret.ndjson"); _write(q, bad)
    if tracecheck.validate(ck, ["engine", "common"], "EngineTrace", "EngineTrace.cfg", q).accepted:
        failures.append("EngineTrace accepts a trace with a corrupted return record")
    # --- ParTrace
    p = os.path.join(d, "p.ndjson")
    core.harness(ck.binary("engine"), "par_trace", dict(seed=5, programs=4, max_events=30, engine="parallel", procs=4, gated=True, policy="random", out=p))
    recs = _lines(p)
    if not tracecheck.validate(ck, ["engine", "common"], "ParTrace", "ParTrace_parallel.cfg", p).accepted:
        failures.append("ParTrace rejects an unmodified log")
    bad = recs[:]
    del bad[next(i for i, r in enumerate(recs) if r["e"] == "end")]
    q = os.path.join(d, "p_del.ndjson"); _write(q, bad)
    if tracecheck.validate(ck, ["engine", "common"], "ParTrace", "ParTrace_parallel.cfg", q).accepted:
        failures.append("ParTrace accepts a log with a handler end deleted (Run returned with a handler running)")
    bad = [dict(r) for r in recs]
    i = next(i for i, r in enumerate(bad) if r["e"] == "sched" and r["t"] > 0)
    bad[i]["t"] = 0 if bad[i]["byT"] < 0 else bad[i]["byT"] - 1 if bad[i]["byT"] > 0 else 0
    # move a start before its schedule
    j = next(k for k, r in enumerate(bad) if r["e"] == "start" and r["id"] == bad[i]["id"])
    rec = bad.pop(j); bad.insert(i, rec)
    q = os.path.join(d, "p_early.ndjson"); _write(q, bad)
    if tracecheck.validate(ck, ["engine", "common"], "ParTrace", "ParTrace_parallel.cfg", q).accepted:
        failures.append("ParTrace accepts a start that precedes its schedule")
    # --- TickTrace
    p = os.path.join(d, "t.ndjson")
    core.harness(ck.binary("tick"), "tick_trace", dict(seed=2, random=6, max_comps=4, max_msgs=8, stress=1, out=p))
    recs = _lines(p)
    v = tracecheck.validate(ck, ["tick", "common"], "TickTrace", "TickTrace.cfg", p)
    if not v.accepted or v.tlc.tagged.get("CASE"):
        failures.append("TickTrace flags an unmodified trace")
    bad = recs[:]
    del bad[next(i for i, r in enumerate(recs) if r["e"] == "deliver")]
    q = os.path.join(d, "t_del.ndjson"); _write(q, bad)
    v = tracecheck.validate(ck, ["tick", "common"], "TickTrace", "TickTrace.cfg", q)
    if v.accepted and not v.tlc.tagged.get("CASE"):
        failures.append("TickTrace does not notice a deleted delivery")
    bad = [dict(r) for r in recs]
    i = next(i for i, r in enumerate(bad) if r["e"] == "act" and r["k"] == "tick")
    bad[i]["t"] += 1
    q = os.path.join(d, "t_edge.ndjson"); _write(q, bad)
    v = tracecheck.validate(ck, ["tick", "common"], "TickTrace", "TickTrace.cfg", q)
    if not any(c["class"] in ("tick_off_edge", "time_backwards") for c in v.tlc.tagged.get("CASE", [])):
        failures.append("TickTrace does not notice a tick moved off its clock edge")
    ck.cov["evaluations"] = 12
    ck.cov["distinct_nontrivial"] = 12
    ck.sample({"controls": 12, "failures": failures})
    for f in failures:
        ck.report({"selftest": f}, "negative control failed: " + f, {})
