"""C05 — Pause is a quiescent point, for both engines (spec/engine/SerialPause.tla, ParEngine.tla, ParTrace.tla)."""
from vlib import core
from checks import c04

LEVEL = "model_checking"
TECHNIQUE = "TLA+ models of both run loops against a pausing goroutine model-checked with TLC; real engines paused at gate-controlled moments, logs validated by TLC against the abstract pause rule"
LEVEL_TEXT = ("SerialPause.tla and ParEngine.tla place Pause/Continue at every label of the run loops; TLC checks Quiescent, no handler start "
              "while paused and completion after Continue. On the real engines a controller parks handlers at gates (engine BeforeEvent hook, "
              "before each Schedule, before return) and issues Pause() at the moments the models distinguish (before dispatch, mid-handler, "
              "between events), logs pause_ret/continue/start/end under one mutex, and TLC validates the log against ParTrace.tla.")
LEVEL_NOTE = ("Both engines are held to the strict rule (ParTrace_strict.cfg / ParTrace_parallel.cfg). The serial engine failed it before the repair of W11 "
              "(fix: SerialEngine.Pause waits for the event being handled); SerialPause_hyp.cfg keeps the old design as a negative control that TLC must refute.")


def run(ck):
    q = ck.tier == "quick"
    ck.cov["rule"] = ("TLC: all interleavings of the pauser with the run loop (SerialPause.tla) and with rounds/workers (ParEngine.tla). Real code: one case = "
                      "one program run with 1-3 Pause/Continue pairs at controller-chosen moments; all have >=1 pause.")
    ck.assumptions += ["Pause is called from a goroutine other than the engine's", "sync.Cond / sync.Mutex behave as documented"]
    r = ck.run_tlc(["engine"], "SerialPause", "SerialPause_q.cfg", workers=2, timeout=300)
    if not r.ok:
        raise core.Broken("SerialPause liveness fails: %s" % r.violated)
    h = ck.run_tlc(["engine"], "SerialPause", "SerialPause_hyp.cfg", workers=2, timeout=300)
    if h.ok:
        raise core.Broken("negative control: the flag-only Pause design (DispatchLock = FALSE) must violate Quiescent")
    r = ck.run_tlc(["engine"], "ParEngine", "ParEngine_q.cfg" if q else "ParEngine_t.cfg", workers=8 if q else 16, timeout=3000)
    if not r.ok:
        raise core.Broken("ParEngine.tla violates %s" % r.violated)
    # the W11 scenario (pause while a handler is parked mid-handler / before the dispatch completes) must now be accepted
    c04.run_traces(ck, "w11-scenario", "ParTrace_strict.cfg", dict(scenario="w11", engine="serial", gated=True, policy="lowkey", pauses=1, pause_mid=True),
                   key_extra={"class": "serial_pause_flag_only"})
    given = c04.sample_programs(ck, 60 if q else 400)
    # serial engine, W11 class tolerated, everything else strict
    c04.run_traces(ck, "serial-gated", "ParTrace_strict.cfg", dict(engine="serial", gated=True, policy="random", pauses=2,
                                                                  given=given, programs=10 if q else 100, max_events=30))
    # the same through the time-boundary flow: RunUntil(t) calls followed by Run
    c04.run_traces(ck, "serial-gated-rununtil", "ParTrace_strict.cfg", dict(engine="serial", gated=True, policy="random", pauses=2, run_until=True,
                                                                           given=given[:30] if q else given[:300], programs=6 if q else 60, max_events=30))
    # overlapping Pause calls from two goroutines
    c04.run_traces(ck, "serial-gated-double", "ParTrace_strict.cfg", dict(engine="serial", gated=True, policy="random", pauses=2, double=True,
                                                                         given=given[:30] if q else given[:300], programs=6 if q else 60, max_events=30))
    c04.run_traces(ck, "parallel-gated-double", "ParTrace_parallel.cfg", dict(engine="parallel", procs_cycle=True, gated=True, policy="random", pauses=2, double=True,
                                                                             given=given[:30] if q else given[:300], programs=6 if q else 60, max_events=30))
    # parallel engine, strict pause
    c04.run_traces(ck, "parallel-gated", "ParTrace_parallel.cfg", dict(engine="parallel", procs_cycle=True, gated=True, policy="random", pauses=2,
                                                                      given=given, programs=10 if q else 100, max_events=30))
    c04.run_traces(ck, "parallel-free", "ParTrace_parallel.cfg", dict(engine="parallel", procs_cycle=True, gated=False, spin=30, pauses=3,
                                                                     programs=40 if q else 400, max_events=150))
    c04.run_traces(ck, "serial-free", "ParTrace_strict.cfg", dict(engine="serial", gated=False, spin=30, pauses=3,
                                                                  programs=40 if q else 400, max_events=150))
