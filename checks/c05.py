"""C05 — Pause is a quiescent point, for both engines (spec/engine/SerialPause.tla, ParEngine.tla, ParTrace.tla)."""
from vlib import core
from checks import c04

LEVEL = "model_checking"
TECHNIQUE = "TLA+ models of both run loops against a pausing goroutine model-checked with TLC; real engines paused at gate-controlled moments, logs validated by TLC against the abstract pause rule"
LEVEL_TEXT = ("SerialPause.tla and ParEngine.tla place Pause/Continue at every label of the run loops; TLC checks Quiescent, no handler start "
              "while paused and completion after Continue. On the real engines a controller parks handlers at gates (engine BeforeEvent hook, "
              "before each Schedule, before return) and issues Pause() at the moments the models distinguish (before dispatch, mid-handler, "
              "between events), logs pause_ret/continue/start/end under one mutex, and TLC validates the log against ParTrace.tla.")
LEVEL_NOTE = ("Both engines are held to the strict rule (ParTrace_strict.cfg / ParTrace_parallel.cfg). The serial engine failed it before the repair of W11 "
              "(fix: SerialEngine.Pause waits for the event being handled); SerialPause_hyp.cfg keeps the old design as a negative control that TLC must refute.")


def run(ck):
    q = ck.tier == "quick"
    ck.cov["rule"] = ("TLC: all interleavings of the pauser with the run loop (SerialPause.tla) and with rounds/workers (ParEngine.tla). Real code: one case = "
                      "one program run with 1-3 Pause/Continue pairs at controller-chosen moments; all have >=1 pause.")
    ck.assumptions += ["Pause is called from a goroutine other than the engine's", "sync.Cond / sync.Mutex behave as documented"]
    r = ck.run_tlc(["engine"], "SerialPause", "SerialPause_q.cfg", workers=2, timeout=300)
    if not r.ok:
        raise core.Broken("SerialPause liveness fails: %s" % r.violated)
    h = ck.run_tlc(["engine"], "SerialPause", "SerialPause_hyp.cfg", workers=2, timeout=300)
    if h.ok:
        raise core.Broken("negative control: the flag-only Pause design (DispatchLock = FALSE) must violate Quiescent")
    nl = ck.run_tlc(["engine"], "SerialPause", "SerialPause_nolock.cfg", workers=2, timeout=300)
    if nl.ok or nl.violated not in ("NoLostWakeup", "EventuallyDone"):
        raise core.Broken("negative control: a Continue that stores and broadcasts without pauseMu (ContinueLock = FALSE) must lose a wake-up "
                          "(NoLostWakeup / EventuallyDone); TLC says %s %s" % (nl.violated, nl.error))
    ck.note("negative control (Continue without pauseMu): %s refuted by TLC" % nl.violated)
    r = ck.run_tlc(["engine"], "ParEngine", "ParEngine_q.cfg" if q else "ParEngine_t.cfg", workers=8 if q else 16, timeout=3000)
    if not r.ok:
        raise core.Broken("ParEngine.tla violates %s" % r.violated)
    # the W11 scenario (pause while a handler is parked mid-handler / before the dispatch completes) must now be accepted
    c04.run_traces(ck, "w11-scenario", "ParTrace_strict.cfg", dict(scenario="w11", engine="serial", gated=True, policy="lowkey", pauses=1, pause_mid=True),
                   key_extra={"class": "serial_pause_flag_only"})
    given = c04.sample_programs(ck, 60 if q else 400)
    # serial engine, W11 class tolerated, everything else strict
    c04.run_traces(ck, "serial-gated", "ParTrace_strict.cfg", dict(engine="serial", gated=True, policy="random", pauses=2,
                                                                  given=given, programs=10 if q else 100, max_events=30))
    # the same through the time-boundary flow: RunUntil(t) calls followed by Run
    c04.run_traces(ck, "serial-gated-rununtil", "ParTrace_strict.cfg", dict(engine="serial", gated=True, policy="random", pauses=2, run_until=True,
                                                                           given=given[:30] if q else given[:300], programs=6 if q else 60, max_events=30))
    # overlapping Pause calls from two goroutines
    c04.run_traces(ck, "serial-gated-double", "ParTrace_strict.cfg", dict(engine="serial", gated=True, policy="random", pauses=2, double=True,
                                                                         given=given[:30] if q else given[:300], programs=6 if q else 60, max_events=30))
    c04.run_traces(ck, "parallel-gated-double", "ParTrace_parallel.cfg", dict(engine="parallel", procs_cycle=True, gated=True, policy="random", pauses=2, double=True,
                                                                             given=given[:30] if q else given[:300], programs=6 if q else 60, max_events=30))
    # parallel engine, strict pause
    c04.run_traces(ck, "parallel-gated", "ParTrace_parallel.cfg", dict(engine="parallel", procs_cycle=True, gated=True, policy="random", pauses=2,
                                                                      given=given, programs=10 if q else 100, max_events=30))
    c04.run_traces(ck, "parallel-free", "ParTrace_parallel.cfg", dict(engine="parallel", procs_cycle=True, gated=False, spin=30, pauses=3,
                                                                     programs=40 if q else 400, max_events=150))
    c04.run_traces(ck, "serial-free", "ParTrace_strict.cfg", dict(engine="serial", gated=False, spin=30, pauses=3,
                                                                  programs=40 if q else 400, max_events=150))
    # pause storms: Pause immediately followed by Continue (no mutex hand-over in between: the two steps are ordered by an atomic sequence
    # number), as many times as fit into a long chain of events; after every Continue the run must make progress again ("after Continue the
    # run proceeds"): the lost wake-up SerialPause_nolock.cfg exhibits on the model is hunted on the real engines
    for eng, cfg in (("serial", "ParTrace_strict.cfg"), ("parallel", "ParTrace_parallel.cfg")):
        c04.run_traces(ck, eng + "-storm", cfg, dict(engine=eng, scenario="chain", gated=False, storm=True, pauses=1000000,
                                                    programs=6 if q else 40, max_events=1500 if q else 3000))
    # the pausing goroutine schedules a primary event at the current instant while it holds the pause
    c04.run_traces(ck, "parallel-gated-sched-in-pause", "ParTrace_parallel.cfg", dict(engine="parallel", procs_cycle=True, gated=True, policy="random", pauses=3, sched_in_pause=True,
                                                                                     given=given[:30] if q else given[:300], programs=6 if q else 60, max_events=30))
