"""C03 — serial simulations are deterministic (spec/ckpt/Det.tla)."""
import os
from vlib import core
from vlib import netckpt, vmckpt, memckpt

LEVEL = "exploration"
TECHNIQUE = "self-composition: the same seeded assemblies are run in separate OS processes (fresh map seeds, GOMAXPROCS 1/4/16); TLC validates each observation stream against the first (Det.tla)"
LEVEL_TEXT = ("A 2-safety property of the implementation's hidden nondeterminism (map order, scheduling, wall clock) that no specification can enumerate; it is expressed by "
              "self-composition: each assembly (tick-family systems incl. ideal memory with storage, built through simulation.Simulation) is executed in 4 separate processes; the "
              "observation stream — every handled event (time, handler, event ID), every port message (ID, port, destination), every entity's final checkpoint payload — of process k "
              "is validated by TLC against that of process 1; first divergence reported.")
LEVEL_NOTE = "Nondeterminism that needs a rare map layout may need more processes than are run; assemblies beyond the tick family (memory hierarchies, translation stacks, networks) are covered by their own checks' determinism modes where present."


def run(ck):
    q = ck.tier == "quick"
    ck.cov["rule"] = "case = one assembly executed in 4 processes; non-trivial = the stream has at least 10 records; distinct = distinct seeded assemblies."
    ck.assumptions += ["ID generator reset to the sequential generator at the start of each run"]
    binary = ck.binary("tick")
    d = core.scratch("c03-")
    n_sys = 40 if q else 250
    paths = []
    for k, procs in enumerate([1, 4, 16, 2]):
        p = os.path.join(d, "run%d.ndjson" % k)
        out = core.harness(binary, "det_run", dict(seed=ck.seed, random=n_sys, mem=n_sys // 2, out=p), env={"GOMAXPROCS": str(procs)}, timeout=1500)
        paths.append(p)
    ck.cov["evaluations"] += out["records"] * len(paths)
    ck.cov["distinct_nontrivial"] += out["systems"]
    with open(paths[0]) as f:
        ck.sample({"stream_excerpt": [f.readline().strip() for _ in range(5)]})
    for k in range(1, len(paths)):
        r = ck.run_tlc(["ckpt"], "Det", "Det.cfg", workers=1, timeout=1500, env={"TRACE_A": paths[0], "TRACE_B": paths[k]}, tags=("REJECTED",))
        ck.cov["traces_validated_against_impl"] += 1
        if not r.ok:
            rej = (r.tagged.get("REJECTED") or [{}])[0]
            keep = os.path.join(core.VERIF, "replays", "C03-seed%d-run%d.ndjson" % (ck.seed, k))
            os.makedirs(os.path.dirname(keep), exist_ok=True)
            os.replace(paths[k], keep)
            ck.report({"kind": "divergence", "entity": (rej.get("a") or {}).get("entity", "")},
                      "process %d diverges from process 0 after %s records: %s vs %s" % (k, rej.get("matched"), rej.get("a"), rej.get("b")),
                      {"trace": keep, "first": rej})
    ck.note("%d assemblies x %d processes, %d records each" % (out["systems"], len(paths), out["records"]))
    netckpt.run_c03(ck)
    vmckpt.run_c03(ck)
    memckpt.run_c03(ck)
