"""C11 — ports are bounded FIFO channels with accurate capacity and notifications
(spec/tick/Port.tla, driver ports/port)."""
import json
from vlib import core, objcheck

LEVEL = "model_checking"
TECHNIQUE = ("TLA+ specification of one port (two bounded FIFO buffers, four required notifications) model-checked by "
             "TLC (bounds, FIFO steps, notification rule phrased on the state change); the complete bounded state graph "
             "is replayed transition by transition, plus seeded random walks, on the real messaging.NewPort with a "
             "counting stub owner and stub connection; concurrent mode: from every state, one operation is parked inside the port at "
             "its own hook position while a second goroutine runs one or two operations, and the outcome must be explained by some "
             "sequential order in the same graph (linearizability of pairs, required notifications contained in the observed ones)")
LEVEL_TEXT = ("exhaustive within bounds: every reachable state and transition of Port.tla for incoming/outgoing capacities "
              "1..2 (quick) / 1..3 (thorough, in != out included) and 2/3 message values is executed on the real port")
LEVEL_NOTE = ("capacity-0 ports are out of scope; concurrency is covered for two goroutines and the interleavings reachable by parking "
              "one operation at its hook position (deliver/send/retrievein/retrieveout against 16 one- or two-operation sequences), not "
              "for arbitrary schedules; the port exposes no content accessor, so "
              "contents are compared through sizes, heads and CanSend/CanDeliver after every step, every retrieve result, and "
              "a full drain at the end of each history")

QUERIES = ("cansend", "candeliver", "numin", "numout", "peekin", "peekout")


def keyfn(m):
    op = m.get("op") or {}
    want, got = m.get("want"), m.get("got")
    cls = m.get("kind")
    if isinstance(want, dict) and isinstance(got, dict) and "need" in want:
        if want.get("val") == got.get("val") and (want.get("need") or []) != (got.get("need") or []):
            cls = "missing_notification:" + ",".join(sorted(set(want.get("need") or []) - set(got.get("need") or [])))
        elif want.get("val") != got.get("val"):
            cls = "wrong_result"
    return {"op": op.get("op"), "class": cls}


def run(ck):
    cfg = "Port_q.cfg" if ck.tier == "quick" else "Port_t.cfg"
    g, r = objcheck.graph_from_tlc(ck, ["tick"], "Port", cfg, workers=4 if ck.tier == "quick" else 8)
    ck.cov["exhaustive"] = True
    ck.cov["rule"] = ("TLC enumerates the complete state graph of Port.tla (incoming and outgoing capacity chosen independently, "
                      "all ten operations incl. refused send/deliver on a full buffer and retrieve/peek on an empty one) and checks "
                      "Bounded, FifoStep, NotifyRule and OldestOut on it; every transition is then executed on the real port: the "
                      "result, the sizes/heads/CanSend/CanDeliver after the step and the REQUIRED notifications (owner: recv on "
                      "empty->non-empty incoming, free on full->not-full outgoing; connection: available on full->not-full incoming, "
                      "send on empty->non-empty outgoing) are compared; extra notifications are tolerated, a missing one is a "
                      "mismatch; each history ends with a full drain of both buffers compared with the specification's contents. "
                      "Non-trivial = distinct history containing a required notification, a refusal or an empty retrieve/peek.")
    ck.assumptions += ["capacities >= 1; sequential histories from one goroutine, concurrent mode with two goroutines on one port",
                       "messages are messaging.MsgMeta values identified by ID; value 0 (nil message) is not in Vals",
                       "notifications are observed as counter deltas of the stub owner (NotifyRecv/NotifyPortFree) and the stub "
                       "connection (NotifySend/NotifyAvailable) during the operation that requires them"]

    def nontrivial(h):
        for s in h["steps"]:
            res = s["a"]["res"]
            if res["need"] or res["val"] == "refused":
                return True
            if s["a"]["op"] in ("retrievein", "retrieveout", "peekin", "peekout") and res["val"] == 0:
                return True
        return False

    walks, wl = (150, 60) if ck.tier == "quick" else (1500, 120)
    objcheck.replay_graph(ck, g, "ports", "port", walks=walks, walk_len=wl, keyfn=keyfn, nontrivial=nontrivial)
    concurrent_pairs(ck, g)


def concurrent_pairs(ck, g):
    """Two goroutines on one real port, decided by the same graph: operation A is parked inside the port at its own hook
    position while the sequence B runs; the outcome must be explained by some position of A within B in Port.tla."""
    keys = list(g.nodes.keys())
    idx = {k: i for i, k in enumerate(keys)}
    nodes = [g.nodes[k] for k in keys]
    edges = [{"s": idx[s], "a": a, "t": idx[t]} for (s, a, t) in g.edges]
    states = []
    for k in keys:
        if k not in g.parent:
            continue
        _, steps = g.path_to(k)
        states.append({"node": idx[k], "path": [{"op": a["op"], "arg": a["arg"]} for a, _ in steps]})
    O = lambda op, arg=0: {"op": op, "arg": arg}
    a_ops = [O("deliver", 2), O("send", 2), O("retrievein"), O("retrieveout")]
    b_seqs = [[O("deliver", 1)], [O("send", 1)], [O("retrievein")], [O("retrieveout")],
              [O("retrievein"), O("retrievein")], [O("retrievein"), O("numin")], [O("retrievein"), O("peekin")],
              [O("retrievein"), O("candeliver")], [O("retrieveout"), O("retrieveout")], [O("retrieveout"), O("numout")],
              [O("retrieveout"), O("peekout")], [O("retrieveout"), O("cansend")], [O("deliver", 1), O("numin")],
              [O("send", 1), O("numout")], [O("deliver", 1), O("retrievein")], [O("send", 1), O("retrieveout")]]
    out = core.harness(ck.binary("ports"), "portconc",
                       {"nodes": nodes, "edges": edges, "states": states, "a_ops": a_ops, "b_seqs": b_seqs,
                        "wait_us": 2000, "workers": 32, "max_mismatches": 200}, timeout=600)
    ck.cov["concurrent_cases"] = out["cases"]
    ck.cov["concurrent_a_parked_inside_port"] = out["a_parked_inside_port"]
    ck.cov["concurrent_b_blocked_until_release"] = out["b_blocked_until_release"]
    ck.cov["concurrent_b_completed_while_a_parked"] = out["b_completed_while_a_parked"]
    ck.cov["concurrent_cases_by_pair"] = out.get("cases_by_pair")
    ck.cov["traces_validated_against_impl"] += out["cases"]
    ck.cov["distinct_nontrivial"] += out["a_parked_inside_port"]
    for s in (out.get("samples") or [])[:2]:
        ck.sample({"concurrent": s}, cap=8)
    ms = out.get("mismatches") or []
    for m in ms:
        if m["kind"] == "setup":
            raise core.Broken("concurrent mode could not reach state %s: %s" % (json.dumps(m["state"]), json.dumps(m["observed"])))
        pair = m["a"]["op"] + "||" + ";".join(o["op"] for o in m["b"])
        cls = m["kind"] + (":" + ",".join(m.get("missing") or []) if m["kind"] == "missing_notification" else "")
        desc = ("concurrent %s from state %s: observed %s is explained by no sequential order of Port.tla%s" % (
            pair, json.dumps(m["state"]), json.dumps(m["observed"]),
            " with its required notifications (missing: %s)" % ",".join(m.get("missing") or []) if m["kind"] == "missing_notification" else ""))
        ck.report({"mode": "concurrent", "op": pair, "class": cls}, desc, {"driver": "portconc", "case": m})
    ck.note("concurrent pairs: %d cases (%d states x %d A x %d B), A parked inside the port in %d, B blocked until release in %d, "
            "B completed while A was parked in %d; %d mismatches" % (
                out["cases"], len(states), len(a_ops), len(b_seqs), out["a_parked_inside_port"], out["b_blocked_until_release"],
                out["b_completed_while_a_parked"], out.get("mismatch_count", len(ms))))
