"""C11 — ports are bounded FIFO channels with accurate capacity and notifications
(spec/tick/Port.tla, driver ports/port)."""
import json, os
from vlib import core, objcheck, tracecheck

LEVEL = "model_checking"
TECHNIQUE = ("TLA+ specification of one port (two bounded FIFO buffers, four required notifications) model-checked by "
             "TLC (bounds, FIFO steps, notification rule phrased on the state change); the complete bounded state graph "
             "is replayed transition by transition, plus seeded random walks, on the real messaging.NewPort with a "
             "counting stub owner and stub connection; concurrent mode: from every state, one operation is parked inside the port at "
             "its own hook position while a second goroutine runs one or two operations, and the outcome must be explained by some "
             "sequential order in the same graph (linearizability of pairs, required notifications contained in the observed ones); "
             "gated schedules: the first operation is also parked inside Meta() of the message it sends (the port validates the message "
             "through the messaging.Msg interface) and inside each of the four notification callbacks, the racing goroutine is classified "
             "as completed/blocked, and the recorded runs are judged a second time by TLC with the trace specification PortPairTrace.tla "
             "(some position of the first operation within the second goroutine's sequence must be a behaviour of Port.tla's Next with the "
             "recorded results, final contents and required notifications); free-running mode: owner and connection goroutines driven "
             "only by the four notifications move numbered messages through one port, a lost notification leaves the transfer stuck")
LEVEL_TEXT = ("exhaustive within bounds: every reachable state and transition of Port.tla for incoming/outgoing capacities "
              "1..2 (quick) / 1..3 (thorough, in != out included) and 2/3 message values is executed on the real port")
LEVEL_NOTE = ("capacity-0 ports are out of scope; concurrency is covered for two goroutines and the interleavings reachable by parking "
              "one operation at its hook position, at a Meta() call of its message (send) or inside its own notification callback "
              "(deliver/send/retrievein/retrieveout against 16 one- or two-operation sequences), plus unscheduled four-goroutine runs "
              "(also under the race detector in thorough), not for arbitrary schedules; a window between two statements of the port "
              "that contains no call into a harness object (message, hook, owner, connection) cannot be held open by a gate and is "
              "reached only by the free-running mode; the port exposes no content accessor, so "
              "contents are compared through sizes, heads and CanSend/CanDeliver after every step, every retrieve result, and "
              "a full drain at the end of each history")

QUERIES = ("cansend", "candeliver", "numin", "numout", "peekin", "peekout")


def keyfn(m):
    op = m.get("op") or {}
    want, got = m.get("want"), m.get("got")
    cls = m.get("kind")
    if isinstance(want, dict) and isinstance(got, dict) and "need" in want:
        if want.get("val") == got.get("val") and (want.get("need") or []) != (got.get("need") or []):
            cls = "missing_notification:" + ",".join(sorted(set(want.get("need") or []) - set(got.get("need") or [])))
        elif want.get("val") != got.get("val"):
            cls = "wrong_result"
    return {"op": op.get("op"), "class": cls}


def run(ck):
    cfg = "Port_q.cfg" if ck.tier == "quick" else "Port_t.cfg"
    g, r = objcheck.graph_from_tlc(ck, ["tick"], "Port", cfg, workers=4 if ck.tier == "quick" else 8)
    ck.cov["exhaustive"] = True
    ck.cov["rule"] = ("TLC enumerates the complete state graph of Port.tla (incoming and outgoing capacity chosen independently, "
                      "all ten operations incl. refused send/deliver on a full buffer and retrieve/peek on an empty one) and checks "
                      "Bounded, FifoStep, NotifyRule and OldestOut on it; every transition is then executed on the real port: the "
                      "result, the sizes/heads/CanSend/CanDeliver after the step and the REQUIRED notifications (owner: recv on "
                      "empty->non-empty incoming, free on full->not-full outgoing; connection: available on full->not-full incoming, "
                      "send on empty->non-empty outgoing) are compared; extra notifications are tolerated, a missing one is a "
                      "mismatch; each history ends with a full drain of both buffers compared with the specification's contents. "
                      "Non-trivial = distinct history containing a required notification, a refusal or an empty retrieve/peek.")
    ck.assumptions += ["capacities >= 1; sequential histories from one goroutine, concurrent mode with two goroutines on one port",
                       "messages are messaging.MsgMeta values identified by ID; value 0 (nil message) is not in Vals",
                       "notifications are observed as counter deltas of the stub owner (NotifyRecv/NotifyPortFree) and the stub "
                       "connection (NotifySend/NotifyAvailable) during the operation that requires them"]

    def nontrivial(h):
        for s in h["steps"]:
            res = s["a"]["res"]
            if res["need"] or res["val"] == "refused":
                return True
            if s["a"]["op"] in ("retrievein", "retrieveout", "peekin", "peekout") and res["val"] == 0:
                return True
        return False

    walks, wl = (150, 60) if ck.tier == "quick" else (1500, 120)
    objcheck.replay_graph(ck, g, "ports", "port", walks=walks, walk_len=wl, keyfn=keyfn, nontrivial=nontrivial)
    concurrent_pairs(ck, g)


def concurrent_pairs(ck, g):
    """Two goroutines on one real port, decided by the same graph: operation A is parked inside the port at its own hook
    position while the sequence B runs; the outcome must be explained by some position of A within B in Port.tla."""
    keys = list(g.nodes.keys())
    idx = {k: i for i, k in enumerate(keys)}
    nodes = [g.nodes[k] for k in keys]
    edges = [{"s": idx[s], "a": a, "t": idx[t]} for (s, a, t) in g.edges]
    states = []
    for k in keys:
        if k not in g.parent:
            continue
        _, steps = g.path_to(k)
        states.append({"node": idx[k], "path": [{"op": a["op"], "arg": a["arg"]} for a, _ in steps]})
    O = lambda op, arg=0, gate=None: dict({"op": op, "arg": arg}, **({"gate": gate} if gate else {}))
    a_ops = [O("deliver", 2), O("send", 2), O("retrievein"), O("retrieveout")]
    b_seqs = [[O("deliver", 1)], [O("send", 1)], [O("retrievein")], [O("retrieveout")],
              [O("retrievein"), O("retrievein")], [O("retrievein"), O("numin")], [O("retrievein"), O("peekin")],
              [O("retrievein"), O("candeliver")], [O("retrieveout"), O("retrieveout")], [O("retrieveout"), O("numout")],
              [O("retrieveout"), O("peekout")], [O("retrieveout"), O("cansend")], [O("deliver", 1), O("numin")],
              [O("send", 1), O("numout")], [O("deliver", 1), O("retrievein")], [O("send", 1), O("retrieveout")]]
    graph = {"nodes": nodes, "edges": edges, "states": states}
    out = core.harness(ck.binary("ports"), "portconc",
                       dict(graph, a_ops=a_ops, b_seqs=b_seqs, wait_us=2000, workers=32, max_mismatches=200), timeout=600)
    ck.cov["concurrent_cases"] = out["cases"]
    ck.cov["concurrent_a_parked_inside_port"] = out["a_parked_inside_port"]
    ck.cov["concurrent_b_blocked_until_release"] = out["b_blocked_until_release"]
    ck.cov["concurrent_b_completed_while_a_parked"] = out["b_completed_while_a_parked"]
    ck.cov["concurrent_cases_by_pair"] = out.get("cases_by_pair")
    ck.cov["traces_validated_against_impl"] += out["cases"]
    ck.cov["distinct_nontrivial"] += out["a_parked_inside_port"]
    for s in (out.get("samples") or [])[:2]:
        ck.sample({"concurrent": s}, cap=8)
    report_concurrent(ck, out, "portconc")
    ck.note("concurrent pairs: %d cases (%d states x %d A x %d B), A parked inside the port in %d, B blocked until release in %d, "
            "B completed while A was parked in %d; %d mismatches" % (
                out["cases"], len(states), len(a_ops), len(b_seqs), out["a_parked_inside_port"], out["b_blocked_until_release"],
                out["b_completed_while_a_parked"], out.get("mismatch_count", len(out.get("mismatches") or []))))
    gated_schedules(ck, graph, b_seqs, O)
    free_running(ck)


def report_concurrent(ck, out, driver):
    for m in out.get("mismatches") or []:
        if m["kind"] == "setup":
            raise core.Broken("concurrent mode could not reach state %s: %s" % (json.dumps(m["state"]), json.dumps(m["observed"])))
        gate = m["a"].get("gate") or "hook"
        pair = m["a"]["op"] + "||" + ";".join(o["op"] for o in m["b"])
        cls = m["kind"] + (":" + ",".join(m.get("missing") or []) if m["kind"] == "missing_notification" else "")
        desc = ("concurrent %s (first operation parked at its gate '%s') from state %s: observed %s is explained by no sequential "
                "order of Port.tla%s" % (
                    pair, gate, json.dumps(m["state"]), json.dumps(m["observed"]),
                    " with its required notifications (missing: %s)" % ",".join(m.get("missing") or [])
                    if m["kind"] == "missing_notification" else ""))
        key = {"mode": "concurrent", "op": pair, "class": cls}
        if gate != "hook":
            key["gate"] = gate
        ck.report(key, desc, {"driver": driver, "case": m})


# where each gate sits relative to the port's mutex in the pinned tree (documentation of the schedule space; the driver
# measures, per gate, how often the racing operation completed while A was parked and how often it had to wait)
GATE_SITE = {
    "send@meta": "Meta() of the message being sent, called by the port's validation before the capacity test and the push",
    "send@notify": "inside Connection.NotifySend, after the push",
    "deliver@notify": "inside Component.NotifyRecv, after the push",
    "retrievein@notify": "inside Connection.NotifyAvailable, after the pop",
    "retrieveout@notify": "inside Component.NotifyPortFree, after the pop",
}


def gated_schedules(ck, graph, b_seqs, O):
    """Two-goroutine schedules controlled by gates that are NOT the operation's own hook position: the message object
    (Send reads it through messaging.Msg.Meta) and the four notification callbacks (harness objects).  From every state of the
    graph (all occupancies: empty, one, cap-1, full, for every capacity pair) goroutine A starts one operation and parks at the
    gate; the controller starts the racing sequence on goroutine B, classifies it as completed / blocked (short timeout),
    releases A and waits for both.  Same oracle as concurrent_pairs: results, drained final contents and required
    notifications must be those of SOME sequential order of the operations in Port.tla's state graph."""
    metas = ["meta1", "meta4"] if ck.tier == "quick" else ["meta1", "meta2", "meta3", "meta4"]
    a_ops = [O("send", 2, m) for m in metas] + [O("send", 2, "notify"), O("deliver", 2, "notify"),
                                                O("retrievein", 0, "notify"), O("retrieveout", 0, "notify")]
    out = core.harness(ck.binary("ports"), "portconc",
                       dict(graph, a_ops=a_ops, b_seqs=b_seqs, wait_us=2000, workers=32, max_mismatches=200,
                            same_buffer_only=ck.tier != "quick", record=True,
                            record_every=1 if ck.tier == "quick" else 8), timeout=900)
    by_gate = out.get("by_gate") or {}
    ck.cov["gated_schedules"] = out["cases"]
    ck.cov["gated_a_parked_at_gate"] = out["a_parked_inside_port"]
    ck.cov["gated_b_blocked_until_release"] = out["b_blocked_until_release"]
    ck.cov["gated_b_completed_while_a_parked"] = out["b_completed_while_a_parked"]
    ck.cov["gated_by_gate"] = {k: dict(zip(("cases", "a_parked", "b_completed_while_a_parked", "b_blocked_until_release"), v))
                               for k, v in sorted(by_gate.items())}
    ck.cov["gated_gate_sites"] = GATE_SITE
    ck.cov["traces_validated_against_impl"] += out["cases"]
    ck.cov["distinct_nontrivial"] += out["a_parked_inside_port"]
    for s in (out.get("samples") or [])[:2]:
        ck.sample({"gated": s}, cap=10)
    if out["a_parked_inside_port"] == 0:
        raise core.Broken("gated schedules: no operation ever parked at a gate (the gates are dead)")
    for k in ("send@" + metas[0], "send@notify", "deliver@notify", "retrievein@notify", "retrieveout@notify"):
        if not (by_gate.get(k) or [0, 0])[1]:
            raise core.Broken("gated schedules: gate %s was never reached" % k)
    report_concurrent(ck, out, "portconc")
    tlc_judge(ck, out)
    ck.note("gated schedules: %d (%d states x %d gated A x racing B%s), A parked at its gate in %d, B blocked until release in %d, "
            "B completed while A was parked in %d; %d mismatches; per gate (cases/parked/B-inside/B-blocked): %s" % (
                out["cases"], len(graph["states"]), len(a_ops), " on the same buffer" if ck.tier != "quick" else "",
                out["a_parked_inside_port"], out["b_blocked_until_release"], out["b_completed_while_a_parked"],
                out.get("mismatch_count", 0),
                " ".join("%s=%s" % (k, "/".join(map(str, v))) for k, v in sorted(by_gate.items()))))


def tlc_judge(ck, out):
    """The gated runs in which A was parked, as records of spec/tick/PortPairTrace.tla: TLC accepts a record iff some
    position of A within B, executed through Port.tla's own Next, returns the recorded values, ends in the recorded contents
    and requires only notifications that were seen.  A rejected record is a violation; the run continues behind it."""
    recs = sorted(out.get("records") or [], key=lambda r: r["id"])
    go_rejected = {m.get("case_id") for m in out.get("mismatches") or []}
    if not recs:
        raise core.Broken("gated schedules: the driver returned no records for TLC")
    judged, rejected, runs = 0, [], 0
    rest = recs
    while rest and runs < 4:
        runs += 1
        path = os.path.join(core.scratch("c11trace-"), "pairs.ndjson")
        with open(path, "w") as f:
            for r in rest:
                f.write(json.dumps({k: r[k] for k in ("init", "a", "b", "final", "seen")}) + "\n")
        v = tracecheck.validate(ck, ["tick", "common"], "PortPairTrace", "PortPairTrace.cfg", path, timeout=600)
        if v.accepted:
            judged += len(rest)
            break
        if v.matched is None:
            raise core.Broken("PortPairTrace: the model left the statement while judging (invariant %s)" % v.invariant)
        bad = rest[v.matched]
        judged += v.matched + 1
        rejected.append(bad)
        rest = rest[v.matched + 1:]
    ck.cov["gated_records_judged_by_tlc"] = judged
    ck.cov["gated_records_rejected_by_tlc"] = len(rejected)
    ck.cov["gated_tlc_runs"] = runs
    for bad in rejected:
        if bad["id"] in go_rejected:
            continue  # already reported by the graph comparison, with the sequential orders attached
        pair = bad["a"]["op"] + "||" + ";".join(o["op"] for o in bad["b"])
        ck.report({"mode": "concurrent", "op": pair, "class": "rejected_by_trace_spec", "gate": bad["gate"].split("@")[1]},
                  "gated run %s from state %s: TLC finds no position of the first operation within the second goroutine's sequence for "
                  "which Port.tla returns %s / %s, ends in %s and requires only the notifications seen %s" % (
                      bad["gate"] + "||" + ";".join(o["op"] for o in bad["b"]), json.dumps(bad["init"]), json.dumps(bad["a"]),
                      json.dumps(bad["b"]), json.dumps(bad["final"]), json.dumps(bad["seen"])),
                  {"driver": "portconc", "spec": "spec/tick/PortPairTrace.tla", "record": bad})
    missed = [i for i in go_rejected if i in {r["id"] for r in recs[:judged]} and i not in {b["id"] for b in rejected}]
    if missed and not rest:
        raise core.Broken("the graph comparison rejected cases %s that TLC accepted: the two judges disagree" % missed[:5])
    ck.note("TLC judged %d gated records with PortPairTrace (%d rejected, %d TLC runs)" % (judged, len(rejected), runs))


def free_running(ck):
    """No gates, four goroutines hammering one real port (owner sending / connection draining the outgoing
    buffer, connection delivering / owner draining the incoming buffer), each party driven only by the four notifications of
    the statement; a lost notification leaves the transfer stuck.  Quick: a short run on the plain build; thorough: plain and race-detector builds."""
    caps = [[i, o] for i in (1, 2, 3) for o in (1, 2, 3)]
    total = {"rounds": 0, "messages": 0, "mismatches": 0}
    quick = ck.tier == "quick"
    for race in ((False,) if quick else (False, True)):
        out = core.harness(ck.binary("ports", race=race), "portstress",
                           {"caps": caps, "msgs": 200 if quick else (150 if race else 400), "rounds": 3 if quick else 400,
                            "seed": ck.seed, "yield_permille": 200, "budget_ms": 2000 if quick else 12000, "workers": 4,
                            "max_mismatches": 3 if quick else 10}, timeout=300)
        tag = "free_running_race" if race else "free_running"
        ck.cov[tag] = {k: out[k] for k in ("rounds", "messages", "notifications", "producer_waited_for_free",
                                             "producer_waited_for_available", "consumer_idled_until_send",
                                             "consumer_idled_until_recv", "stopped_by_budget")}
        total["rounds"] += out["rounds"]
        total["messages"] += out["messages"]
        total["mismatches"] += out.get("mismatch_count", 0)
        ck.cov["traces_validated_against_impl"] += out["rounds"]
        if out["rounds"] == 0 or out["producer_waited_for_free"] == 0 or out["consumer_idled_until_send"] < 2 * out["rounds"]:
            raise core.Broken("free-running mode exercised no edge transitions: %s" % json.dumps(ck.cov[tag]))
        for m in out.get("mismatches") or []:
            cls = m["kind"] + (":" + ",".join(m.get("missing") or []) if m.get("missing") else "")
            ck.report({"mode": "free_running", "op": "send||retrieveout||deliver||retrievein", "class": cls},
                      "free-running owner and connection on one port with capacities in=%d out=%d%s: %s %s" % (
                          m["caps"][0], m["caps"][1], " (race-detector build)" if race else "", cls, json.dumps(m["observed"])),
                      {"driver": "portstress", "race": race, "case": m})
    ck.note("free-running: %d rounds, %d messages through real ports (%s), %d mismatches" % (
        total["rounds"], total["messages"], "plain build" if quick else "plain and race-detector builds", total["mismatches"]))
