"""C11 — ports are bounded FIFO channels with accurate capacity and notifications
(spec/tick/Port.tla, driver ports/port)."""
from vlib import objcheck

LEVEL = "model_checking"
TECHNIQUE = ("TLA+ specification of one port (two bounded FIFO buffers, four required notifications) model-checked by "
             "TLC (bounds, FIFO steps, notification rule phrased on the state change); the complete bounded state graph "
             "is replayed transition by transition, plus seeded random walks, on the real messaging.NewPort with a "
             "counting stub owner and stub connection")
LEVEL_TEXT = ("exhaustive within bounds: every reachable state and transition of Port.tla for incoming/outgoing capacities "
              "1..2 (quick) / 1..3 (thorough, in != out included) and 2/3 message values is executed on the real port")
LEVEL_NOTE = ("capacity-0 ports and concurrent use of one port are out of scope; the port exposes no content accessor, so "
              "contents are compared through sizes, heads and CanSend/CanDeliver after every step, every retrieve result, and "
              "a full drain at the end of each history")

QUERIES = ("cansend", "candeliver", "numin", "numout", "peekin", "peekout")


def keyfn(m):
    op = m.get("op") or {}
    want, got = m.get("want"), m.get("got")
    cls = m.get("kind")
    if isinstance(want, dict) and isinstance(got, dict) and "need" in want:
        if want.get("val") == got.get("val") and (want.get("need") or []) != (got.get("need") or []):
            cls = "missing_notification:" + ",".join(sorted(set(want.get("need") or []) - set(got.get("need") or [])))
        elif want.get("val") != got.get("val"):
            cls = "wrong_result"
    return {"op": op.get("op"), "class": cls}


def run(ck):
    cfg = "Port_q.cfg" if ck.tier == "quick" else "Port_t.cfg"
    g, r = objcheck.graph_from_tlc(ck, ["tick"], "Port", cfg, workers=4 if ck.tier == "quick" else 8)
    ck.cov["exhaustive"] = True
    ck.cov["rule"] = ("TLC enumerates the complete state graph of Port.tla (incoming and outgoing capacity chosen independently, "
                      "all ten operations incl. refused send/deliver on a full buffer and retrieve/peek on an empty one) and checks "
                      "Bounded, FifoStep, NotifyRule and OldestOut on it; every transition is then executed on the real port: the "
                      "result, the sizes/heads/CanSend/CanDeliver after the step and the REQUIRED notifications (owner: recv on "
                      "empty->non-empty incoming, free on full->not-full outgoing; connection: available on full->not-full incoming, "
                      "send on empty->non-empty outgoing) are compared; extra notifications are tolerated, a missing one is a "
                      "mismatch; each history ends with a full drain of both buffers compared with the specification's contents. "
                      "Non-trivial = distinct history containing a required notification, a refusal or an empty retrieve/peek.")
    ck.assumptions += ["one port used from one goroutine; capacities >= 1",
                       "messages are messaging.MsgMeta values identified by ID; value 0 (nil message) is not in Vals",
                       "notifications are observed as counter deltas of the stub owner (NotifyRecv/NotifyPortFree) and the stub "
                       "connection (NotifySend/NotifyAvailable) during the operation that requires them"]

    def nontrivial(h):
        for s in h["steps"]:
            res = s["a"]["res"]
            if res["need"] or res["val"] == "refused":
                return True
            if s["a"]["op"] in ("retrievein", "retrieveout", "peekin", "peekout") and res["val"] == 0:
                return True
        return False

    walks, wl = (150, 60) if ck.tier == "quick" else (1500, 120)
    objcheck.replay_graph(ck, g, "ports", "port", walks=walks, walk_len=wl, keyfn=keyfn, nontrivial=nontrivial)
