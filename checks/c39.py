"""C39 — source tools only serve the recorded source, within bounds (spec/daisen/SourcePath.tla)."""
import base64, json, re
from vlib import core, daisen

LEVEL = "model_checking"
TECHNIQUE = ("TLA+ specification of where a slash-separated path leads (stack walk, cross-checked by TLC against an independent "
             "counting definition and normalisation lemmas on every path of the grammar), of the verdict the statement demands for "
             "every request path and of the keys under which every archive entry name may be served; TLC enumerates both grammars; "
             "request paths are sent to the real code_read / code_ls / code_search tool closures and the /api/code handlers of a real "
             "replay server over an archive written by the real writer, and every enumerated entry name is put into an archive "
             "(real writer, real recorder, real reader) whose content is then searched for through the tools")
LEVEL_TEXT = ("Exhaustive over the enumerated grammar: request paths and entry names = optional absolute prefix + up to MaxLen "
              "segments over {r, a, b, '', '.', '..'} (and up to MaxLen-1 over three more odd names), entry sizes small / at the cap / "
              "over the cap; hand-built hostile archives (gzip bomb, truncated stream, links, devices, garbage rows, hostile roots) on top.")
LEVEL_NOTE = ("MaxLen 3 (quick) / 4 (thorough). Every line of every archive entry carries the entry's number, so every line a tool "
              "returns is attributed to an entry; chrome (headers, footers, echoed request paths) is not content. Memory is measured as "
              "bytes allocated (runtime.MemStats.TotalAlloc) while the source is opened. Caps are the documented ones (8 MiB per "
              "recorded file). Regular expressions of code_search are a fixed handful, not enumerated.")

MIB = 1 << 20
FILE_CAP = 8 * MIB
GOOD = [("a", 1), ("b/a", 2), ("b/b", 3), ("C:", 4)]      # root r
GOOD_S = [("a", 5)]                                        # root s
KEY_OF = {1: ["r", "a"], 2: ["r", "b", "a"], 3: ["r", "b", "b"], 4: ["r", "C:"], 5: ["s", "a"]}
HOSTILE = 100


def text(abs_, segs):
    return ("/" if abs_ else "") + "/".join(segs)


def walk(segs):
    """Python copy of Walk, used only for the hand-built scenarios (the enumerated ones carry TLC's answer)."""
    stack, up = [], 0
    for s in segs:
        if s in ("", "."):
            continue
        if s == "..":
            if stack:
                stack.pop()
            else:
                up += 1
        else:
            stack.append(s)
    return up, stack


def children(keys, k):
    """names directly below directory k in the tree made of the file keys"""
    out = set()
    for f in keys:
        if len(f) > len(k) and f[:len(k)] == k:
            out.add(f[len(k)])
    return out


def parse_ls(t):
    """names listed by code_ls, or None if the answer is not a listing"""
    lines = t.split("\n")
    if not lines:
        return None
    if re.search(r" — \d+ dir\(s\), \d+ file\(s\):$", lines[0]) or lines[0].startswith("Recorded module root(s)"):
        names = []
        for l in lines[1:]:
            if not l or l.startswith("[truncated"):
                continue
            names.append(l.split("\t")[0].rstrip("/"))
        return names
    return None


def parse_read(t):
    """[(line number, text)] returned by code_read, or None when the answer is not a file window"""
    lines = t.split("\n")
    if not re.search(r" \(lines \d+-\d+ of \d+\):$", lines[0] if lines else ""):
        return None
    rows = []
    for l in lines[1:]:
        m = re.match(r"^\s*(\d+)\t(.*)$", l)
        if m:
            rows.append((int(m.group(1)), m.group(2)))
    return rows


def run(ck):
    binary = daisen.binary(ck)
    quick = ck.tier == "quick"
    r = ck.run_tlc(["daisen"], "SourcePath", "SourcePath_q.cfg" if quick else "SourcePath_t.cfg", workers=8, timeout=560)
    if not r.ok:
        raise core.Broken("SourcePath.tla fails its own lemmas: %s %s" % (r.violated, r.error))
    reqs, entries = {}, {}
    for c in r.tagged["CASE"]:
        c["segs"] = c.get("segs") or []
        c["key"] = c.get("key") or []
        (reqs if c["kind"] == "req" else entries)[core.canon(c)] = c
    # two paths with the same text (e.g. <<>> and <<"">>) are one request: keep one per text (their verdicts agree by construction)
    by_text = {}
    for k in sorted(reqs):
        c = reqs[k]
        t = text(c["abs"], c["segs"])
        if t in by_text and (by_text[t]["verdict"], by_text[t]["key"]) != (c["verdict"], c["key"]):
            raise core.Broken("the specification gives two verdicts to the request text %r" % t)
        by_text[t] = c
    reqs = [by_text[t] for t in sorted(by_text)]
    ent_by = {}
    for k in sorted(entries):
        c = entries[k]
        ent_by[(text(c["abs"], c["segs"]), c["size"])] = c
    entries = [ent_by[k] for k in sorted(ent_by)]
    ck.cov["request_paths"] = len(reqs)
    ck.cov["entry_names"] = len(entries)
    if len(reqs) < 300 or len(entries) < 300:
        raise core.Broken("too few cases: %d requests, %d entries" % (len(reqs), len(entries)))

    def good_rows(skip=()):
        return [{"root": "r", "entries": [{"name": n, "eid": e} for n, e in GOOD if n not in skip]},
                {"root": "s", "entries": [{"name": n, "eid": e} for n, e in GOOD_S]}]

    scenarios = []
    # ---- part A: every request path against the well-formed archive, through a real server
    areq = []
    for c in reqs:
        t = text(c["abs"], c["segs"])
        for tool in ("code_read", "code_ls", "http_read", "http_ls"):
            areq.append({"tool": tool, "path": t, "case": c})
    searches = [("MK", ""), ("MK1x", "r/"), ("payload$", "s/"), ("MK\\d+x2 ", ""), ("x", "../"), (".", "/"), ("^MK4", "C:")]
    for q, f in searches:
        areq.append({"tool": "code_search", "query": q, "filter": f, "case": None})
    for st, en in ((2, 3), (3, 0), (0, 2), (5, 9), (-1, -5), (2, 1)):
        areq.append({"tool": "code_read", "path": "r/a", "start": st, "end": en, "case": by_text["r/a"]})
    scenarios.append({"id": 0, "rows": good_rows(), "via": "server", "full": True, "common": False,
                      "requests": [{k: v for k, v in q.items() if k != "case"} for q in areq], "part": "A"})

    # ---- part B: every entry name in an archive of root r
    common = [{"tool": "code_search", "query": "MK%dx" % HOSTILE, "filter": ""},
              {"tool": "code_search", "query": "MK", "filter": ""},
              {"tool": "code_ls", "path": ""}, {"tool": "code_ls", "path": "r"}, {"tool": "code_ls", "path": "s"}, {"tool": "code_ls", "path": "r/b"}]
    cand = []
    names = ["r", "s", "a", "b"]
    for a in names:
        cand.append([a])
        for b in names:
            cand.append([a, b])
            for c_ in names:
                cand.append([a, b, c_])
    for k in cand:
        common.append({"tool": "code_read", "path": "/".join(k)})
    sid = 0
    for c in entries:
        sid += 1
        nm = text(c["abs"], c["segs"])
        size = {"small": 0, "at_cap": FILE_CAP, "over_cap": FILE_CAP + 1}[c["size"]]
        rows = good_rows(skip=(nm,))
        rows[0]["entries"].append({"name": nm, "eid": HOSTILE, "size": size})
        up, joined = walk(["r"] + c["segs"])
        extra = []
        for k in (["r"] + c["key"], c["key"], joined, ["r"] + [s for s in c["segs"] if s]):
            p = "/".join(k)
            if p and {"tool": "code_read", "path": p} not in extra:
                extra.append({"tool": "code_read", "path": p})
        via = "server" if sid % 9 == 0 else "open"
        if via == "server":
            extra += [{"tool": "http_read", "path": q["path"]} for q in list(extra)]
        scenarios.append({"id": sid, "rows": rows, "via": via, "common": True, "full": False, "requests": extra, "part": "B", "entry": c})

    # ---- part C: hand-built hostile archives
    bomb = (128 if quick else 1024) * MIB
    hand = [
        ("bomb", [{"root": "r", "hand": True, "entries": [{"name": "a", "eid": 1}, {"name": "big", "eid": HOSTILE, "declared": bomb}]}], set()),
        ("bomb_first", [{"root": "r", "hand": True, "entries": [{"name": "big", "eid": HOSTILE, "declared": bomb}, {"name": "a", "eid": 1}]}], set()),
        ("truncated", [{"root": "r", "hand": True, "entries": [{"name": "a", "eid": 1}, {"name": "cut", "eid": HOSTILE, "declared": 1 << 30, "truncate": True}]}], set()),
        ("symlink", [{"root": "r", "hand": True, "entries": [{"name": "a", "eid": 1}, {"name": "ln", "eid": HOSTILE, "type": "symlink", "linkname": "/etc/passwd"},
                                                             {"name": "ln2", "eid": HOSTILE, "type": "symlink", "linkname": "../../outside/cwd/a"}]}], set()),
        ("hardlink", [{"root": "r", "hand": True, "entries": [{"name": "a", "eid": 1}, {"name": "hl", "eid": HOSTILE, "type": "link", "linkname": "a"},
                                                              {"name": "hl2", "eid": HOSTILE, "type": "link", "linkname": "/etc/hostname"}]}], set()),
        ("fifo_dir", [{"root": "r", "hand": True, "entries": [{"name": "d", "eid": HOSTILE, "type": "dir"}, {"name": "f", "eid": HOSTILE, "type": "fifo"}, {"name": "a", "eid": 1}]}], set()),
        ("notgzip", [{"root": "r", "garbage": "notgzip", "entries": []}] + good_rows()[1:], set()),
        ("notbase64", [{"root": "r", "garbage": "notbase64", "entries": []}] + good_rows()[1:], set()),
        ("emptyrow", [{"root": "r", "garbage": "empty", "entries": []}] + good_rows()[1:], set()),
        ("longname", [{"root": "r", "hand": True, "entries": [{"name": "/".join(["d%02d" % i for i in range(60)]) + "/../" * 61 + "s/a", "eid": HOSTILE}, {"name": "a", "eid": 1}]}] + good_rows()[1:], set()),
    ]
    # hostile roots: the row's root is itself a path
    for rt in ("", ".", "..", "../r", "/r", "r/../s", "r//b", "/", "r/..", "./r", "r/", "../../outside/cwd", "s"):
        hand.append(("root:" + rt, [{"root": rt, "entries": [{"name": "a", "eid": HOSTILE}]}] + good_rows()[1:], None))
    if not quick:
        hand.append(("total_cap", [{"root": "r", "entries": [{"name": "f%02d" % i, "eid": HOSTILE, "size": FILE_CAP} for i in range(13)]}], set()))
    for label, rows, _ in hand:
        sid += 1
        extra = []
        if label.startswith("root:"):
            rt = label[5:]
            up, k = walk(rt.split("/") + ["a"])
            for p in {"/".join(k), "a", "r/a", "s/a", "outside/cwd/a", "b/a"}:
                if p:
                    extra.append({"tool": "code_read", "path": p})
        scenarios.append({"id": sid, "rows": rows, "via": "server" if label in ("bomb", "notgzip", "symlink", "root:../r") else "open",
                          "common": True, "full": False, "requests": extra, "part": "C", "label": label})

    # ---- part D: writer determinism and read-back
    rts = []
    rng = ck.rng
    pool = ["main.go", "go.mod", "pkg/x.go", "pkg/x_test.go", "pkg/sub/deep/y.go", "vendor/v/v.go", "testdata/t.go", "README.md", ".git/config",
            "dist/out.go", "node_modules/m/index.go", "cmd/ü/ñ.go", "a b/c d.go", "pkg/.hidden.go", "z/go.mod", ".claude/w/x.go", "pkg/data.json"]
    for i in range(12 if quick else 80):
        files = {}
        for n in rng.sample(pool, rng.randint(1, len(pool))):
            kind = rng.choice(["text", "empty", "binary", "big"])
            data = {"text": ("package p // %d\n" % rng.randint(0, 1 << 30)).encode() * rng.randint(1, 40), "empty": b"",
                    "binary": bytes(rng.getrandbits(8) for _ in range(rng.randint(1, 600))),
                    "big": (b"%d\n" % rng.randint(0, 9)) * rng.randint(1000, 200000)}[kind]
            files[n] = base64.b64encode(data).decode()
        rts.append({"id": i, "files": files, "tree": True, "writes": 4, "kind": "random"})
    # near-ties: file sets on which an ordering that is not a total order on byte strings (case folding, Unicode normalisation,
    # separator-insensitive or length-only comparison) leaves the entry order to chance. Archived many times, in two processes.
    e_nfc, e_nfd = "caf\u00e9.go", "cafe\u0301.go"
    near = [
        ("case_fold", ["core/parser.go", "core/Parser.go"], True),
        ("case_fold_dirs", ["Core/parser.go", "core/parser.go", "CORE/parser.go", "core/PARSER.go", "go.mod"], True),
        ("case_fold_many", ["pkg/%s.go" % n for n in ("abc", "Abc", "aBc", "abC", "ABc", "AbC", "aBC", "ABC")], True),
        ("unicode_normalisation", ["pkg/" + e_nfc, "pkg/" + e_nfd, "pkg/cafe.go"], True),
        ("unicode_case", ["pkg/\u00e4.go", "pkg/\u00c4.go", "pkg/\u1e9e.go", "pkg/\u00df.go", "pkg/ss.go", "pkg/SS.go"], True),
        ("prefix", ["a", "a/b", "a/b/c", "a.go", "a/b.go"], False),
        ("dash_vs_slash", ["a-b.go", "a/b.go", "a.b.go", "a b.go", "a_b.go", "a+b.go"], True),
        ("same_length", ["ab.go", "ba.go", "aa.go", "bb.go", "Ab.go", "aB.go"], True),
        ("trailing", ["x.go", "x.go ", "x.go.", "x.GO", "X.go"], False),
        ("kelvin_and_dotless", ["k.go", "K.go", "\u212a.go", "i.go", "I.go", "\u0131.go", "\u0130.go"], True),
    ]
    nid = 1000
    for label, names_, tree in near:
        for rep_ in range(1 if quick else 3):
            files = {n: base64.b64encode(("// %s #%d\npackage p\n" % (label, k)).encode()).decode() for k, n in enumerate(names_)}
            rts.append({"id": nid, "files": files, "tree": tree, "writes": 32 if quick else 96, "kind": label})
            nid += 1

    def strip(s):
        return {k: v for k, v in s.items() if k in ("id", "rows", "via", "requests", "common", "full")}
    results, rtres, calls = {}, [], 0
    batch = 400
    import os
    progress_file = os.path.join(core.scratch("c39-"), "progress")

    def play(scs, with_rts):
        return core.harness(binary, "sourcepath", {"scenarios": [strip(s) for s in scs], "common": common, "progress_file": progress_file,
                                                   "roundtrips": rts if with_rts else []}, timeout=1500)

    for i in range(0, len(scenarios), batch):
        chunk = scenarios[i:i + batch]
        crashes = 0
        while True:
            try:
                o = play(chunk, i == 0)
                break
            except core.Crashed as e:
                # the whole driver process died (stack overflow, out of memory: nothing a recover() can catch). The driver leaves
                # the scenario and the stage it was in; it is a verdict when real code was running (opening the source, or a
                # tool call), and the check's own failure when the driver was still building the archive.
                try:
                    sid_s, stage = open(progress_file).read().split()
                except (OSError, ValueError):
                    raise e
                sc = next((x for x in chunk if x["id"] == int(sid_s)), None)
                if sc is None or stage not in ("open", "query"):
                    raise
                crashes += 1
                first = next((l for l in e.stderr.splitlines() if l.startswith(("fatal error:", "panic:", "runtime: goroutine stack exceeds"))), "the process died")
                ck.report({"prop": "Bounded", "what": "process_crash", "part": sc["part"], "stage": stage,
                           "class": (sc.get("entry") or {}).get("class", sc.get("label", ""))},
                          "%s the source of scenario %s killed the process (%s)" % ("opening" if stage == "open" else "querying", sc.get("label") or sc.get("entry"), first),
                          {"driver": "sourcepath", "scenario": strip(sc), "stage": stage})
                chunk = [x for x in chunk if x is not sc]
                if crashes > 12:
                    chunk = []      # enough evidence; the remaining archives of this batch are not played
                if not chunk:
                    o = {"results": [], "roundtrips": [], "calls": 0}
                    break
        for res in o["results"]:
            results[res["id"]] = res
        rtres += o.get("roundtrips") or []
        calls += o["calls"]

    ck.cov["rule"] = ("(A) every request path of the grammar goes to code_read, code_ls, /api/code/read and /api/code/ls of a real replay server over a "
                      "well-formed two-root archive: a path that escapes must be refused, every returned line must be the numbered line of the file "
                      "the path leads to, every listed name a child of the directory it leads to; the recorded keys themselves must be served. "
                      "(B) every entry name of the grammar (x size class) is written into root r's archive: its content may only ever be returned "
                      "under r/<where the name leads> and never when the name climbs out of the root or the entry is over the cap; searched for "
                      "with code_search over the whole tree and read at every candidate path. (C) hand-built hostile archives. (D) WriteArchive / "
                      "ArchiveDir / ArchiveFS of random and of near-tie file sets (case-fold-equal paths, Unicode normalisation variants, prefixes, "
                      "separator look-alikes) archived 32+ times from differently filled maps in two processes: all bytes equal; ReadArchive returns the same files. Non-trivial = request that is not a canonical "
                      "recorded key, or entry that is not a plain good name.")
    ck.assumptions += ["archive alphabet: roots r and s; names a, b, 'C:', '...', 'a\\b'; every line of every entry is 'MK<entry>x<line> payload'",
                       "documented per-file cap 8 MiB (sourcefs.maxArchiveFileBytes); 'oversized' also means a declared %d MiB entry of zeros" % (bomb // MIB),
                       "an absolute path that names the root itself ('/', '/.') may be refused or answered with the list of recorded roots",
                       "in an archive with a hostile entry the good files may become unavailable (the statement allows rejecting the archive)"]

    nontriv = 0
    # ---------------------------------------------------------------- judge A
    resA = results[0]
    if resA.get("panic") or resA.get("open_err"):
        raise core.Broken("well-formed archive could not be served: %s %s" % (resA.get("panic"), resA.get("open_err")))
    all_keys = list(KEY_OF.values())
    eid_at = {tuple(v): k for k, v in KEY_OF.items()}
    for q, a in zip(areq, resA["answers"]):
        c = q["case"]
        t = a.get("text", "")
        marks = a.get("marks") or []
        if q["tool"] == "code_search":
            judge_search(ck, q, a, {e: KEY_OF[e] for e in KEY_OF}, "A")
            continue
        canonical = (not c["abs"]) and c["segs"] == c["key"] and len(c["segs"]) > 0
        if not canonical:
            nontriv += 1
        v, k = c["verdict"], c["key"]
        root_free = c["abs"] and not k     # '/' and friends
        allowed = {eid_at[tuple(k)]} if v == "file" else set()

        def rep(prop, what, desc):
            ck.report({"prop": prop, "what": what, "tool": q["tool"], "verdict": v, "part": "A"},
                      "%s(%r) %s — expected %s at key %s; answer: %s %s" % (q["tool"], q["path"], desc, v, "/".join(k), a.get("err", ""), t[:300]),
                      {"driver": "sourcepath", "scenario": strip(scenarios[0]) | {"requests": [{x: y for x, y in q.items() if x != "case"}]}, "answer": a})
        if a.get("err", "").startswith("panic"):
            rep("NoPanic", "panic", "panicked")
        wrong = [m for m in marks if m[0] not in allowed]
        if wrong:
            rep("OnlyRecorded" if v != "refuse" else "RefuseEscape", "foreign_content", "returned lines of entries %s" % sorted({m[0] for m in wrong}))
        if q["tool"] == "code_read":
            rows = parse_read(t)
            if rows is not None:
                if v != "file":
                    rep("RefuseEscape" if v == "refuse" else "OnlyRecorded", "served_non_file", "returned a file window")
                else:
                    e = eid_at[tuple(k)]
                    for n, line in rows:
                        if line != "MK%dx%d payload" % (e, n):
                            rep("OnlyRecorded", "wrong_line", "line %d is %r" % (n, line))
                            break
            elif canonical and v == "file" and not q.get("start") and not q.get("end"):
                rep("Served", "recorded_key_refused", "did not return the recorded file")
            if canonical and v == "file" and rows is not None and not q.get("start") and not q.get("end") and [n for n, _ in rows] != [1, 2, 3]:
                rep("Served", "incomplete", "returned lines %s of a 3-line file" % [n for n, _ in rows])
        elif q["tool"] == "code_ls":
            ls = parse_ls(t)
            if ls is not None:
                if v != "dir" and not root_free:
                    rep("RefuseEscape" if v == "refuse" else "OnlyRecorded", "listed_non_dir", "returned a listing %s" % ls)
                else:
                    want = children(all_keys, k)
                    if not set(ls) <= want:
                        rep("OnlyRecorded", "foreign_names", "listed %s, children are %s" % (ls, sorted(want)))
                    elif canonical and set(ls) != want:
                        rep("Served", "incomplete_listing", "listed %s, children are %s" % (ls, sorted(want)))
            elif canonical and v == "dir":
                rep("Served", "recorded_dir_refused", "did not list the recorded directory")
        elif q["tool"] == "http_read":
            if a["status"] == 200:
                if v != "file":
                    rep("RefuseEscape" if v == "refuse" else "OnlyRecorded", "served_non_file", "answered 200")
                else:
                    e = eid_at[tuple(k)]
                    try:
                        body = json.loads(t)
                    except ValueError:
                        body = {}
                    if body.get("content") != "".join("MK%dx%d payload\n" % (e, n) for n in (1, 2, 3)):
                        rep("OnlyRecorded", "wrong_content", "content differs from the recorded file")
            elif canonical and v == "file":
                rep("Served", "recorded_key_refused", "answered %s" % a["status"])
        elif q["tool"] == "http_ls":
            if a["status"] == 200:
                try:
                    body = json.loads(t)
                except ValueError:
                    body = {}
                got = [e["name"] for e in body.get("entries") or []]
                if got and v != "dir" and not root_free:
                    rep("RefuseEscape" if v == "refuse" else "OnlyRecorded", "listed_non_dir", "returned entries %s" % got)
                elif got and not set(got) <= children(all_keys, k):
                    rep("OnlyRecorded", "foreign_names", "listed %s" % got)
                elif canonical and v == "dir" and set(got) != children(all_keys, k):
                    rep("Served", "incomplete_listing", "listed %s" % got)
            elif canonical and v == "dir":
                rep("Served", "recorded_dir_refused", "answered %s" % a["status"])
    for q, a in list(zip(areq, resA["answers"]))[:3]:
        ck.sample({"tool": q["tool"], "path": q.get("path"), "verdict": q["case"]["verdict"] if q["case"] else None, "answer": a.get("text", "")[:120], "status": a.get("status")})

    # ---------------------------------------------------------------- judge B and C
    writer_refused = 0
    classes = {}
    for sc in scenarios[1:]:
        res = results.get(sc["id"])
        part = sc["part"]
        if res is None:
            continue        # not played: the driver process died on it (reported above) or on too many others of its batch
        if part == "B":
            c = sc["entry"]
            nm = text(c["abs"], c["segs"])
            classes[c["class"]] = classes.get(c["class"], 0) + 1
            if c["class"] != "good" or c["size"] != "small":
                nontriv += 1
            allowed_h = ["r"] + c["key"] if c["may"] else None
            label = "entry %r (%s, %s)" % (nm, c["class"], c["size"])
            keyf = {"part": "B", "class": c["class"], "size": c["size"], "abs": c["abs"],
                    "reenters_root": c["class"] == "escaping" and walk(["r"] + c["segs"])[1][:1] == ["r"] and walk(["r"] + c["segs"])[0] == 0}
        else:
            nontriv += 1
            label = "hand-built archive %s" % sc["label"]
            keyf = {"part": "C", "label": sc["label"].split(":")[0], "root": sc["label"][5:] if sc["label"].startswith("root:") else ""}
            allowed_h = None
            if sc["label"].startswith("root:"):
                rt = sc["label"][5:]
                rabs = rt.startswith("/")
                up, k = walk([s for s in rt.split("/")] + ["a"])
                if not rabs and up == 0:
                    allowed_h = k
                classes["root"] = classes.get("root", 0) + 1
        if res.get("panic"):
            if part == "B" and "real writer refused" in res["panic"]:
                writer_refused += 1
                continue
            ck.report(dict(keyf, prop="NoPanic", what="panic"), "%s: panic %s" % (label, res["panic"]), replay_sc(sc, res))
            continue
        reqlist = sc["requests"] + common
        where = {}   # eid -> set of keys where its lines were returned
        for q, a in zip(reqlist, res["answers"]):
            if a.get("err", "").startswith("panic"):
                ck.report(dict(keyf, prop="NoPanic", what="tool_panic", tool=q["tool"]), "%s: %s(%r) panicked: %s" % (label, q["tool"], q.get("path"), a["err"]), replay_sc(sc, res, q, a))
            marks = a.get("marks") or []
            if not marks:
                continue
            if q["tool"] == "code_search":
                for line in a.get("text", "").split("\n"):
                    m = re.match(r"^(.*?):(\d+): MK(\d+)x(\d+) payload", line)
                    if m:
                        where.setdefault(int(m.group(3)), set()).add(m.group(1))
                        if int(m.group(2)) != int(m.group(4)):
                            ck.report(dict(keyf, prop="OnlyRecorded", what="search_line_number", tool="code_search"),
                                      "%s: code_search reports line %s for recorded line %s" % (label, m.group(2), m.group(4)), replay_sc(sc, res, q, a))
            elif q["tool"] in ("code_read", "http_read"):
                up, k = walk(q["path"].split("/"))
                for m in marks:
                    where.setdefault(m[0], set()).add("/".join(k))
            else:
                for m in marks:
                    where.setdefault(m[0], set()).add("(listing)")
        for eid, places in sorted(where.items()):
            if eid == HOSTILE:
                ok = {"/".join(allowed_h)} if allowed_h else set()
            elif eid in KEY_OF:
                ok = {"/".join(KEY_OF[eid])}
            else:
                ok = set()
            bad = sorted(places - ok)
            if bad:
                what = "hostile_entry_served" if eid == HOSTILE else ("outside_file_system" if eid == 999999 else "good_file_misplaced")
                ck.report(dict(keyf, prop="HostileIgnored" if eid == HOSTILE else "OnlyRecorded", what=what),
                          "%s: lines of entry %d were returned for %s (allowed: %s); open_err=%r roots=%s files=%s" % (
                              label, eid, bad, sorted(ok) or "nowhere", res.get("open_err", ""), res.get("roots"), res.get("files")), replay_sc(sc, res))
        if part == "B" and c["must"]:
            if "/".join(["r"] + c["key"]) not in where.get(HOSTILE, set()):
                ck.report(dict(keyf, prop="Served", what="good_entry_not_served"), "%s: its content is not returned at r/%s (open_err=%r)" % (
                    label, "/".join(c["key"]), res.get("open_err", "")), replay_sc(sc, res))
        # memory: opening the source allocates in proportion to what the caps allow, not to what the archive declares
        real = sum((e.get("size") or 60) for row in sc["rows"] for e in row.get("entries", []))
        limit = 96 * MIB + 6 * real
        if res["alloc_bytes"] > limit:
            ck.report(dict(keyf, prop="Bounded", what="memory"), "%s: opening the source allocated %.0f MiB (declared %.0f MiB, real content %.1f MiB, limit %.0f MiB)" % (
                label, res["alloc_bytes"] / MIB, res.get("declared", 0) / MIB, real / MIB, limit / MIB), replay_sc(sc, res))
        if part == "C" and len(ck.cov["samples"]) < 6 and sc["label"] in ("bomb", "symlink", "root:../r"):
            ck.sample({"archive": sc["label"], "open_err": res.get("open_err", ""), "files": res["files"], "roots": res["roots"],
                       "alloc_MiB": round(res["alloc_bytes"] / MIB, 1), "declared_MiB": res.get("declared", 0) // MIB})
    # ---------------------------------------------------------------- judge D
    # a second process archives the same file sets: the bytes must not depend on the process either
    o2 = core.harness(binary, "sourcepath", {"scenarios": [], "common": [], "roundtrips": rts}, timeout=900)
    second = {x["id"]: x for x in o2.get("roundtrips") or []}
    kind_of = {x["id"]: x["kind"] for x in rts}
    for rt in rtres:
        other = second.get(rt["id"])
        if other is None:
            raise core.Broken("second process returned no result for round trip %d" % rt["id"])
        rt["problems"] = list(rt["problems"] or []) + ["(second process) " + p for p in other["problems"] or []]
        for hk, what in (("hash", "WriteArchive"), ("tree_hash", "ArchiveDir")):
            if rt.get(hk) and other.get(hk) and rt[hk] != other[hk] and not any("differ" in p for p in rt["problems"]):
                rt["problems"].append("%s of the same files differs between two processes" % what)
    ck.cov["archive_writes_per_near_tie_set"] = (32 if quick else 96) * 2
    for rt in rtres:
        for p in rt["problems"] or []:
            what = "not_deterministic" if "differ" in p and "content" not in p else "read_back"
            ck.report({"prop": "RoundTrip", "what": what, "part": "D", "files": kind_of.get(rt["id"], "")}, "archive round trip %d (%s): %s" % (rt["id"], kind_of.get(rt["id"]), p),
                      {"driver": "sourcepath", "roundtrip": next(x for x in rts if x["id"] == rt["id"])})
    ck.cov["entry_classes"] = classes
    summary = {}
    for key, desc, _ in ck.violations:
        k = "%s/%s/%s/%s" % (key.get("part"), key.get("prop"), key.get("what"), key.get("class") or key.get("label") or key.get("tool"))
        summary.setdefault(k, [0, desc[:160]])[0] += 1
    ck.cov["unexplained_by_kind"] = summary
    ck.cov["writer_refused_names"] = writer_refused
    ck.cov["round_trips"] = len(rtres)
    ck.cov["tool_calls"] = calls
    ck.cov["traces_validated_against_impl"] += len(scenarios) + len(rtres)
    ck.cov["evaluations"] += calls
    ck.cov["distinct_nontrivial"] += nontriv
    ck.cov["exhaustive"] = True
    ck.note("%d request paths x 4 tools, %d entry archives, %d hand-built, %d round trips, %d tool calls; writer refused %d names" % (
        len(reqs), len(entries), len(hand), len(rtres), calls, writer_refused))


def judge_search(ck, q, a, key_of, part):
    for line in a.get("text", "").split("\n"):
        m = re.match(r"^(.*?):(\d+): (.*)$", line)
        if not m:
            continue
        mm = re.match(r"^MK(\d+)x(\d+) payload$", m.group(3))
        ok = mm and int(mm.group(1)) in key_of and "/".join(key_of[int(mm.group(1))]) == m.group(1) and int(mm.group(2)) == int(m.group(2))
        if not ok:
            ck.report({"prop": "OnlyRecorded", "what": "search_hit", "tool": "code_search", "part": part},
                      "code_search(%r, %r) returned %r which is not a recorded line of that file" % (q["query"], q["filter"], line),
                      {"driver": "sourcepath", "request": {k: v for k, v in q.items() if k != "case"}, "answer": a})


def replay_sc(sc, res, q=None, a=None):
    s = {k: v for k, v in sc.items() if k in ("id", "rows", "via", "requests", "common", "full", "label", "entry")}
    r = dict(res)
    r["answers"] = [x for x in res.get("answers", []) if x.get("marks")][:20]
    return {"driver": "sourcepath", "scenario": s, "observed": r, "request": q, "answer": a}
