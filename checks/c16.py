"""C16 — memory hierarchies are transparent to requesters (spec/mem/MemHier.tla, MemTrace.tla)."""
import os
from vlib import cacheint, core, memcheck

LEVEL = "exploration"
TECHNIQUE = ("TLA+ flat-memory specification model-checked with TLC (oracle); seeded random stacks of the real caches, ROBs and "
             "memory controllers run on the real serial engine; requester-side traces validated by TLC against the specification")
LEVEL_TEXT = ("Exploration with a model-checked oracle. MemHier.tla states what a requester may observe from any hierarchy (flat "
              "zero-initial byte memory, writes applied under their dirty mask at acknowledgment, one response per request of the "
              "matching kind, addressed to the sender, nothing unanswered at the end); TLC explores it exhaustively on a tiny address "
              "space (the incremental memory equals the memory defined from the history of acknowledged writes, read answers equal it, "
              "the expected bytes of a pending read cannot change under the no-overlap precondition; two control models show that the "
              "precondition is needed and that every per-response rule can fail). The caches' internals are NOT transcribed: a seeded "
              "generator composes stacks (any chain of write-around / write-evict / write-through / write-back caches and ROBs over "
              "idealmemcontroller, simplebankedmemory or a DRAM preset, single or interleaved lower modules, small geometries; plus a family of "
              "tiny write-back caches over a slow or back-pressured lower level where victims' write-backs queue up) and a "
              "requester issues reads, full-line, partial and masked writes at concurrency 1..16 with no two in-flight requests on a "
              "common byte; every recorded trace is validated by TLC (MemTrace.tla); failing cases are minimised (stack and request "
              "stream) and re-validated.")
LEVEL_NOTE = ("Section 'internals' goes BEYOND the C16 statement: spec/mem/CacheInternals.tla states consistency conditions of the components' own "
              "State (MSHRs, transaction tables and the stage buffers/pipelines that reference them, eviction lists, ROB table, bank pipelines, DRAM "
              "queues, emptiness at quiescence) and TLC evaluates them on the State projected after every N-th handled event of the same runs (negative "
              "controls: hand-corrupted states are rejected rule by rule); failures are reported with keys {part: internals, kind, rule}; if the State "
              "schema no longer offers a field the projection needs, a DRIFT line is printed and the rule is skipped, never failed. "
              "Coverage of the caches' interleavings is what the seeds reach (quick 12 stacks x 300 requests, thorough 150 x 2000, every "
              "DRAM preset). Requests stay inside one line of the smallest cache of the stack and are at most 64 bytes; the process id is a "
              "function of the address. Serial engine only.")

CONTROL_CLASSES = {"duplicate_response", "response_to_unknown_request", "wrong_kind", "wrong_destination", "wrong_length",
                   "wrong_data", "never_answered"}
PRESETS = ["dram:default", "dram:DDR4", "dram:DDR5", "dram:HBM2", "dram:HBM3", "dram:GDDR6"]


def spec_side(ck):
    """Starts TLC on MemHier (and its two control models) in the background."""
    cfg = "MemHier_q.cfg" if ck.tier == "quick" else "MemHier_t.cfg"
    return memcheck.SpecSide([
        ("MemHier", cfg, 6, None),
        # control 1: a faulty hierarchy trips every rule (classes announced once each; one worker)
        ("MemHier", "MemHier_control.cfg", 1, None),
        # control 2: without the no-overlap precondition the expected read data is not unique
        ("MemHier", "MemHier_control2.cfg", 2, "ExpectedStable"),
    ])


def spec_verdict(ck, side):
    res = side.join(ck)
    seen = {c["class"] for c in res["MemHier_control.cfg"].tagged.get("CASE", [])}
    if seen != CONTROL_CLASSES:
        raise core.Broken("control model: rules that never failed: %s (unexpected: %s)" % (sorted(CONTROL_CLASSES - seen), sorted(seen - CONTROL_CLASSES)))
    ck.cov["exhaustive"] = False


def leaves(ck, n):
    """Controller kinds to cycle through: ideal, banked and DRAM presets (all of them in the thorough tier)."""
    ps = PRESETS[:]
    ck.rng.shuffle(ps)
    if ck.tier == "quick":
        out = ["ideal", "banked", ps[0], "ideal", "banked", ps[1], ps[2]]
    else:
        out = ["ideal", "banked", ps[0], "ideal", ps[1], "banked", ps[2], "ideal", ps[3], "banked", ps[4], ps[5], "ideal"]
    return out


def run(ck):
    ck.cov["rule"] = ("TLC explores MemHier.tla exhaustively within its cfg (plus two control models). Then every generated stack is "
                      "built from the real components, driven to quiescence by the requester, and its trace (issue/response records with "
                      "data) is validated by TLC with MemTrace.tla: each response is classified by MemHier!Class against the flat memory, "
                      "the run must end with nothing unanswered. The in-driver oracle must agree with TLC on every run. Non-trivial = a "
                      "run in which every request was answered (counted per stack); evaluations = trace records validated.")
    ck.assumptions += ["serial engine, direct connections", "requests stay inside one line of the smallest cache and are <= 64 bytes",
                       "the process id of a request is a function of its address", "the requester never has two in-flight requests on a common byte "
                       "(checked on the trace: a trace that breaks it is rejected as a harness failure)",
                       "only configurations the builders accept; a DRAM transaction queue smaller than one line is refused by the controller itself and not used"]
    # development aid: mutation runs may skip the specification-side TLC (VERIF_MEMHIER_SKIP_SPEC=1)
    side = None if os.environ.get("VERIF_MEMHIER_SKIP_SPEC") else spec_side(ck)
    if ck.tier == "quick":
        stacks, requests, shards = 12, 300, 4
    else:
        stacks, requests, shards = 150, 2000, 15
    # every component's State is projected after every N-th handled engine event (CacheInternals.tla, see below)
    extra = dict(leaves=leaves(ck, stacks), no_mask_every=2, zero_latency_every=11 if ck.tier == "quick" else 19,
                 internals_every=499 if ck.tier == "quick" else 4999,
                 # every k-th stack is of the family "slow lower level" (tiny write-back caches, 1-2 evictions in flight, a lower
                 # level answering after 100-400 cycles, full-line write misses at high concurrency): write-backs queue up
                 # while transaction slots are recycled
                 slow_every=4 if ck.tier == "quick" else 8)
    summary, results = memcheck.campaign(ck, "C16", flush=False, stacks=stacks, requests=requests, shards=shards,
                                   module="MemTrace", cfg="MemTrace.cfg", relevant=lambda c: c in memcheck.C16_CLASSES, extra=extra)
    if side:
        spec_verdict(ck, side)
    # beyond the statement: consistency rules of the components' own State, judged by TLC on the projections
    cacheint.evaluate(ck, results, "C16")
    ck.cov["distinct_nontrivial"] += summary["runs"] - summary["failing"]
    ck.cov["stacks"] = summary["runs"]
    ck.cov["builder_rejected"] = summary["rejected"]
    ck.cov["requests_answered"] = summary["requests"]
    ck.cov["component_kinds"] = summary["kinds"]
    for d in summary["descs"][:5]:
        ck.sample({"stack": d})
    missing = {"writeback", "writearound", "writeevict", "writethrough", "rob", "ideal", "banked", "dram"} - set(summary["kinds"])
    if missing and ck.tier != "quick":
        raise core.Broken("the campaign never built: %s" % sorted(missing))
    ck.note("C16: %d stacks (%d rejected by builders), %d requests answered, %d trace records, %d failing stacks; kinds %s" % (
        summary["runs"], summary["rejected"], summary["requests"], summary["events"], summary["failing"], summary["kinds"]))
