"""C35 — the data recorder persists every entry exactly once (spec/recorder/Recorder.tla, RecorderAbs.tla, RecorderTrace.tla)."""
import collections, concurrent.futures, glob, json, os, random, tempfile, threading
from vlib import core, tracecheck

LEVEL = "model_checking"
TECHNIQUE = ("TLA+ model of InsertData/Flush/Close with the mutex held exactly where datarecorder.go holds it (goroutines waiting for the mutex "
             "included), model-checked with TLC (all interleavings of 2-3 inserters + flusher + Close, batch sizes 1..3); one schedule per distinct "
             "(final state, set of wait situations) replayed on the real recorder through gates (hook H2), plus seeded random gate schedules and "
             "free-running goroutines; SQLite file read back with the real reader; logs validated by TLC against the model and the abstract statement")
LEVEL_TEXT = ("Recorder.tla has one action per stretch of code between two gates of hook H2 (InsertData's critical section; flushLocked's entryCount "
              "read, BEGIN, per-table snapshot, per-row insert with location interning, clear, location flush, counter reset, COMMIT) and a silent "
              "action for a waiting goroutine taking the freed mutex. TLC explores every interleaving within the bounds and proves AllPersistedOnce, "
              "NoCrash, termination and the refinement Recorder => RecorderAbs; the lock scope the code had before the repair (Flush without the "
              "mutex) is kept as a negative control that TLC must refute. One schedule per distinct (final state, set of points of a flush at which "
              "another call was let in to wait) is replayed on the real sqliteWriter with goroutines parked at the gates and released one at a time "
              "(a goroutine blocked on the recorder's mutex is recognised from its wait reason); the mutex-ordered log plus the rows read back from "
              "the SQLite file are validated by TLC (RecorderTrace.tla): step by step against the model and, at the end, against the statement "
              "evaluated on the real rows.")
LEVEL_NOTE = ("Interleavings are exhaustive only in the model (2 inserters x <=2 entries or 3 x 1, <=2 explicit flushes, <=2 tables); larger programs are "
              "sampled (random gate schedules, 2-8 free-running goroutines, also under -race in thorough). Field values are sampled from seeded "
              "generators with the extremes of every allowed kind, not enumerated. NaN is left out (SQLite stores NaN as NULL). Known findings: "
              "unsigned values >= 2^63 and complex kinds cannot be stored (W9, the unlocked Flush, is repaired in the repository).")

PANICS = [("cannot start a transaction within a transaction", "panic_nested_transaction"),
          ("cannot commit - no transaction is active", "panic_commit_without_transaction"),
          ("cannot rollback - no transaction is active", "panic_commit_without_transaction"),
          ("database is locked", "panic_database_locked"),
          ("SQLITE_BUSY", "panic_database_locked"),
          ("is locked", "panic_database_locked"),
          ("runtime error:", "panic_runtime_error"),
          ("UNIQUE constraint failed", "panic_unique_index_at_close"),
          ("converting argument", "panic_unsupported_value")]


LOCK = threading.RLock()


class Locked:
    """Facade of the Check for the phases that run in parallel threads: TLC runs are accounted under a lock."""

    def __init__(self, ck):
        self.ck = ck

    def run_tlc(self, *a, **kw):
        r = core.tlc(*a, **kw)
        with LOCK:
            self.ck.cov["states"] += r.distinct
            self.ck.cov["transitions"] += r.generated
            self.ck.tlc_runs.append(dict(module=a[1], cfg=a[2], **r.summary()))
        return r


def panic_class(msg):
    for needle, cls in PANICS:
        if needle in (msg or ""):
            return cls
    return "panic_other"


def dbdir():
    base = "/dev/shm" if os.access("/dev/shm", os.W_OK) else None
    d = tempfile.mkdtemp(prefix="verif-c35-", dir=base)
    core._scratch_dirs.append(d)
    return d


def get_binary(ck, race=False):
    try:
        return ck.binary("recorder", race=race)
    except core.Broken as e:
        if "VerifGate" in str(e) or "VerifSetBatchSize" in str(e):
            raise core.Broken("hook H2 not applied (datarecording.VerifGate / VerifSetBatchSize missing: apply hooks/H2-recorder-gates.diff to the repository)")
        raise


def read_runs(path):
    """ndjson -> {run: [lines]}"""
    runs, cur = {}, None
    with open(path) as f:
        for line in f:
            m = json.loads(line)
            if m["e"] == "start":
                cur = runs.setdefault(m["run"], [])
            cur.append(m)
    return runs


def windows(lines):
    """For every log position: the processes that are between their fl_begin and their fl_commit step."""
    inflush, out = set(), []
    for m in lines:
        out.append(set(inflush))
        if m["e"] == "step":
            if m["l"] == "fl_begin":
                inflush.add(m["p"])
            elif m["l"] == "fl_commit":
                inflush.discard(m["p"])
    return out


def schedule_class(lines, missing, crashed, panic_proc):
    w = windows(lines)
    if crashed:
        for k, m in enumerate(lines):
            if m["e"] == "panic" and m["p"] == panic_proc:
                return "concurrent_flushes" if (w[k] - {panic_proc}) else "other"
        return "other"
    if missing:
        pos = {m["id"]: k for k, m in enumerate(lines) if m["e"] == "step" and m["l"] == "ins"}
        if all(i in pos and (w[pos[i]] - {lines[pos[i]]["p"]}) for i in missing):
            return "insert_during_unlocked_flush"
    return "other"


def interleaved(lines):
    w = windows(lines)
    return any(m["e"] == "step" and (w[k] - {m["p"]}) for k, m in enumerate(lines))


PREDICT = {"ok": "ok", "dropped": "lost", "unflushed_at_close": "lost", "panic": "panic_nested_transaction"}


def pick(rng, cases, quota):
    """Seeded sample of model behaviours, stratified by (outcome, batch size, number of wait situations) so that rare classes are all kept."""
    groups = collections.defaultdict(list)
    for c in cases:
        groups[(c["outcome"], c["batch"], c.get("waits", 0))].append(c)
    out = []
    todo = sorted(groups.values(), key=len)
    for i, g in enumerate(todo):
        rng.shuffle(g)
        share = max(1, (quota - len(out)) // (len(todo) - i))
        out += g[:share]
    return out


def gated(ck, label, cases, tables, random_n, shards, retry=0):
    """Run gated cases (+ random_n seeded random schedules) on the real recorder in `shards` parallel driver
    processes, validate the logs with TLC, judge every run."""
    binary = get_binary(ck)
    d = core.scratch("c35-")
    db = dbdir()
    cfg = "RecorderTrace_impl%d.cfg" % len(tables)
    parts = [cases[i::shards] for i in range(shards)]
    payloads = []
    for i, part in enumerate(parts):
        os.makedirs(os.path.join(db, "s%d" % i))
        payloads.append(dict(seed=ck.seed * 100 + i, dir=os.path.join(db, "s%d" % i), out=os.path.join(d, "g%d.ndjson" % i), tables=tables, cases=part,
                             random=(random_n + shards - 1 - i) // shards, retry=retry))
    with concurrent.futures.ThreadPoolExecutor(shards) as ex:
        def shard(p):
            try:
                return core.harness(binary, "gated", p, timeout=2400)
            except core.Crashed as e:       # a Go fatal error cannot be recovered per run: the shard's remaining runs are lost
                process_died(ck, e, "gate-controlled schedules (%s)" % label, dict(driver="gated", payload=p))
                return None
        outs = list(ex.map(shard, payloads))
    if any(o is None for o in outs):
        ck.note("%s: %d of %d shards died inside the recorder (reported); their logs are not validated" % (label, sum(o is None for o in outs), len(outs)))
        return collections.Counter()
    # one trace file, run numbers made unique per shard
    allpath = os.path.join(d, "gated.ndjson")
    results, logs, events = {}, {}, 0
    with open(allpath, "w") as w:
        for i, (p, o) in enumerate(zip(payloads, outs)):
            for r in o["results"]:
                r["run"] = r["run"] * shards + i
                results[r["run"]] = r
            with open(p["out"]) as f:
                for line in f:
                    m = json.loads(line)
                    if "run" in m:
                        m["run"] = m["run"] * shards + i
                    w.write(json.dumps(m) + "\n")
                    events += 1
    logs = read_runs(allpath)
    v = tracecheck.validate(Locked(ck), ["recorder", "common"], "RecorderTrace", cfg, allpath, timeout=3000)
    if not v.accepted:
        raise core.Broken("%s: TLC could not read the gated log to its end (matched %s, next %s, invariant %s) — on a log of the real code "
                          "that conforms to the model every model invariant must hold" % (label, v.matched, v.next, v.invariant))
    tl = {}
    for c in v.tlc.tagged["CASE"]:      # one line per branch (which waiter got the mutex): the run conforms if one branch does
        if c["run"] not in tl or (c["conf"] and not tl[c["run"]]["conf"]):
            tl[c["run"]] = c
    if set(tl) != set(results):
        raise core.Broken("%s: TLC judged %d runs, the harness made %d" % (label, len(tl), len(results)))
    stats = collections.Counter()
    with LOCK:
        for run, r in sorted(results.items()):
            c, lines = tl[run], logs[run]
            go_ok = (not r["crashed"]) and not r.get("hang") and not r.get("close_err") and r["verdict"]["ok"]
            # two judges of the same rows: TLC evaluates the statement (RecorderAbs) on ids and location ids, the harness compares every field
            # and inspects the location dictionary. Rows TLC rejects are a violation whatever the harness thinks; rows the harness rejects
            # for a reason TLC can see as well (missing, duplicated, foreign) but TLC accepts mean one of the two judges is broken.
            tlc_only = go_ok and not c["persisted"]
            if c["persisted"] and not go_ok and r["verdict"]["symptom"] in ("missing", "duplicated", "foreign_row"):
                raise core.Broken("%s run %s: harness verdict %s but TLC (RecorderAbs on the real rows) says persisted" % (label, run, r["verdict"]))
            ck.cov["traces_validated_against_impl"] += 1
            stats["runs"] += 1
            stats["conforming"] += bool(c["conf"])
            stats["blocked_on_mutex"] += r.get("blocked", 0)
            stats["table_created_in_mid_run"] += any(m["e"] == "step" and m["l"] == "create" for m in lines)
            nontriv = interleaved(lines)
            ck.cov["distinct_nontrivial"] += nontriv
            stats["interleaved"] += nontriv
            if r.get("outcome"):
                stats["schedule_followed" if r["followed"] else "schedule_infeasible"] += 1
            if r.get("hang"):
                symptom = "hang"
            elif r["crashed"]:
                symptom = panic_class(r.get("panic_msg"))
            elif r.get("close_err"):
                symptom = "close_error"
            elif tlc_only:
                symptom = "statement_refuted_on_the_stored_rows"
            elif go_ok:
                symptom = "ok"
            elif r["verdict"]["symptom"] == "missing":
                symptom = "lost"
            else:
                symptom = r["verdict"]["symptom"]
            stats["outcome:" + symptom] += 1
            if r.get("outcome") and r["followed"] and PREDICT.get(r["outcome"]) != symptom:
                stats["prediction_mismatch"] += 1
            if symptom == "ok":
                continue
            key = {"mode": "gated", "model": "conforms" if c["conf"] else "diverged", "symptom": symptom,
                   "schedule": schedule_class(lines, r["verdict"].get("missing") or [], r["crashed"], r.get("panic_proc"))}
            desc = ("%s: gated run %s (batch size %s) on the real recorder: %s — %d inserted, missing ids %s, duplicated %s, changed %s, location dictionary: %s, panic %r; "
                    "schedule: %s" % (label, r["name"], r["batch"], symptom, r["verdict"].get("inserted", 0), r["verdict"].get("missing"),
                                      r["verdict"].get("duplicated"), r["verdict"].get("changed"), r["verdict"].get("loc_problem"), r.get("panic_msg"),
                                      " ".join("%s:%s" % (m["p"], m["l"] + (("(" + str(m["id"]) + ")") if m["l"] == "ins" else "")) for m in lines if m["e"] == "step")))
            if ck.report(key, desc, {"key": key, "result": r, "tlc": c, "log": lines, "tables": tables}) == "known":
                stats["known"] += 1
            if len(ck.cov["samples"]) < 3:
                ck.sample({label: {"batch": r["batch"], "symptom": symptom, "steps": ["%s:%s" % (m["p"], m["l"]) for m in lines if m["e"] == "step"]}})
        ck.cov["evaluations"] += events
        ck.cov.setdefault("gated", {})[label] = dict(stats)
    ck.note("%s: %s" % (label, dict(stats)))
    return stats


def process_died(ck, e, what, inp):
    """A driver process that dies of a Go fatal error (e.g. unlock of an unlocked mutex while a panic unwinds) cannot be
    recovered inside the harness; when the fatal error / panic was raised in the recorder's own code it is a failure of the
    real code and is reported, anything else is the harness's problem (exit 2)."""
    where = e.akita_panic()
    if not where or "datarecording" not in where:
        raise e
    with LOCK:
        ck.report({"mode": "process_died", "symptom": "fatal:" + panic_class(where)}, "%s: the process died inside the recorder: %s" % (what, where),
                  {"input": inp, "stderr_tail": e.stderr[-3000:]})
    return None


def values(ck, rounds, n):
    binary = get_binary(ck)
    try:
        out = core.harness(binary, "values", dict(seed=ck.seed, dir=dbdir(), rounds=rounds, n=n, both_late=rounds > 1), timeout=1200)
    except core.Crashed as e:
        return process_died(ck, e, "sequential round trips (one goroutine)", dict(driver="values", seed=ck.seed, rounds=rounds, n=n))
    stats = collections.Counter()
    with LOCK:
        for r in out["results"]:
            if r["rejected"]:
                stats["shape_rejected_by_CreateTable:" + r["shape"]] += 1
                continue
            stats["runs"] += 1
            ck.cov["traces_validated_against_impl"] += 1
            ck.cov["evaluations"] += r["entries"]
            ck.cov["distinct_nontrivial"] += 1
            if r["crashed"]:
                symptom = panic_class(r["panic_msg"])
            else:
                symptom = r["verdict"]["symptom"]
            stats[r["class"] + ":" + symptom] += 1
            stats["tables_created_late"] += bool(r.get("late_tables"))
            stats["empty_location_first"] += bool(r.get("empty_location_first"))
            if symptom == "ok":
                if len(ck.cov["samples"]) < 5 and r["shape"] == "wide":
                    ck.sample({"round_trip": {"shape": r["shape"], "batch": r["batch"], "flush_pattern": r["pattern"], "entries": r["entries"], "first": r["sample"]}})
                continue
            key = {"mode": "sequential", "shape": r["shape"], "class": r["class"], "symptom": symptom, "tables": "created_late" if r.get("late_tables") else "up_front"}
            ck.report(key, "sequential round trip (one goroutine, shape %s, value class %s, batch %s, flush pattern %s, tables %s, %d entries): %s %s %s; first entry %s" % (
                r["shape"], r["class"], r["batch"], r["pattern"], key["tables"], r["entries"], symptom, r.get("panic_msg", ""), r["verdict"], r.get("sample")), {"key": key, "result": r})
        ck.cov["values"] = dict(stats)
    ck.note("values: %s" % dict(stats))


def free(ck, label, runs, race=False, single_every=0, budget=0, max_per=60, tlc_limit=250):
    binary = get_binary(ck, race=race)
    d = core.scratch("c35f-")
    path = os.path.join(d, "free.ndjson")
    env = {}
    if race:
        env["GORACE"] = "log_path=%s exitcode=0 halt_on_error=0" % os.path.join(d, "race")
    try:
        out = core.harness(binary, "free", dict(seed=ck.seed + (7 if race else 0), dir=dbdir(), out=path, runs=runs, max_inserters=8, single_every=single_every,
                                                max_per_inserter=max_per, rich=True, tlc_limit=tlc_limit, budget_s=budget), timeout=2400, env=env)
    except core.Crashed as e:
        return process_died(ck, e, "free-running goroutines (%s)" % label, dict(driver="free", seed=ck.seed, runs=runs))
    tl = {}
    if out["traced"]:
        v = tracecheck.validate(Locked(ck), ["recorder", "common"], "RecorderTrace", "RecorderTrace_abs.cfg", path, timeout=3000)
        if not v.accepted:
            raise core.Broken("%s: TLC could not read the log to its end (matched %s, next %s)" % (label, v.matched, v.next))
        tl = {c["run"]: c for c in v.tlc.tagged["CASE"]}
    stats = collections.Counter()
    with LOCK:
        for r in out["results"]:
            go_ok = (not r["crashed"]) and r["verdict"]["ok"]
            c = tl.get(r["run"])
            if c is not None:
                stats["judged_by_tlc"] += 1
                if c["persisted"] and not go_ok and r["verdict"]["symptom"] in ("missing", "duplicated", "foreign_row"):
                    raise core.Broken("%s run %s: harness verdict %s but TLC (RecorderAbs on the real rows) says persisted" % (label, r["run"], r["verdict"]))
            tlc_only = c is not None and go_ok and not c["persisted"]
            stats["runs"] += 1
            ck.cov["traces_validated_against_impl"] += 1
            ck.cov["evaluations"] += r["entries"]
            nontriv = r["inserters"] >= 2 or r["flushes"] >= 2
            ck.cov["distinct_nontrivial"] += nontriv
            stats["overlapping" if r["overlap"] else "not_overlapping"] += 1
            stats["tables_created_in_mid_run"] += bool(r.get("late_tables"))
            stats["empty_location_first"] += bool(r.get("empty_location_first"))
            if r["crashed"]:
                symptom = panic_class(r["panic_msg"])
            elif tlc_only:
                symptom = "statement_refuted_on_the_stored_rows"
            elif go_ok:
                symptom = "ok"
            elif r["verdict"]["symptom"] == "missing":
                symptom = "lost"
            else:
                symptom = r["verdict"]["symptom"]
            stats["outcome:" + symptom] += 1
            if symptom == "ok":
                if len(ck.cov["samples"]) < 6 and r["inserters"] >= 2:
                    ck.sample({label: {k: r[k] for k in ("inserters", "flusher", "batch", "procs", "entries", "flushes", "overlap", "sample")}})
                continue
            key = {"mode": "free", "goroutines": "single" if r["inserters"] == 1 and not r["flusher"] else "several", "overlap": r["overlap"], "symptom": symptom,
                   "tables": "created_in_mid_run" if r.get("late_tables") else "up_front"}
            ck.report(key, "%s: %d inserter goroutine(s)%s, batch size %d, GOMAXPROCS %d, %d entries, %d flushes begun, calls overlapped a flush: %s -> %s %s %s" % (
                label, r["inserters"], " + flusher" if r["flusher"] else "", r["batch"], r["procs"], r["entries"], r["flushes"], r["overlap"], symptom,
                r.get("panic_msg", ""), {k: v for k, v in r["verdict"].items() if v}), {"key": key, "result": r, "seed": ck.seed, "label": label})
        if race:
            reports = 0
            for fn in glob.glob(os.path.join(d, "race.*")):
                with open(fn, errors="replace") as f:
                    txt = f.read()
                for blk in txt.split("==================")[1:]:
                    if "DATA RACE" not in blk:
                        continue
                    if "datarecording.(*sqliteWriter)" not in blk:
                        raise core.Broken("race detector report outside the recorder (harness bug?):\n" + blk[:3000])
                    reports += 1
            stats["race_detector_reports_in_sqliteWriter"] = reports
        ck.cov.setdefault("free", {})[label] = dict(stats)
    ck.note("%s: %s" % (label, dict(stats)))
    return stats


def run(ck):
    q = ck.tier == "quick"
    ck.cov["rule"] = ("TLC: all behaviours of Recorder.tla within the cfg bounds. Real code: a case is one run of the real "
                      "recorder ending with Close and a read-back of the SQLite file through the real reader — (a) gated replays of model schedules (one per distinct "
                      "final state x set of wait situations, seeded stratified sample when there are more than the quota) + seeded random gate schedules "
                      "(non-trivial: some goroutine is let through a gate between another goroutine's BEGIN and COMMIT), "
                      "(b) sequential round trips per table shape x batch size x flush pattern with seeded extreme values, (c) free-running goroutines "
                      "(non-trivial: >=2 inserters or >=2 flushes). Verdict per run: multiset equality of inserted and stored entries on every non-ignored "
                      "field, location ids <-> strings one-to-one.")
    ck.assumptions += [
        "Close is called after every InsertData/Flush call has returned (the statement speaks of entries inserted before the recorder is closed)",
        "a panic inside the recorder counts as not persisting (a real program dies); the harness recovers it only to keep going",
        "gated runs: a goroutine let through a gate runs until it is parked again, finished, or waiting for the recorder's mutex (seen in its scheduler wait reason); a waiter takes the freed mutex before anybody else is let through",
        "free runs use the connection pool as is, busy timeout shortened to 150 ms (only consulted if two goroutines write at once, i.e. after a regression)",
        "location strings include the empty string: first in the very first flush and later again; the location dictionary is read directly from the SQLite file "
        "(every id used by a row exists exactly once, every string has one id, ids start at 1), not only through the DataReader",
        "NaN is not generated: SQLite stores NaN as NULL, no SQLite-backed recorder can return it; +-Inf, -0, subnormals are generated",
        "table and field names are not SQL keywords; entries carry unique IDs so that 'exactly once' is decidable per entry",
        "tables are created by CreateTable before the goroutines start or, for the later ones, by one inserter in mid-run; nobody inserts into a table before its CreateTable has returned, and no table is created twice",
        "the visit of the 'location' map entry in Flush's table loop (a length read) is not a model step; the controller lets it pass unlogged",
    ]
    get_binary(ck)
    if not q:
        get_binary(ck, race=True)
    pool = concurrent.futures.ThreadPoolExecutor(12)
    # independent of the model: sequential round trips (3) and free-running goroutines (4) start now
    jobs = [pool.submit(values, ck, 1 if q else 6, 12 if q else 40),
            pool.submit(free, ck, "free", 30 if q else 460, budget=25 if q else 150, single_every=5 if q else 8)]
    if not q:
        jobs.append(pool.submit(free, ck, "free-race", 150, race=True, budget=150, single_every=12))
    # 1. the model: the lock scope the code has satisfies the statement; the scope it had before the repair is the negative control
    # 2. B3: as soon as a model run is through, its schedules go to the real recorder; seeded random gate schedules start at once
    nb, ng = (50, 100) if q else (200, 800)
    cfgs = ([("Recorder_q.cfg", 3), ("Recorder_q2.cfg", 2), ("Recorder_q3.cfg", 3)] if q else
            [("Recorder_t.cfg", 6), ("Recorder_t2.cfg", 3), ("Recorder_t3.cfg", 3), ("Recorder_t4.cfg", 5)])
    pred = collections.Counter()

    def model_and_replay(k, cfg, workers):
        r = Locked(ck).run_tlc(["recorder"], "Recorder", cfg, workers=workers, timeout=3000)
        if not r.ok:
            raise core.Broken("Recorder.tla (%s) violates %s %s — the model of the recorder does not satisfy the statement: it has drifted from "
                              "the code, or the code's lock scope no longer guarantees it; inspect" % (cfg, r.violated, r.error))
        cs = r.tagged["CASE"]
        tabs = sorted({s["t"] for c in cs for s in c["sched"] if s["l"] in ("ins", "create")} | {t for c in cs for t in c["init"]})
        with LOCK:
            pred.update(c["outcome"] for c in cs)
            rng = random.Random(ck.seed * 1000 + k)     # per model run: the sample does not depend on which run finishes first
            chosen = pick(rng, [c for c in cs if c["outcome"] != "ok"], nb) + pick(rng, [c for c in cs if c["outcome"] == "ok"], ng)
            ck.cov.setdefault("schedules_replayed_of_model_schedules", {})[cfg] = [len(chosen), len(cs)]
        gated(ck, "tlc-schedules" + (str(k + 1) if k else ""),
              [dict(name="tlc-%d" % i, batch=c["batch"], sched=c["sched"], outcome=c["outcome"], init=sorted(c["init"])) for i, c in enumerate(chosen)],
              tabs, 0, 4 if q else 6, retry=0 if len(tabs) == 1 else 12)

    def negative_control():
        h = Locked(ck).run_tlc(["recorder"], "Recorder", "Recorder_hyp.cfg", workers=1, timeout=3000)
        if h.ok or h.violated != "AllPersistedOnce":
            raise core.Broken("negative control failed: TLC did not refute AllPersistedOnce for the lock scope the recorder had before the repair "
                              "(Flush without the mutex): ok=%s violated=%s %s" % (h.ok, h.violated, h.error))
        ck.note("negative control (Flush without the mutex): AllPersistedOnce refuted by TLC")

    jobs.append(pool.submit(negative_control))
    jobs += [pool.submit(model_and_replay, k, cfg, w) for k, (cfg, w) in enumerate(cfgs)]
    jobs.append(pool.submit(gated, ck, "random-schedules", [], ["t1", "t2"], 80 if q else 800, 2 if q else 6))
    errs = []
    for j in jobs:
        try:
            j.result()
        except Exception as e:      # let the other phases finish, then fail with the first error
            errs.append(e)
    pool.shutdown()
    if errs:
        raise errs[0]
    ck.cov["model_final_states"] = dict(pred)
    ck.note("model (mutex held across the flush): %d distinct (final state, wait situations) %s" % (sum(pred.values()), dict(pred)))
