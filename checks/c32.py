"""C32 — traces are well-formed task trees
(spec/tracing/TaskTree.tla, spec/tracing/TaskTrace.tla; harness family nettrace, driver task_trace)."""
import copy, json, os
from vlib import core, tracepar

LEVEL = "exploration"
TECHNIQUE = ("TLA+ specification of the statement's task-trace rules, declarative and as an incremental monitor, proved equal by TLC on "
             "every small event history; event streams of a recording tracer attached to every component of real assemblies (memory "
             "controllers, caches, TLB/MMU stack, meshes; control histories with resets mid-traffic) validated by TLC with the monitor")
LEVEL_TEXT = ("TaskTree.tla writes the rules twice — as set-based definitions over a complete event history (started once; ended exactly "
              "once by quiescence, end not before start; milestones and tags name a started task and lie within its lifetime; one task kind "
              "per location) and as the incremental monitor used on traces — and TLC checks on every chronological history within the "
              "bounds that both raise exactly the same flags (plus reachability controls for the rules). A recording tracing.Tracer is "
              "then attached with tracing.CollectTrace to EVERY component and connection, and the library's incoming/outgoing buffer "
              "tracers to every port, of seeded real assemblies: ideal / DRAM / banked memory, write-back and write-through (all three "
              "policies) caches over memory, L1+L2, a ROB + address translator + TLB + MMU + L1 + L2 stack, a ROB over a cache over slow memory (out-of-order answers, answered-but-unretired transactions at a reset), a requester that stops draining its port for a while, meshes and other networks "
              "(tracer attached per component and via the connector's WithVisTracer); control histories pause/drain/flush/invalidate/"
              "enable single components and reset the whole stack top-down or bottom-up in the middle of traffic. TLC runs the monitor "
              "over each recorded stream and prints one CASE per rule failure.")
LEVEL_NOTE = ("The monitor/statement equivalence is exhaustive only for short histories over 2-3 task IDs; assemblies and histories are "
              "seeded samples. Resets are whole-stack sweeps with traffic held during the sweep (a partial reset leaves upper levels waiting "
              "for answers that never come, which is a workload artefact, not a trace defect). Runs that crash or never come to rest are "
              "excluded from the end-of-task rules and counted. EndTask of a never-started ID is counted, not judged (the reset helpers do "
              "it by design). Parent links are not judged (the statement does not).")

RULES = {"started_twice", "ended_twice", "never_ended", "end_before_start", "rider_unknown_task", "rider_before_start",
         "rider_after_end", "location_two_kinds"}


def model(ck):
    quick = ck.tier == "quick"
    jobs = [dict(cfg="TaskTree_q.cfg" if quick else "TaskTree_t.cfg", workers=4 if quick else 8),
            dict(cfg="TaskTree_sim.cfg", workers=2, simulate=400 if quick else 6000, depth=10, seed=ck.seed),
            dict(cfg="TaskTree_ctl_never.cfg", expect="NoNeverEnded"), dict(cfg="TaskTree_ctl_twice.cfg", expect="NoEndedTwice")]
    if not quick:
        jobs += [dict(cfg="TaskTree_ctl_after.cfg", expect="NoRiderAfterEnd"), dict(cfg="TaskTree_ctl_kinds.cfg", expect="NoTwoKinds")]
    res = tracepar.model_runs(ck, ["tracing"], "TaskTree", jobs, parallel=4 if quick else 6, timeout=2400)
    ck.cov["model"] = {c: dict(distinct=r.distinct, generated=r.generated, wall_s=round(r.wall, 1)) for c, r in res.items()}
    ck.note("TaskTree.tla: %s" % ", ".join("%s %d states" % (c, r.distinct or r.generated) for c, r in res.items()))


def runs_of(recs):
    """Split a trace into runs: list of (header, [(line_no, record)])."""
    out = []
    for i, r in enumerate(recs):
        if r["e"] == "run":
            out.append((r, []))
        elif out:
            out[-1][1].append((i + 1, r))
    return out


def norm_what(what, comp):
    if comp and what.startswith(comp + "."):
        return what[len(comp) + 1:]
    if "." in what:
        return what.split(".", 1)[1]
    return what


def comp_of(types, comp, loc):
    if comp in types:
        return comp, types[comp]
    # tracer handed to the connector: the component is named by the location's prefix
    best = ""
    for name in types:
        if loc.startswith(name) and len(name) > len(best):
            best = name
    return best, types.get(best, "?")


def selftest(ck, trace_path):
    recs = tracepar.read_ndjson(trace_path)
    rs = [r for r in runs_of(recs) if r[1] and r[1][-1][1]["e"] == "quiesce" and len(r[1]) > 40]
    if not rs:
        raise core.Broken("no run at rest to derive negative controls from")
    head, body = rs[0]
    run = [head] + [r for _, r in body]
    ends = [i for i, r in enumerate(run) if r["e"] == "end"]
    starts = [i for i, r in enumerate(run) if r["e"] == "start"]
    riders = [i for i, r in enumerate(run) if r["e"] in ("ms", "tag")]
    want, combined = {}, []

    def variant(k, f, cls):
        v = copy.deepcopy(run)
        f(v)
        v[0]["run"] = 9000 + k
        want[9000 + k] = cls
        combined.extend(v)
    maxid = max(r.get("id", 0) for r in run)
    variant(1, lambda v: v.pop(ends[len(ends) // 2]), "never_ended")
    variant(2, lambda v: v.insert(ends[1] + 1, copy.deepcopy(v[ends[1]])), "ended_twice")
    variant(3, lambda v: v.insert(starts[2] + 1, copy.deepcopy(v[starts[2]])), "started_twice")
    variant(4, lambda v: v[starts[len(starts) // 2]].__setitem__("kind", "some_other_kind"), "location_two_kinds")
    if riders:
        variant(5, lambda v: v[riders[0]].__setitem__("id", maxid + 7), "rider_unknown_task")
    d = core.scratch("c32self-")
    p = os.path.join(d, "controls.ndjson")
    tracepar.write_ndjson(p, combined)
    v = tracepar.validate_many(ck, ["tracing", "common"], "TaskTrace", "TaskTrace.cfg", [p], parallel=1, timeout=900)[0]
    got = {}
    for c in v.cases:
        got.setdefault(c["run"], set()).add(c["class"])
    for rid, cls in want.items():
        if cls not in got.get(rid, set()):
            raise core.Broken("negative control %s: TaskTrace did not raise it (raised %s, accepted=%s)" % (cls, sorted(got.get(rid, set())), v.accepted))
    ck.cov["negative_controls"] = sorted(set(want.values()))


def run(ck):
    quick = ck.tier == "quick"
    ck.cov["rule"] = ("(1) TaskTree.tla: monitor = statement on every chronological history up to MaxLen events (exhaustive) and on random longer "
                      "ones (simulation), rule reachability controls. (2) seeded assemblies (kinds rotate: ideal, wb, wt, l1l2, vm, rob (reorder buffer over a cache over slow memory: answers overtake each other), dram, banked, ..., xlat (address translator over a slow TLB / MMU with one-message ports and bursts to many pages: back-pressured Translation and Bottom ports); the requester sometimes stops retrieving for a while (full Top port); "
                      "control modes rotate: reset, none, soft, reset, mixed) and networks run on the serial engine with a recording tracer on every "
                      "component and buffer tracers on every port; TLC runs the monitor over each stream. Counted per run; non-trivial = a run at rest "
                      "with at least 3 task kinds and 200 events.")
    ck.assumptions += ["serial engine: the stream is chronological (a stream that is not is rejected as malformed, not judged)",
                       "IDs renumbered per run by first appearance and times replaced by their ranks (injective, order-preserving)",
                       "the requester is the harness's own component; it emits no tasks of its own (buffer tasks at its ports come from the library's hooks)"]
    if not os.environ.get("VERIF_SKIP_MODEL"):   # development aid (sensitivity runs): the model part does not depend on /repo
        model(ck)
    stacks, nets, ops, msgs, per = (13, 2, 30, 24, 5) if quick else (52, 8, 110, 60, 6)
    binary = ck.binary("nettrace")
    d = core.scratch("c32-")
    traces, outs = [], []
    first = 0
    while first < stacks:
        n = min(per, stacks - first)
        nn = 1 if (first // per) < nets else 0
        path = os.path.join(d, "tasks_%03d.ndjson" % first)
        out = core.harness(binary, "task_trace", dict(seed=ck.seed, stacks=n, nets=nn, ops=ops, msgs=msgs, first=first, out=path), timeout=1500)
        traces.append(path)
        outs.append(out)
        first += n
    verdicts = tracepar.validate_many(ck, ["tracing", "common"], "TaskTrace", "TaskTrace.cfg", traces, parallel=4 if quick else 8, timeout=2400)
    selftest(ck, traces[0])
    total_events = nruns = nontrivial = crashed = restless = resets = stray_info = 0
    kinds_seen, asm_seen, rule_failures = set(), {}, {}
    for out, v in zip(outs, verdicts):
        total_events += out["events"]
        if not v.accepted:
            keep = tracepar.keep_trace(ck, v.trace, "tasktrace")
            raise core.Broken("trace does not fit the structure of TaskTrace (matched %s, next %s, invariant %s); kept at %s" % (
                v.matched, v.next, v.invariant, keep))
        for i in out["infos"]:
            nruns += 1
            asm_seen[i["assembly"]] = asm_seen.get(i["assembly"], 0) + 1
            resets += 1 if i.get("resets") else 0
            if i.get("panic"):
                crashed += 1
                ck.cov.setdefault("crashes", [])
                if len(ck.cov["crashes"]) < 5:
                    ck.cov["crashes"].append({"assembly": i["assembly"], "panic": i["panic"][:160]})
            elif not i.get("at_rest"):
                restless += 1
            st = i.get("stats") or {}
            stray_info += st.get("stray_ends", 0)
            if i.get("at_rest") and st.get("kinds", 0) >= 3 and i.get("events", 0) >= 200:
                nontrivial += 1
        if not v.cases:
            continue
        recs = tracepar.read_ndjson(v.trace)
        byrun = {}
        for head, body in runs_of(recs):
            starts, ctl_ticks = {}, set()
            for ln, r in body:
                if r["e"] == "start":
                    starts.setdefault(r["id"], r)
                elif r["e"] == "end" and starts.get(r["id"], {}).get("loc", "").endswith(".Control.incoming"):
                    # the component took a control command off its Control port in this tick (library buffer tracer)
                    ctl_ticks.add((r.get("comp"), r.get("ps")))
            byrun[head["run"]] = (head, starts, ctl_ticks)
        replays = out["replays"]
        for c in v.cases:
            if c["class"] == "more_of_the_same":
                continue
            if c["class"] not in RULES:
                raise core.Broken("unexpected CASE from TaskTrace: %s" % json.dumps(c)[:400])
            head, starts, ctl_ticks = byrun[c["run"]]
            types = head.get("types") or {}
            ev = c["ev"]
            task = starts.get(c["id"])
            if c["class"] in ("rider_unknown_task",):
                cname, ctype = comp_of(types, ev.get("comp", ""), ev.get("what", ""))
                kind, what = ev["e"], norm_what(ev.get("what", ""), cname)
            elif task is not None:
                cname, ctype = comp_of(types, task.get("comp", ""), task.get("loc", ""))
                kind, what = task["kind"], norm_what(task["what"], cname)
                if c["class"] in ("rider_after_end", "rider_before_start"):
                    what = norm_what(ev.get("what", ""), cname)
            else:
                cname, ctype, kind, what = ev.get("comp", "?"), types.get(ev.get("comp", ""), "?"), "?", "?"
            key = {"class": c["class"], "comp": ctype, "kind": kind, "what": what, "reset": bool(head.get("resets")),
                   "assembly": head.get("assembly"), "mkind": ev.get("mkind", ""),
                   "in_control_tick": (ev.get("comp"), ev.get("ps")) in ctl_ticks}
            desc = "run %d (%s, resets=%s): %s at %s (%s): task kind=%s what=%s loc=%s; event %s" % (
                c["run"], head.get("assembly"), head.get("resets"), c["class"], cname, ctype, kind, what,
                (task or {}).get("loc", c.get("loc")), json.dumps(ev))
            kk = "%s|%s|%s|%s|reset=%s|ctltick=%s" % (key["class"], key["comp"], key["kind"], key["what"], key["reset"], key["in_control_tick"])
            rule_failures[kk] = rule_failures.get(kk, 0) + 1
            ck.report(key, desc, {"driver": "task_trace", "input": replays[c["run"]], "case": c, "task": task})
    ck.cov["traces_validated_against_impl"] += nruns
    ck.cov["evaluations"] += total_events
    ck.cov["distinct_nontrivial"] += nontrivial
    ck.cov["assemblies"] = asm_seen
    ck.cov["runs_with_resets"] = resets
    ck.cov["runs_crashed"] = crashed
    ck.cov["runs_not_at_rest"] = restless
    ck.cov["rule_failures"] = rule_failures
    ck.cov["ends_of_never_started_ids"] = stray_info   # counted, not judged
    for out in outs[:1]:
        i = out["infos"][0]
        ck.sample({"run": {k: i.get(k) for k in ("assembly", "leaf", "sent", "answered", "resets", "events", "stats", "at_rest")}})
        ck.sample({"replay": out["replays"][0]})
    ck.note("%d runs (%s), %d events monitored, %d with resets, %d crashed, %d not at rest" % (
        nruns, asm_seen, total_events, resets, crashed, restless))
