"""C04 — parallel engine preserves time order and phase order (spec/engine/ParEngine.tla, ParTrace.tla)."""
import os
from vlib import core, tracecheck

LEVEL = "model_checking"
TECHNIQUE = "TLA+ model of the round/queue check-out protocol model-checked with TLC (all interleavings in small scope); real ParallelEngine runs under gated and free schedules validated by TLC against the abstract engine"
LEVEL_TEXT = ("ParEngine.tla mirrors parallelengine.go one action per critical section (hasMoreEvents, pauseLock, determineWhatToRun, "
              "emptyQueueChan, per-queue scan/pop/spawn, waitGroup.Wait, worker begin/Schedule/finish, Pause/Continue); TLC explores every "
              "handler program x interleaving within the bounds for exactly-once, start order, termination and deadlock freedom. "
              "The real engine is then driven with TLC-enumerated and random programs under seeded gate-controlled schedules (engine hook + "
              "handler gates, GOMAXPROCS 1/2/4/16) and free-running schedules; the mutex-ordered start/end/schedule log is validated by TLC "
              "against ParTrace.tla (the statement's abstract engine).")
LEVEL_NOTE = ("Interleavings are exhaustive only in the model (2 queues per class, <=4-5 events); on the real engine the Go scheduler is "
              "steered by gates and sampled otherwise. The strict reading of the phase rule fails for primaries scheduled by a secondary of "
              "the same round (W18, known finding); ParTrace_parallel.cfg tolerates exactly that class.")


def sample_programs(ck, n):
    r = ck.run_tlc(["engine"], "EngineGen", "EngineGen_q.cfg", workers=8, timeout=900)
    bs = [b for b in r.tagged["BEHAVIOUR"] if sum(1 for x in b if x["e"] == "start") >= 3]
    ck.rng.shuffle(bs)
    return bs[:n]


def run_traces(ck, label, cfg, payload, expect_reject=False, key_extra=None, timeout=900):
    binary = ck.binary("engine")
    d = core.scratch("ptrace-")
    path = os.path.join(d, "trace.ndjson")
    payload = dict(payload, seed=ck.seed, out=path)
    try:
        out = core.harness(binary, "par_trace", payload, timeout=timeout)
    except core.Crashed as c:
        where = c.akita_panic()
        if not where:
            raise
        key = {"engine": payload.get("engine"), "at": "panic", "scenario": payload.get("scenario", "random")}
        ck.report(key, "%s: the real %s engine panicked while running a legal program: %s" % (label, payload.get("engine"), where),
                  {"payload": {k: v for k, v in payload.items() if k != "given"}, "stderr": c.stderr[-3000:]})
        return None
    v = tracecheck.validate(ck, ["engine", "common"], "ParTrace", cfg, path, timeout=timeout)
    ck.cov["traces_validated_against_impl"] += out["programs"]
    ck.cov["evaluations"] += out["events"]
    ck.cov["distinct_nontrivial"] += out["programs"]
    if out.get("sample"):
        ck.sample({label: out["sample"]})
    if not v.accepted:
        nxt = v.next or {}
        key = {"engine": payload.get("engine"), "at": nxt.get("e", "invariant:%s" % v.invariant), "scenario": payload.get("scenario", "random")}
        if key_extra:
            key.update(key_extra)
        keep = os.path.join(core.VERIF, "replays", "%s-%s-seed%d.ndjson" % (ck.pid, label, ck.seed))
        os.makedirs(os.path.dirname(keep), exist_ok=True)
        os.replace(path, keep)
        ck.report(key, "%s: log of the real %s engine rejected by ParTrace/%s after %s events at %s (invariant %s)" % (
            label, payload.get("engine"), cfg, v.matched, nxt, v.invariant), {"trace": keep, "cfg": cfg, "payload": payload})
    ck.note("%s: %d programs, %d events, cfg=%s accepted=%s" % (label, out["programs"], out["events"], cfg, v.accepted))
    return v


def run(ck):
    q = ck.tier == "quick"
    ck.cov["rule"] = ("TLC: all behaviours of ParEngine.tla within the cfg bounds. Real code: each program (TLC-enumerated EngineGen programs with >=3 "
                      "handled events, and seeded random programs) is run once per schedule on timing.ParallelEngine; a case is one (program, schedule) run, "
                      "non-trivial by construction (>=3 events).")
    ck.assumptions += ["handler begin is observed at handler entry and end before return; both logged under one mutex",
                       "handlers only call Schedule from inside a handler (documented use)"]
    # 1. the model
    r = ck.run_tlc(["engine"], "ParEngine", "ParEngine_q.cfg" if q else "ParEngine_t.cfg", workers=8 if q else 16, timeout=3000)
    if not r.ok:
        raise core.Broken("ParEngine.tla violates %s %s — the model has drifted from the code or found a new hypothesis; inspect" % (r.violated, r.error))
    # 2. hypothesis W18 from the strict cfg, reproduced on the real engine
    h = ck.run_tlc(["engine"], "ParEngine", "ParEngine_strict.cfg", workers=4, timeout=900)
    ck.note("strict phase rule on the model: %s" % ("holds" if h.ok else "violated (hypothesis W18)"))
    run_traces(ck, "w18-scenario", "ParTrace_strict.cfg", dict(scenario="w18", engine="parallel", procs=4, gated=True, policy="lowkey", min_first=2),
               key_extra={"class": "primary_scheduled_by_same_round_secondary"})
    # 3. gated schedules on TLC-enumerated + random programs
    given = sample_programs(ck, 120 if q else 1000)
    run_traces(ck, "gated", "ParTrace_parallel.cfg", dict(engine="parallel", procs_cycle=True, gated=True, policy="random",
                                                          given=given, programs=15 if q else 150, max_events=30))
    # 3b. a controller holds the engine paused and schedules a primary event at the current instant (what monitoring2 does when it
    #     ticks a component of a paused run): the decision which round runs next must be taken after the pause, not before it
    run_traces(ck, "gated-sched-in-pause", "ParTrace_parallel.cfg", dict(engine="parallel", procs_cycle=True, gated=True, policy="random", pauses=3, sched_in_pause=True,
                                                                        given=given[:40] if q else given[:400], programs=10 if q else 100, max_events=30))
    run_traces(ck, "free-sched-in-pause", "ParTrace_parallel.cfg", dict(engine="parallel", procs_cycle=True, gated=False, spin=30, pauses=4, sched_in_pause=True,
                                                                       programs=30 if q else 300, max_events=150))
    # 4. free-running schedules
    run_traces(ck, "free", "ParTrace_parallel.cfg", dict(engine="parallel", procs_cycle=True, gated=False, spin=20,
                                                         programs=60 if q else 800, max_events=120))
