"""C23 — data movers copy exactly the requested range (spec/mem/DataMover.tla).

TLC enumerates every complete behaviour of DataMover.tla (configuration x 1..2 accepted
requests x arrival pattern) and checks the statement on the specification itself; every
behaviour is then replayed on the real data mover assembled between two ideal memory
controllers (harness driver memagents1/datamover) at two byte scales, and once more with memories that
complete requests out of issue order (interleaved controllers with different latencies / a seeded memory stub)."""
from vlib import core, memagents1

LEVEL = "model_checking"
TECHNIQUE = ("TLA+ specification of the move as one atomic range copy with a frame condition; TLC enumerates all "
             "configurations/requests in the bounds and checks ExactCopy/FifoOneAck/ConfigIndependent on the spec; "
             "each behaviour is replayed on the real mem/datamover between two idealmemcontroller instances and both "
             "memories are compared byte for byte at every acknowledgment")
LEVEL_TEXT = ("exhaustive over the bounded configuration space (sides x granularities {4,8,12,16} and {64,128,192,256} x buffer "
              "sizes x aligned addresses x sizes incl. 0 and non-multiples of either granularity, 1-2 requests queued or "
              "sequential); every case executed on the real component")
LEVEL_NOTE = ("Granularities 64/128/192/256 are reached by replaying each behaviour with a cell = 16 bytes, so sizes at that scale "
              "are multiples of 16. Memory latencies and port buffer sizes of the surrounding assembly are drawn from the "
              "seed, not enumerated. Requests queued together are judged sequentially (see assumptions).")

SCALES = (1, 16)


def _gran(c, side):
    return c["ig"] if side == "inside" else c["og"]


def max_source_span(sg, dg, size):
    """The data mover's staging window starts at the source granule that holds the next byte to write and is
    BufferSize bytes long; a source granule is read when it STARTS inside the window. For a destination write
    [w, w+n) (n = one destination granule, or what remains of the range) the last source granule it needs starts
    floor((w+n-1)/sg)*sg - floor(w/sg)*sg bytes after the window's start. The largest such distance over the writes
    of a move is what the buffer size must exceed for the move to complete."""
    span, w = 0, 0
    while w < size:
        n = min(dg, size - w)
        span = max(span, (w + n - 1) // sg * sg - w // sg * sg)
        w += dg
    return span


def features(c, req_index):
    q = c["reqs"][req_index]
    sg, dg = _gran(c, q["src"]), _gran(c, q["dst"])
    overlap = q["src"] == q["dst"] and q["sa"] < q["da"] < q["sa"] + q["size"]
    if q["size"] > 0 and c["buf"] <= max_source_span(sg, dg, q["size"]):
        cls = "buffer_smaller_than_needed_for_one_dst_granule"
    elif q["size"] % dg != 0:
        cls = "size_not_multiple_of_dst_granularity"
    elif q["size"] % sg != 0:
        cls = "size_not_multiple_of_src_granularity"
    elif overlap:
        cls = "forward_overlapping_same_side_ranges"
    else:
        cls = "none"
    return cls, sg, dg


def nontrivial(c):
    """a case that the package's own tests do not cover: differing granularities, a size that is not a
    multiple of a granularity, a same-side move, a small buffer, or more than one request"""
    if len(c["reqs"]) > 1 or c["ig"] != c["og"]:
        return True
    return any(q["size"] % c["ig"] != 0 or q["src"] == q["dst"] or c["buf"] < q["size"] for q in c["reqs"])


def hangs_by_rule(c):
    """a request of the case falls into the recorded small-buffer class"""
    return any(features(c, i)[0] == "buffer_smaller_than_needed_for_one_dst_granule" for i in range(len(c["reqs"])))


def run(ck):
    quick = ck.tier == "quick"
    cfg = "DataMover_q.cfg" if quick else "DataMover_t.cfg"
    r = ck.run_tlc(["mem"], "DataMover", cfg, workers=4 if quick else 6, timeout=240 if quick else 900)
    if not r.ok:
        raise core.Broken("DataMover.tla/%s fails on its own: %s %s\n%s" % (cfg, r.violated, r.error, "\n".join(r.lines[-30:])))
    specs = r.tagged["CASE"]
    if len(specs) < 1000:
        raise core.Broken("only %d behaviours emitted by DataMover/%s" % (len(specs), cfg))
    ck.note("TLC: %d distinct states, %d complete behaviours in %.1fs" % (r.distinct, len(specs), r.wall))

    ck.cov["exhaustive"] = True
    ck.cov["rule"] = ("Every complete behaviour of DataMover.tla in the configured bounds (inside/outside granularity, buffer "
                      "sizes incl. ones smaller than a granule and non-multiples of either granularity, all four side pairs, aligned addresses, sizes incl. 0 and non-multiples, "
                      "1-2 requests queued together or one after the other) is run on the real data mover at byte scales 1 "
                      "and 16 with in-order memories and once with out-of-order memories; at the instant each acknowledgment is sent all 2x8192 bytes of both memories are compared with "
                      "the specification's memories; acknowledgments must be one per request, in arrival order, RspTo = request "
                      "ID; memory must not change after the last acknowledgment. Non-trivial = differing granularities, size "
                      "not a multiple of a granularity, same-side move, buffer smaller than the range, or two requests.")
    ck.assumptions += [
        "accepted configuration: granularities > 0 and addresses aligned to their side's granularity (the mover panics "
        "otherwise); EVERY buffer size is accepted (the builder validates nothing), including 0, sizes below either "
        "granule and non-multiples of either granularity",
        "a request queued behind others is judged against the memories as the earlier moves leave them (FIFO, one at a "
        "time); 'when the move was requested' and 'when its turn comes' differ only if an earlier queued move writes the "
        "later one's source range",
        "each side is served by one idealmemcontroller (in order), by two idealmemcontrollers with different latencies "
        "behind an interleaved mapper (granule by granule), or by the harness's memory stub with seeded per-request "
        "delays (completions permuted); every memory keeps the arrival order of accesses to overlapping bytes; "
        "latencies, delays and port buffers are drawn from the seed",
        "forward-overlapping same-side requests are generated only with sizes that are multiples of the destination "
        "granularity, to keep the recorded defect classes separable",
    ]

    # ---- build the concrete runs
    # per behaviour: both byte scales with in-order ideal controllers on both sides, plus one run (seeded scale) in which
    # at least one side completes requests out of issue order (two interleaved controllers with different latencies, or
    # the harness's memory stub with seeded per-request delays)
    runs = []
    for c in specs:
        variants = [(scale, "ideal", "ideal") for scale in SCALES]
        kinds = ck.rng.choice((("stub", "stub"), ("interleaved", "interleaved"), ("stub", "ideal"), ("ideal", "stub"),
                               ("interleaved", "stub"), ("stub", "interleaved"), ("interleaved", "ideal"), ("ideal", "interleaved")))
        variants.append((ck.rng.choice(SCALES),) + kinds)
        for scale, mem_in, mem_out in variants:
            k = dict(c)
            k["scale"] = scale
            k["seed"] = ck.seed * 1000 + ck.rng.randrange(1000)
            k["lat_in"] = ck.rng.choice((1, 2, 3, 5))
            k["lat_out"] = ck.rng.choice((1, 2, 3, 5))
            k["lat2_in"] = ck.rng.choice((1, 2, 4, 7, 11))
            k["lat2_out"] = ck.rng.choice((1, 2, 4, 7, 11))
            k["stub_max"] = ck.rng.choice((3, 9, 20))
            k["mem_in"], k["mem_out"] = mem_in, mem_out
            k["port_buf"] = ck.rng.choice((1, 2, 4, 8))
            runs.append(k)
    results = memagents1.run_cases(ck, "datamover", runs)

    acks = passed = max_cycles = rule_but_passed = 0
    per_class = {}
    seen_nt = set()
    for c, res in zip(runs, results):
        if res.get("skipped"):
            continue
        acks += res.get("acks", 0)
        if nontrivial(c):
            seen_nt.add(core.canon([c["ig"], c["og"], c["buf"], c["reqs"], c["scale"]]))
        f = res.get("failure")
        if not f:
            passed += 1
            max_cycles = max(max_cycles, res["cycles"])
            rule_but_passed += hangs_by_rule(c)
            if res["acks"] != len(c["reqs"]):
                raise core.Broken("driver inconsistency: pass with %d acks for %d requests" % (res["acks"], len(c["reqs"])))
            continue
        cls, sg, dg = features(c, f["req"])
        q = c["reqs"][f["req"]]
        key = {"class": cls, "symptom": f["symptom"]}
        per_class[(cls, f["symptom"])] = per_class.get((cls, f["symptom"]), 0) + 1
        s = c["scale"]
        desc = ("data mover ig=%d og=%d buffer=%d (inside memory %s, outside memory %s): request #%d %s[%d..+%d) -> %s[%d..+%d) (src granularity %d, dst granularity %d): %s"
                % (c["ig"] * s, c["og"] * s, c["buf"] * s, c["mem_in"], c["mem_out"], f["req"], q["src"], q["sa"] * s, q["size"] * s, q["dst"], q["da"] * s,
                   q["size"] * s, sg * s, dg * s, f["symptom"]))
        if f["symptom"] == "never_acknowledged":
            desc += " (%s)" % f.get("detail", "")
        else:
            desc += " (wrong in range %d, changed right after range %d, changed elsewhere %d; %s) %s" % (
                f.get("wrong_in_range", 0), f.get("after_range", 0), f.get("elsewhere", 0), ", ".join(f.get("first") or []), f.get("detail", ""))
        ck.report(key, desc, {"driver": "memagents1/datamover", "input": {"cases": [c]}, "failure": f})
    if passed == 0 and not ck.violations:
        raise core.Broken("no behaviour passed on the real data mover: the driver assembly is broken")
    ck.cov["traces_validated_against_impl"] += len(runs)
    ck.cov["evaluations"] += acks
    ck.cov["distinct_nontrivial"] += len(seen_nt)
    ck.cov["runs_passed"] = passed
    # 0 means the recorded small-buffer class is exactly the set of moves that hang, so it cannot mask a larger one
    ck.cov["runs_in_small_buffer_class_that_passed"] = rule_but_passed
    ck.cov["max_cycles_of_a_passing_run"] = max_cycles   # runs are cut off at 3000 cycles
    ck.cov["failures_by_class"] = {"%s/%s" % k: v for k, v in sorted(per_class.items())}
    for c in (runs[0], runs[len(runs) // 2], runs[-1]):
        ck.sample({"ig": c["ig"], "og": c["og"], "buf": c["buf"], "scale": c["scale"], "reqs": c["reqs"],
                   "lat": [c["lat_in"], c["lat_out"]], "port_buf": c["port_buf"], "memories": [c["mem_in"], c["mem_out"]]})
    ck.cov["runs_with_out_of_order_memory"] = sum(1 for c in runs if (c["mem_in"], c["mem_out"]) != ("ideal", "ideal"))
    ck.note("replayed %d runs (%d behaviours x (%d scales in-order + 1 out-of-order memory)): %d passed, failures by class %s" % (
        len(runs), len(specs), len(SCALES), passed, ck.cov["failures_by_class"]))
