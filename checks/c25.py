"""C25 — address translation stacks translate correctly (spec/vm/Translation.tla, TransTrace.tla)."""
import concurrent.futures, json
from vlib import core, transcheck

LEVEL = "exploration"
TECHNIQUE = ("TLA+ model of a translation stack (page table, outstanding requests, stale copies per caching level, "
             "Pause/Invalidate/acknowledge/Enable) model-checked with TLC; its definitions are the oracle of a TLC trace "
             "monitor run over generated real stacks (address translator, TLBs, MMU cache, GMMU, MMU, memory) driven with "
             "traffic, page-table updates and control-protocol invalidation histories")
LEVEL_TEXT = ("Translation.tla is explored exhaustively for 2 pages x 2 mappings x 2 caching levels (every request is answered "
              "at most once; a request issued after a replaced mapping was invalidated and acknowledged at every level is never "
              "answered with it; the current mapping is always a legal answer; control configurations show old answers are "
              "admitted before the acknowledgement and disabled by it). The same definitions (TranslationDefs.tla) judge every "
              "response seen at the Top port of every translator of seeded random stacks: physical page legal for the request, "
              "offset preserved, addressed to the requester, exactly one per request, none owed at quiescence; the physical "
              "address of memory accesses is read back from address signatures / write tags at the memory. Behaviours simulated "
              "from the model are replayed as programs on a small fixed stack.")
LEVEL_NOTE = ("The implementation is explored by seeded generation only (shapes, geometries, latencies, page sizes 4K/64K, PIDs "
              "incl. 0, access patterns, idle/drain/pause histories); the model is exhaustive only within its bounds. A request "
              "outstanding while the page table changes may be answered with either mapping. All components run at 1 GHz on the "
              "serial engine; the MMU cache has a single upstream requester by construction.")

SCRIPT_AGENT = {"AT": "A0", "L2": "T0", "MMU": "T1"}


def script_case(ck, beh, i):
    """One simulated behaviour of Translation.tla -> a program on a small real stack whose caches are
    smaller than the working set (L1: one entry)."""
    rng = ck.rng
    stack = dict(name="M%d" % i, log2_page=rng.choice([12, 16]),
                 at=dict(width=rng.choice([1, 2]), buf=2, mem_latency=rng.choice([1, 3, 10]), mem_width=2, mem_buf=2),
                 tlbs=[dict(sets=1, ways=rng.choice([1, 2]), mshr=rng.choice([1, 2]), latency=rng.choice([2, 3]), width=rng.choice([1, 2]), buf=2),
                       dict(sets=rng.choice([1, 2]), ways=rng.choice([1, 2]), mshr=2, latency=rng.choice([2, 4]), width=2, buf=2)],
                 mmu=dict(latency=rng.choice([0, 2, 8]), max_in_flight=rng.choice([1, 4]), buf=2), num_ppages=8,
                 agents=[dict(name="A0", at="AT", window=4, buf=2), dict(name="T0", at="L2", window=4, buf=2),
                         dict(name="T1", at="MMU", window=4, buf=2)])
    page = 1 << stack["log2_page"]
    prog = [dict(op="map", pid=p, vpn=v, ppn=v, dev=1) for p in (1, 2) for v in (1, 2)]
    paused = []
    for a in beh:
        op = a["op"]
        if op == "req":
            acc = dict(pid=a["pid"], vpn=a["vpn"], off=0)
            if a["at"] == "AT":
                acc["write"] = rng.random() < 0.3
                acc["off"] = rng.randrange(page // 16) * 8 + (page // 2 if acc["write"] else 0)
            prog.append(dict(op="traffic", agent=SCRIPT_AGENT[a["at"]], accesses=[acc]))
            prog.append(dict(op="runfor", cycles=rng.randrange(4)))
        elif op == "ans":
            prog.append(dict(op="runfor", cycles=1 + rng.randrange(12)))
        elif op == "map":
            prog.append(dict(op="map", pid=a["pid"], vpn=a["vpn"], ppn=a["ppn"], dev=1))
        elif op == "pause":
            prog.append(dict(op="ctrl", level=a["lv"], cmd="pause"))
            paused.append(a["lv"])
        elif op == "inv":
            prog.append(dict(op="ctrl", level=a["lv"], cmd="inv", pid=a["pid"], vpns=a["vpns"]))
        elif op == "enable":
            prog.append(dict(op="ctrl", level=a["lv"], cmd="enable"))
            paused.remove(a["lv"])
    for lv in sorted(paused, reverse=True):
        prog.append(dict(op="ctrl", level=lv, cmd="enable"))
    prog.append(dict(op="quiesce"))
    return dict(stack=stack, program=prog, tags=dict(flavour="script", modes=["script"]))


def minimal_cases():
    """The smallest stacks and programs that exhibit each suspected defect (deterministic, both tiers), plus a
    sweep of the moment at which a TLB with a miss outstanding is paused for an invalidation."""
    tlb = dict(sets=1, ways=2, mshr=2, latency=2, width=1, buf=2)
    walker = dict(latency=3, max_in_flight=2, buf=2)
    t0 = [dict(name="T0", at="L1", window=4, buf=2)]
    one = [dict(pid=1, vpn=1, off=0)]

    def case(name, stack, prog):
        return dict(stack=dict(dict(name=name, log2_page=12, num_ppages=8), **stack),
                    program=[dict(op="map", pid=1, vpn=1, ppn=1, dev=1)] + prog, tags=dict(flavour="minimal:" + name))
    cases = [
        case("Lat1", dict(tlbs=[dict(tlb, latency=1)], mmu=walker, agents=t0),
             [dict(op="traffic", agent="T0", accesses=one), dict(op="quiesce")]),
        case("MMUCache", dict(tlbs=[tlb], mmu_cache=dict(levels=2, blocks=2, width=1, buf=2, latency_per_level=1), mmu=walker, agents=t0),
             [dict(op="traffic", agent="T0", accesses=one), dict(op="quiesce")]),
        case("GMMURemote", dict(tlbs=[], gmmu=dict(walker, device_id=1), mmu=walker, agents=[dict(name="T0", at="GM", window=4, buf=2)]),
             [dict(op="map", pid=1, vpn=2, ppn=2, dev=2), dict(op="traffic", agent="T0", accesses=[dict(pid=1, vpn=2, off=0)]),
              dict(op="quiesce")]),
        case("Unaligned", dict(tlbs=[tlb], mmu=walker, agents=t0),
             [dict(op="traffic", agent="T0", accesses=[dict(pid=1, vpn=1, off=8)]), dict(op="quiesce")]),
    ]
    for n in range(0, 14):
        cases.append(case("PauseWindow%d" % n, dict(tlbs=[tlb], mmu=walker, agents=t0), [
            dict(op="traffic", agent="T0", accesses=one), dict(op="runfor", cycles=n),
            dict(op="ctrl", level="L1", cmd="pause"), dict(op="map", pid=1, vpn=1, ppn=2, dev=1),
            dict(op="ctrl", level="L1", cmd="inv", pid=1, vpns=[1]), dict(op="ctrl", level="L1", cmd="enable"),
            dict(op="run"), dict(op="traffic", agent="T0", accesses=one), dict(op="quiesce")]))
    return cases


def models(ck, thorough):
    """Translation.tla: exhaustive run + control configurations, concurrently. Returns a list of problems."""
    jobs = [("Translation_t.cfg" if thorough else "Translation_q.cfg", None),
            ("Translation_ctl_stale.cfg", "NeverNonCurrent"), ("Translation_ctl_bite.cfg", "NoFreshRequestOnDeadPage")]
    if thorough:
        jobs.append(("Translation_ctl_noack.cfg", None))

    def one(job):
        cfg, expect = job
        return job, core.tlc(["vm"], "Translation", cfg, workers=6 if cfg.endswith(("_t.cfg", "_q.cfg")) else 3, timeout=7200)
    with concurrent.futures.ThreadPoolExecutor(max_workers=len(jobs)) as ex:
        res = list(ex.map(one, jobs))
    return res


def account_models(ck, res):
    for (cfg, expect), r in res:
        ck.cov["states"] += r.distinct
        ck.cov["transitions"] += r.generated
        ck.tlc_runs.append(dict(module="Translation", cfg=cfg, expected_violation=expect, **r.summary()))
        if expect is None and not r.ok:
            raise core.Broken("Translation/%s fails its own properties: %s %s" % (cfg, r.violated, r.error))
        if expect is not None and r.violated != expect:
            raise core.Broken("control configuration %s: expected %s to be violated (non-vacuity), got ok=%s violated=%s" % (
                cfg, expect, r.ok, r.violated))
    ck.note("Translation.tla: " + "; ".join("%s %d states%s" % (cfg, r.distinct, (" (%s violated as intended)" % e) if e else "")
                                           for (cfg, e), r in res))


def scripts(ck, n, depth):
    """Behaviours of Translation.tla drawn by TLC's simulator (the invariants are checked on them too)."""
    return core.tlc(["vm"], "Translation", "Translation_sim.cfg", workers=1, timeout=900, simulate=n, depth=depth,
                    seed=ck.seed * 7919 + 25)


def account_scripts(ck, r, n):
    ck.tlc_runs.append(dict(module="Translation", cfg="Translation_sim.cfg", simulated=True, **r.summary()))
    if r.violated or r.error:
        raise core.Broken("simulation of Translation.tla violates %s %s" % (r.violated, r.error))
    seen, out = set(), []
    for b in r.tagged["BEHAVIOUR"]:
        k = core.canon(b)
        if k not in seen:
            seen.add(k)
            out.append(b)
    if not out:
        raise core.Broken("no behaviours simulated from Translation.tla")
    return out[:n]


def judge(ck, label, reports, records, infos, payload):
    """Report root-cause records; count what was exercised."""
    nontrivial = 0
    for rep in reports:
        i = rep["index"]
        res = rep["result"]
        roots, cons = transcheck.attribute(rep, records.get(i, []))
        st = infos.get(i) or {}
        if st.get("after_change", 0) > 0 and not roots:
            nontrivial += 1
        ck.cov["answers_checked"] = ck.cov.get("answers_checked", 0) + st.get("answers", 0)
        ck.cov["answers_after_page_table_change"] = ck.cov.get("answers_after_page_table_change", 0) + st.get("after_change", 0)
        ck.cov["acknowledged_invalidations"] = ck.cov.get("acknowledged_invalidations", 0) + st.get("inv_acks", 0)
        ck.cov["consequential_records"] = ck.cov.get("consequential_records", 0) + len(cons)
        replay = {"driver": "vmstack_trace", "shape": transcheck.shape(rep), "stack": rep["stack"], "tags": rep.get("tags"),
                  "stuck": res.get("stuck")}
        if "cases" in payload:
            replay["input"] = dict(seed=payload["seed"], cases=[payload["cases"][i]])
        else:
            replay["input"], replay["case_index"] = payload, i
        seen = set()
        for c in roots:
            k = core.canon(c["key"])
            if k in seen:
                continue
            seen.add(k)
            n = sum(1 for o in roots if core.canon(o["key"]) == k)
            ck.report(c["key"], "%s: case %d (%s): rule %s failed at level %s (%s), %d record(s); first: %s; work still held: %s" % (
                label, i, transcheck.shape(rep), c["class"], c["d"]["lv"], c["key"]["kind"], n, json.dumps(c["d"])[:700],
                json.dumps(res.get("stuck"))), dict(replay, case_record=c))
        hang = any(c["class"] in transcheck.HANG for c in roots + cons)
        if res.get("panic"):
            ck.report({"class": "panic", "kind": "n/a", "cause": res["panic"][:60], "quiesce": "n/a", "page": "n/a"},
                      "%s: case %d (%s) panicked: %s" % (label, i, transcheck.shape(rep), res["panic"]), replay)
        for b in (res.get("bad") or [])[:3]:
            if not roots:
                ck.report({"class": "observation", "kind": "n/a", "cause": b[:40], "quiesce": "n/a", "page": "n/a"},
                          "%s: case %d (%s): %s" % (label, i, transcheck.shape(rep), b), replay)
        if res.get("aborted") and not hang:
            raise core.Broken("%s: case %d (%s): %s although no translator owed an answer — the history could not be driven" % (
                label, i, transcheck.shape(rep), res["aborted"]))
    ck.cov["distinct_nontrivial"] += nontrivial


def run(ck):
    thorough = ck.tier != "quick"
    ck.cov["rule"] = ("(1) Translation.tla model-checked within the cfg bounds, with control configurations. (2) seeded random stacks "
                      "(shape, geometry, latencies, page size, processes, page tables) run programs of update/invalidate rounds "
                      "(idle: traffic finished, caching levels paused; drain: traffic in flight, every level drained top-down; "
                      "pause: traffic in flight, caching levels only paused), invalidations filtered by nothing / addresses / "
                      "process+addresses; every request/response at every Top port and every control request/acknowledgement is "
                      "validated by TLC against TransTrace.tla; a level owing answers because a lower level owes answers is a "
                      "consequence and only the lowest failing level is reported. (3) behaviours simulated from Translation.tla "
                      "replayed on a small stack. (4) probes of suspected defects (TLB latency 1, MMU cache, GMMU remote pages, "
                      "addresses that are not page-aligned sent to a TLB; a sweep of the instant at which a TLB with a miss "
                      "outstanding is paused for an invalidation), random and as minimal deterministic cases. Non-trivial = a case without rule failure in which "
                      "at least one answer had to use a mapping installed by a page-table change.")
    ck.assumptions += ["address translator, TLBs, MMU cache, MMU and page table configured with the same page size",
                       "requests only for mapped pages (the MMU panics on an unmapped page without auto-allocation)",
                       "a request outstanding while the page table changes may be answered with the old or the new mapping",
                       "invalidation is sent to every caching level while all of them are stopped, and they are re-enabled bottom-up",
                       "reads use the lower half of a page, tagged writes the upper half (a read never returns a write tag)"]
    if thorough:
        main, pause, probes, nscripts, depth, bounds = 60, 12, 3, 600, 24, dict(accesses=2000, rounds=10)
    else:
        main, pause, probes, nscripts, depth, bounds = 6, 2, 1, 60, 24, dict(accesses=300, rounds=3)
    small = dict(accesses=60, rounds=1)
    with concurrent.futures.ThreadPoolExecutor(max_workers=2) as bg:
        fm = bg.submit(models, ck, thorough)
        fs = bg.submit(scripts, ck, nscripts, depth)
        payload = dict(seed=ck.seed * 1000 + 25, echo_cases=False, random=[
            dict(n=main, flavour="", modes=["idle", "drain"], bounds=bounds),
            dict(n=pause, flavour="nomc", modes=["pause"], bounds=bounds),
            dict(n=probes, flavour="lat1", modes=["idle"], bounds=small),
            dict(n=probes, flavour="mc", modes=["idle", "drain"], bounds=small),
            dict(n=probes, flavour="gmmu-remote", modes=["idle"], bounds=small),
            dict(n=probes, flavour="unaligned", modes=["idle"], bounds=small)])
        reports, records, infos, out = transcheck.run_cases(ck, payload, "random stacks", chunks=16 if thorough else 3)
        judge(ck, "random stacks", reports, records, infos, payload)
        if out.get("sample"):
            ck.sample({"trace_excerpt": out["sample"][:16]})
        for rep in reports[:3]:
            ck.sample({"stack": transcheck.shape(rep), "log2_page": rep["stack"]["log2_page"], "tlbs": rep["stack"].get("tlbs"),
                       "requests": rep["result"]["requests"], "counters": infos.get(rep["index"])})
        behs = account_scripts(ck, fs.result(), nscripts)
        cases = [script_case(ck, b, i) for i, b in enumerate(behs)]
        nb = len(cases)
        cases += minimal_cases()
        payload = dict(seed=ck.seed, cases=cases)
        reports, records, infos, out = transcheck.run_cases(ck, payload, "model behaviours + minimal cases", chunks=6 if thorough else 2)
        judge(ck, "model behaviours", reports[:nb], records, infos, payload)
        judge(ck, "minimal cases", reports[nb:], records, infos, payload)
        ck.sample({"model_behaviour": behs[0]})
        account_models(ck, fm.result())
    ck.cov["exhaustive"] = False
