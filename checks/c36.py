"""C36 — the trace database records exactly the traced tasks (spec/tracing/DBTracer.tla)."""
import collections

from vlib import core

LEVEL = "model_checking"
TECHNIQUE = ("TLA+ specification of the database contents as sets defined from the event stream (tracing windows, tasks "
             "whose interval meets a window and that ended before Terminate, their tags, one milestone per instant, one "
             "segment per window), model-checked by TLC over every interleaving of task events with StartTracing / "
             "StopTracing / Terminate within the bounds; every stream is replayed on the real tracing.DBTracer over a "
             "recording DataRecorder stub and, for a seeded sample, over the real SQLite recorder read back with the real reader; "
             "two goroutines: neighbouring calls A, B of a stream (same instant) are run concurrently under a gate-controlled "
             "schedule — the DataRecorder handed to the tracer parks A at a chosen InsertData / Flush call (every insert of an "
             "EndTask, the segment insert and the flushes of StopTracing / Terminate), B is started and classified (blocked / "
             "completed while A is parked), A is released — and the flushed rows must equal the specification's sets for the "
             "stream with A;B or with B;A")
LEVEL_TEXT = ("Exhaustive within bounds: all interleavings of <=3 tasks with <=2 tracing windows and one unmatched "
              "StopTracing; <=2 tasks with tags and <=3 milestones and one window; tags / milestones that name a task before "
              "it starts; each with distinct event times ('step' clock) and, in the same-instant profiles, with the clock "
              "free to stay put before ANY event (times 0..2, or frozen), so starts, ends, riders and Start/StopTracing "
              "coincide in time in every order. The verdict is the rows the real tracer wrote.")
LEVEL_NOTE = ("Bounded (profiles in DBTracer.tla, selected by the cfg files). 'Running while tracing was on' is read by event "
              "order (a zero-length overlap at a shared instant counts iff the task is running when tracing is switched on, "
              "or starts while it is on); TLC checks that this reading is bracketed by the timestamp readings. Not explored "
              "because the statement does not fix the meaning: StartTracing while tracing is on, tags/milestones of ended "
              "tasks, calls after Terminate. The SQLite read-back runs on a seeded sample (100 streams quick, 1500 "
              "thorough); the stub backend sees every stream. Two-goroutine schedules: a seeded sample spread evenly over the shapes "
              "(A kind x gate x B kind; 600 quick, 9000 thorough) of all pairs whose two orders are streams of the model (free-clock "
              "profiles; Terminate || EndTask in both roles), one gate per run, over a buffering stub whose database is what was "
              "inserted before the last Flush; only interleavings reachable by parking inside the recorder are controlled. "
              "TLC and Go are trusted.")

OPS = {0: "start", 1: "end", 2: "tag", 3: "milestone", 4: "StartTracing", 5: "StopTracing", 6: "Terminate"}

# one TLC run per tier; the cfg lists the bound profiles (defined in DBTracer.tla) it explores
CFG = {"quick": "DBTracer_q.cfg", "thorough": "DBTracer_t.cfg"}


def pretty(h):
    out = []
    for op, task, time, x in h:
        if op <= 3:
            out.append("%s(T%d,t=%d%s)" % (OPS[op], task, time, (",#%d" % x) if op >= 2 else ""))
        else:
            out.append("%s(t=%d)%s" % (OPS[op], time, " [tracing is off]" if op == 5 and x == 1 else ""))
    return out


def early_tasks(h):
    """IDs (as the driver assigns them: 100 + task) of tasks named by a tag/milestone before they started."""
    started, early = set(), set()
    for op, task, time, x in h:
        if op == 0:
            started.add(task)
        elif op in (2, 3) and task not in started:
            early.add(100 + task)
    return early


def bag_minus(a, b):
    b = list(b)
    out = []
    for x in a:
        if x in b:
            b.remove(x)
        else:
            out.append(x)
    return out


def classify(b, m):
    table = m["table"]
    cls = "other"
    want, got = m.get("want"), m.get("got")
    if table == "segment":
        want, got = want or [], got or []
        stray = [float(e[2]) for e in b["h"] if e[0] == 5 and e[3] == 1]
        extra, missing = bag_minus(got, want), bag_minus(want, got)
        # signature of W16: nothing missing, one additional segment per unmatched StopTracing, ending at its time
        if stray and not missing and extra and len(extra) <= len(stray) and all(x["End"] in stray for x in extra):
            cls = "stop_without_start"
    elif table in ("trace", "tag", "milestone"):
        early = early_tasks(b["h"])
        if early and table != "milestone":
            want, got = want or [], got or []
            extra, missing = bag_minus(got, want), bag_minus(want, got)
            owner = (lambda r: r["ID"]) if table == "trace" else (lambda r: r["TaskID"])
            if extra and not missing and all(owner(r) in early for r in extra):
                cls = "mentioned_before_start"
        elif early and table == "milestone":
            got = got or []
            wanted_tasks = set(100 + g[0] for g in (want or []))
            if any(r["TaskID"] in early and r["TaskID"] not in wanted_tasks for r in got):
                cls = "mentioned_before_start"
    return {"table": table, "class": cls}


def replay(ck, binary, behaviours, backend, label, batch=5000):
    steps = rows = 0
    mism = []
    for i in range(0, len(behaviours), batch):
        out = core.harness(binary, "dbtracer", {"backend": backend, "behaviours": behaviours[i:i + batch]}, timeout=1500)
        steps += out["steps"]
        rows += out["rows"]
        for m in out["mismatches"] or []:
            m["behaviour"] += i
            mism.append(m)
    ck.cov["traces_validated_against_impl"] += len(behaviours)
    ck.cov["evaluations"] += steps
    new = 0
    for m in mism:
        b = behaviours[m["behaviour"]]
        key = classify(b, m)
        key["backend"] = backend
        desc = "%s table after %s: specification %s, database %s (%s backend)" % (
            m["table"], " ".join(pretty(b["h"])), core.canon(m.get("want")), core.canon(m.get("got")), backend)
        rep = {"driver": "dbtracer", "backend": backend, "behaviours": [b], "table": m["table"], "want": m.get("want"),
               "got": m.get("got"), "events": pretty(b["h"])}
        if ck.report(key, desc, rep) == "new":
            new += 1
    ck.note("%s: %d streams replayed on DBTracer over the %s backend, %d events, %d rows compared, %d mismatches (%d not a recorded finding)" % (
        label, len(behaviours), backend, steps, rows, len(mism), new))
    return mism


def nontrivial(b):
    """A stream in which some task is recorded and some started task is not, or with riders, two windows or an unmatched stop."""
    h = b["h"]
    started = set(e[1] for e in h if e[0] == 0)
    rec = set(t[0] for t in b["tasks"])
    return (rec and started - rec) or any(e[0] in (2, 3) for e in h) or sum(1 for e in h if e[0] == 4) > 1 or \
        any(e[0] == 5 and e[3] == 1 for e in h) or any(h[i][2] == h[i + 1][2] for i in range(len(h) - 1))


# ---- two goroutines: gate-controlled schedules of two tracer calls (driver dbtracerconc)

def restamp(h):
    """The stream h as a sequence of CALLS: the x of a StopTracing (1 = tracing is off) is recomputed from the order."""
    out, on = [], False
    for op, task, time, x in h:
        if op == 4:
            on = True
        elif op == 5:
            x = 0 if on else 1
            on = False
        elif op == 6:
            on = False
        out.append([op, task, time, x])
    return out


def tracing_on_before(h, i):
    on = False
    for op, task, time, x in h[:i]:
        if op == 4:
            on = True
        elif op in (5, 6):
            on = False
    return on


def expected_of(b, remap=None):
    """The sets of a BEHAVIOUR as the driver's alternative; remap renames stream positions (row ids of tags / milestones)."""
    r = remap or {}
    return {"h": b["h"], "tasks": b["tasks"], "segs": b["segs"],
            "tags": [[r.get(t[0], t[0])] + list(t[1:]) for t in b["tags"]],
            "ms": [[g[0], g[1], [r.get(q, q) for q in g[2]]] for g in b["ms"]]}


def inserts_of_end(b, task):
    """How many rows EndTask(task) writes in stream b: the task row, one row per milestone instant, one per tag."""
    if not any(t[0] == task for t in b["tasks"]):
        return 0
    return 1 + sum(1 for g in b["ms"] if g[0] == task) + sum(1 for t in b["tags"] if t[1] == task)


def conc_cases(index):
    """Every (stream, neighbouring pair A,B at one instant) such that both orders are streams of the model, A writes
    to the recorder (EndTask of a recorded task, StopTracing of an open window, Terminate), with every gate inside A."""
    cases, skipped = [], 0
    for key, b in index.items():
        h = b["h"]
        n = len(h)
        for i in range(n - 1):
            A, B = h[i], h[i + 1]
            if A[2] != B[2]:
                continue
            if A[0] == 1:
                gates = [("insert", k) for k in range(inserts_of_end(b, A[1]))]
            elif A[0] == 5 and A[3] == 0:
                gates = [("insert", 0), ("flush", 0)]
            else:
                continue
            if not gates:
                continue
            if B[0] == 6:
                swapped, remap, suffix = h[:i] + [B], None, []
            else:
                swapped = restamp(h[:i] + [B, A] + h[i + 2:])
                remap = {i + 1: i + 2, i + 2: i + 1}
                suffix = h[i + 2:]
            other = index.get(core.canon(swapped))
            if other is None:
                skipped += 1      # the other order is not a stream of the model (meaning not fixed by the statement)
                continue
            alts = [expected_of(b), expected_of(other, remap)]
            for kind, k in gates:
                cases.append({"prefix": h[:i], "a": A, "b": B, "suffix": suffix, "gate": {"kind": kind, "k": k}, "alts": alts,
                              "riders": len(gates) > 1 and A[0] == 1})
        # Terminate as the parked call, EndTask racing with it
        if n >= 2 and h[-2][0] == 1 and h[-2][2] == h[-1][2]:
            other = index.get(core.canon(h[:-2] + [h[-1]]))
            if other is not None:
                gates = [("insert", 0), ("flush", 0), ("flush", 1)] if tracing_on_before(h, n - 1) else [("flush", 0)]
                alts = [expected_of(b), expected_of(other)]
                for kind, k in gates:
                    cases.append({"prefix": h[:-2], "a": h[-1], "b": h[-2], "suffix": [], "gate": {"kind": kind, "k": k},
                                  "alts": alts, "riders": inserts_of_end(b, h[-2][1]) > 1})
    return cases, skipped


def conc(ck, binary, index, quick):
    cases, skipped = conc_cases(index)
    if not cases:
        raise core.Broken("no two-call schedules could be derived from the streams of the model")
    # a seeded sample, spread evenly over the shapes (A kind, gate, B kind, riders or not)
    shapes = {}
    for c in cases:
        shapes.setdefault((c["a"][0], c["gate"]["kind"], c["gate"]["k"], c["b"][0], c["riders"]), []).append(c)
    budget = 600 if quick else 9000
    for k in shapes:
        ck.rng.shuffle(shapes[k])
    chosen, depth = [], 0
    while len(chosen) < budget and any(len(v) > depth for v in shapes.values()):
        for k in sorted(shapes):
            if len(shapes[k]) > depth and len(chosen) < budget:
                chosen.append(shapes[k][depth])
        depth += 1
    payload = [{k: v for k, v in c.items() if k != "riders"} for c in chosen]
    out = core.harness(binary, "dbtracerconc", {"cases": payload}, timeout=900)
    res = out["results"]
    if len(res) != len(chosen):
        raise core.Broken("dbtracerconc returned %d results for %d cases" % (len(res), len(chosen)))
    parked = blocked = completed = bad = 0
    kinds = collections.Counter()
    for c, r in zip(chosen, res):
        a, bb = OPS[c["a"][0]], OPS[c["b"][0]]
        kinds["%s@%s%d || %s" % (a, c["gate"]["kind"], c["gate"]["k"], bb)] += 1
        if r["parked"]:
            parked += 1
            if r["b_class"] == "blocked":
                blocked += 1
            else:
                completed += 1
        if r["alt"] >= 0 and not r.get("panic"):
            continue
        bad += 1
        sched = "%s || %s after %s, A parked at its %s #%d (%s), B %s, then %s" % (
            pretty([c["a"]])[0], pretty([c["b"]])[0], " ".join(pretty(c["prefix"])) or "nothing", c["gate"]["kind"], c["gate"]["k"],
            "parked" if r["parked"] else "never parked", r["b_class"] or "ran after A", " ".join(pretty(c["suffix"])) or "nothing")
        if r.get("panic"):
            key = {"table": "panic", "class": "two_calls", "backend": "gated-stub"}
            desc = "two concurrent tracer calls: %s: panic %s" % (sched, r["panic"])
        else:
            tables = sorted(set(t for ts in r.get("tables") or [] for t in ts)) or ["backend"]
            key = {"table": tables[0], "class": "two_calls", "backend": "gated-stub", "a": a, "b": bb,
                   "b_completed_while_a_parked": r["b_class"] == "completed"}
            desc = ("two concurrent tracer calls: %s: the database (rows flushed by the end of the run) is %s, which is what the "
                    "specification gives for neither order of the two calls (A;B: tasks %s tags %s milestones %s segments %s | B;A: tasks %s "
                    "tags %s milestones %s segments %s); %d rows were handed to the recorder after its last Flush%s" % (
                        sched, core.canon(r["got"]),
                        core.canon(c["alts"][0]["tasks"]), core.canon(c["alts"][0]["tags"]), core.canon(c["alts"][0]["ms"]), core.canon(c["alts"][0]["segs"]),
                        core.canon(c["alts"][1]["tasks"]), core.canon(c["alts"][1]["tags"]), core.canon(c["alts"][1]["ms"]), core.canon(c["alts"][1]["segs"]),
                        r["unflushed"], ("; rows of task(s) %s were split by a Flush" % r["partial"]) if r.get("partial") else ""))
        ck.report(key, desc, {"driver": "dbtracerconc", "cases": [{k: v for k, v in c.items() if k != "riders"}], "result": r})
    ck.cov["traces_validated_against_impl"] += len(chosen)
    ck.cov["evaluations"] += out["steps"]
    ck.cov["two_call_schedules"] = len(chosen)
    ck.cov["two_call_schedules_a_parked_in_recorder"] = parked
    ck.cov["two_call_schedules_b_blocked_while_a_parked"] = blocked
    ck.cov["two_call_schedules_b_completed_while_a_parked"] = completed
    ck.cov["two_call_schedule_shapes"] = dict(sorted(kinds.items()))
    ck.note("two goroutines: %d gate-controlled schedules (of %d derivable; %d pairs skipped because the other order is not a stream of "
            "the model), %d with riders; A parked inside the recorder in %d, B blocked while A was parked in %d, completed in %d; "
            "%d outcomes match neither sequential order" % (len(chosen), len(cases), skipped, sum(1 for c in chosen if c["riders"]),
                                                             parked, blocked, completed, bad))
    if parked == 0 and not ck.violations:
        raise core.Broken("call A never parked inside the recorder in %d schedules: the gate does not work" % len(chosen))
    if parked < len(chosen) and not ck.violations:
        raise core.Broken("call A did not reach its gate in %d of %d schedules although the stub replay found every row written" % (
            len(chosen) - parked, len(chosen)))


def run(ck):
    quick = ck.tier == "quick"
    cfg = CFG[ck.tier]
    binary = ck.binary("tracers")
    r = ck.run_tlc(["tracing"], "DBTracer", cfg, workers=8 if quick else 12, timeout=300 if quick else 1500, tags=("BEHAVIOUR",))
    if not r.ok:
        raise core.Broken("DBTracer/%s fails its own properties: %s %s\n%s" % (cfg, r.violated, r.error, "\n".join(r.lines[-30:])))
    allb = r.tagged["BEHAVIOUR"]
    if not allb:
        raise core.Broken("no behaviours emitted by DBTracer/%s" % cfg)
    # the profiles overlap (a stream without riders belongs to several): keep each stream once
    byprof, seen = {}, set()
    for b in allb:
        k = core.canon(b["h"])
        if k in seen:
            continue
        seen.add(k)
        byprof.setdefault(b["p"], []).append(b)
    ck.note("TLC %d states, %d terminated streams (%d distinct), %.1fs" % (r.distinct, len(allb), len(seen), r.wall))
    every = []
    nt = 0
    for label in sorted(byprof):
        bs = byprof[label]
        replay(ck, binary, bs, "stub", label)
        nt += sum(1 for b in bs if nontrivial(b))
        every.append((label, bs))
        for b in ck.rng.sample(bs, 1):
            ck.sample({"profile": label, "events": pretty(b["h"]),
                       "expected": {"tasks[id,start,end]": b["tasks"], "tags[pos,task,time,name]": b["tags"],
                                    "milestone_groups[task,time,candidates]": b["ms"], "segments[pos,open,close]": b["segs"]}})
    # real SQLite recorder + reader (one database file per stream: slow, so a seeded sample; in the thorough tier
    # half of it from the rider profile, which has the richest rows)
    pool = [b for label, bs in every for b in bs]
    if quick:
        chosen = ck.rng.sample(pool, min(100, len(pool)))
    else:
        riders = [b for label, bs in every if label == "riders1big" for b in bs]
        chosen = ck.rng.sample(riders, min(750, len(riders))) + ck.rng.sample(pool, min(750, len(pool)))
    replay(ck, binary, chosen, "sqlite", "sqlite", batch=500)
    # two goroutines: pairs of neighbouring calls of a stream, run concurrently under a gate in the recorder
    index = {}
    for b in allb:
        index.setdefault(core.canon(b["h"]), b)
    try:
        conc(ck, binary, index, quick)
    except core.Broken as e:
        if not ck.violations:
            raise
        # the sequential replay already contradicts the statement: the two-goroutine phase is not needed for the verdict
        ck.note("two goroutines: not completed (%s); the violations above stand" % str(e).strip().splitlines()[0])
    ck.cov["distinct_nontrivial"] = nt
    ck.cov["exhaustive"] = True
    ck.cov["rule"] = ("TLC enumerates every stream of the bounded model (tasks started in ID order; start/end/tag/milestone "
                      "events interleaved in every way with StartTracing, StopTracing — also while tracing is off — and a final "
                      "Terminate at every possible point; in the same-instant profiles additionally every assignment of non-decreasing "
                      "times 0..maxT to the events). Each terminated stream is one behaviour (all distinct), replayed on a "
                      "fresh DBTracer; the trace / tag / milestone / segment rows must equal the specification's sets (rows as "
                      "bags; one milestone per task and instant, any of the candidates). Non-trivial = a stream where some "
                      "started task is recorded and another is not, or with tags/milestones, two windows, an unmatched stop or two events at one instant.")
    ck.assumptions += [
        "tracing starts off and is switched only by StartTracing/StopTracing (the DBTracer has no time-range option)",
        "'running while tracing was on' is decided by the order of the calls, not by timestamps: events at one instant are still ordered",
        "same-instant profiles: the clock stays or advances by one before every event, times 0..2 (or a frozen clock); other profiles use distinct times",
        "a tracing window still open at Terminate is closed by it (segment ends at the termination time)",
        "StartTracing while tracing is on, tags/milestones after a task's end and calls after Terminate are not explored",
        "stub backend = what is handed to DataRecorder.InsertData; SQLite backend is read after Terminate and recorder Close",
        "two-goroutine schedules: the database is the rows handed to the recorder before its last Flush (Terminate flushes; rows that "
        "arrive later stay in the recorder's buffer); a call that overlaps Terminate may be ordered after it, where it has no effect",
    ]
