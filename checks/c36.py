"""C36 — the trace database records exactly the traced tasks (spec/tracing/DBTracer.tla)."""
from vlib import core

LEVEL = "model_checking"
TECHNIQUE = ("TLA+ specification of the database contents as sets defined from the event stream (tracing windows, tasks "
             "whose interval meets a window and that ended before Terminate, their tags, one milestone per instant, one "
             "segment per window), model-checked by TLC over every interleaving of task events with StartTracing / "
             "StopTracing / Terminate within the bounds; every stream is replayed on the real tracing.DBTracer over a "
             "recording DataRecorder stub and, for a seeded sample, over the real SQLite recorder read back with the real reader")
LEVEL_TEXT = ("Exhaustive within bounds: all interleavings of <=3 tasks with <=2 tracing windows and one unmatched "
              "StopTracing; <=2 tasks with tags and <=3 milestones and one window; tags / milestones that name a task before "
              "it starts; each with distinct event times ('step' clock) and, in the same-instant profiles, with the clock "
              "free to stay put before ANY event (times 0..2, or frozen), so starts, ends, riders and Start/StopTracing "
              "coincide in time in every order. The verdict is the rows the real tracer wrote.")
LEVEL_NOTE = ("Bounded (profiles in DBTracer.tla, selected by the cfg files). 'Running while tracing was on' is read by event "
              "order (a zero-length overlap at a shared instant counts iff the task is running when tracing is switched on, "
              "or starts while it is on); TLC checks that this reading is bracketed by the timestamp readings. Not explored "
              "because the statement does not fix the meaning: StartTracing while tracing is on, tags/milestones of ended "
              "tasks, calls after Terminate. The SQLite read-back runs on a seeded sample (100 streams quick, 1500 "
              "thorough); the stub backend sees every stream. TLC and Go are trusted.")

OPS = {0: "start", 1: "end", 2: "tag", 3: "milestone", 4: "StartTracing", 5: "StopTracing", 6: "Terminate"}

# one TLC run per tier; the cfg lists the bound profiles (defined in DBTracer.tla) it explores
CFG = {"quick": "DBTracer_q.cfg", "thorough": "DBTracer_t.cfg"}


def pretty(h):
    out = []
    for op, task, time, x in h:
        if op <= 3:
            out.append("%s(T%d,t=%d%s)" % (OPS[op], task, time, (",#%d" % x) if op >= 2 else ""))
        else:
            out.append("%s(t=%d)%s" % (OPS[op], time, " [tracing is off]" if op == 5 and x == 1 else ""))
    return out


def early_tasks(h):
    """IDs (as the driver assigns them: 100 + task) of tasks named by a tag/milestone before they started."""
    started, early = set(), set()
    for op, task, time, x in h:
        if op == 0:
            started.add(task)
        elif op in (2, 3) and task not in started:
            early.add(100 + task)
    return early


def bag_minus(a, b):
    b = list(b)
    out = []
    for x in a:
        if x in b:
            b.remove(x)
        else:
            out.append(x)
    return out


def classify(b, m):
    table = m["table"]
    cls = "other"
    want, got = m.get("want"), m.get("got")
    if table == "segment":
        want, got = want or [], got or []
        stray = [float(e[2]) for e in b["h"] if e[0] == 5 and e[3] == 1]
        extra, missing = bag_minus(got, want), bag_minus(want, got)
        # signature of W16: nothing missing, one additional segment per unmatched StopTracing, ending at its time
        if stray and not missing and extra and len(extra) <= len(stray) and all(x["End"] in stray for x in extra):
            cls = "stop_without_start"
    elif table in ("trace", "tag", "milestone"):
        early = early_tasks(b["h"])
        if early and table != "milestone":
            want, got = want or [], got or []
            extra, missing = bag_minus(got, want), bag_minus(want, got)
            owner = (lambda r: r["ID"]) if table == "trace" else (lambda r: r["TaskID"])
            if extra and not missing and all(owner(r) in early for r in extra):
                cls = "mentioned_before_start"
        elif early and table == "milestone":
            got = got or []
            wanted_tasks = set(100 + g[0] for g in (want or []))
            if any(r["TaskID"] in early and r["TaskID"] not in wanted_tasks for r in got):
                cls = "mentioned_before_start"
    return {"table": table, "class": cls}


def replay(ck, binary, behaviours, backend, label, batch=5000):
    steps = rows = 0
    mism = []
    for i in range(0, len(behaviours), batch):
        out = core.harness(binary, "dbtracer", {"backend": backend, "behaviours": behaviours[i:i + batch]}, timeout=1500)
        steps += out["steps"]
        rows += out["rows"]
        for m in out["mismatches"] or []:
            m["behaviour"] += i
            mism.append(m)
    ck.cov["traces_validated_against_impl"] += len(behaviours)
    ck.cov["evaluations"] += steps
    new = 0
    for m in mism:
        b = behaviours[m["behaviour"]]
        key = classify(b, m)
        key["backend"] = backend
        desc = "%s table after %s: specification %s, database %s (%s backend)" % (
            m["table"], " ".join(pretty(b["h"])), core.canon(m.get("want")), core.canon(m.get("got")), backend)
        rep = {"driver": "dbtracer", "backend": backend, "behaviours": [b], "table": m["table"], "want": m.get("want"),
               "got": m.get("got"), "events": pretty(b["h"])}
        if ck.report(key, desc, rep) == "new":
            new += 1
    ck.note("%s: %d streams replayed on DBTracer over the %s backend, %d events, %d rows compared, %d mismatches (%d not a recorded finding)" % (
        label, len(behaviours), backend, steps, rows, len(mism), new))
    return mism


def nontrivial(b):
    """A stream in which some task is recorded and some started task is not, or with riders, two windows or an unmatched stop."""
    h = b["h"]
    started = set(e[1] for e in h if e[0] == 0)
    rec = set(t[0] for t in b["tasks"])
    return (rec and started - rec) or any(e[0] in (2, 3) for e in h) or sum(1 for e in h if e[0] == 4) > 1 or \
        any(e[0] == 5 and e[3] == 1 for e in h) or any(h[i][2] == h[i + 1][2] for i in range(len(h) - 1))


def run(ck):
    quick = ck.tier == "quick"
    cfg = CFG[ck.tier]
    binary = ck.binary("tracers")
    r = ck.run_tlc(["tracing"], "DBTracer", cfg, workers=8 if quick else 12, timeout=300 if quick else 1500, tags=("BEHAVIOUR",))
    if not r.ok:
        raise core.Broken("DBTracer/%s fails its own properties: %s %s\n%s" % (cfg, r.violated, r.error, "\n".join(r.lines[-30:])))
    allb = r.tagged["BEHAVIOUR"]
    if not allb:
        raise core.Broken("no behaviours emitted by DBTracer/%s" % cfg)
    # the profiles overlap (a stream without riders belongs to several): keep each stream once
    byprof, seen = {}, set()
    for b in allb:
        k = core.canon(b["h"])
        if k in seen:
            continue
        seen.add(k)
        byprof.setdefault(b["p"], []).append(b)
    ck.note("TLC %d states, %d terminated streams (%d distinct), %.1fs" % (r.distinct, len(allb), len(seen), r.wall))
    every = []
    nt = 0
    for label in sorted(byprof):
        bs = byprof[label]
        replay(ck, binary, bs, "stub", label)
        nt += sum(1 for b in bs if nontrivial(b))
        every.append((label, bs))
        for b in ck.rng.sample(bs, 1):
            ck.sample({"profile": label, "events": pretty(b["h"]),
                       "expected": {"tasks[id,start,end]": b["tasks"], "tags[pos,task,time,name]": b["tags"],
                                    "milestone_groups[task,time,candidates]": b["ms"], "segments[pos,open,close]": b["segs"]}})
    # real SQLite recorder + reader (one database file per stream: slow, so a seeded sample; in the thorough tier
    # half of it from the rider profile, which has the richest rows)
    pool = [b for label, bs in every for b in bs]
    if quick:
        chosen = ck.rng.sample(pool, min(100, len(pool)))
    else:
        riders = [b for label, bs in every if label == "riders1big" for b in bs]
        chosen = ck.rng.sample(riders, min(750, len(riders))) + ck.rng.sample(pool, min(750, len(pool)))
    replay(ck, binary, chosen, "sqlite", "sqlite", batch=500)
    ck.cov["distinct_nontrivial"] = nt
    ck.cov["exhaustive"] = True
    ck.cov["rule"] = ("TLC enumerates every stream of the bounded model (tasks started in ID order; start/end/tag/milestone "
                      "events interleaved in every way with StartTracing, StopTracing — also while tracing is off — and a final "
                      "Terminate at every possible point; in the same-instant profiles additionally every assignment of non-decreasing "
                      "times 0..maxT to the events). Each terminated stream is one behaviour (all distinct), replayed on a "
                      "fresh DBTracer; the trace / tag / milestone / segment rows must equal the specification's sets (rows as "
                      "bags; one milestone per task and instant, any of the candidates). Non-trivial = a stream where some "
                      "started task is recorded and another is not, or with tags/milestones, two windows, an unmatched stop or two events at one instant.")
    ck.assumptions += [
        "tracing starts off and is switched only by StartTracing/StopTracing (the DBTracer has no time-range option)",
        "'running while tracing was on' is decided by the order of the calls, not by timestamps: events at one instant are still ordered",
        "same-instant profiles: the clock stays or advances by one before every event, times 0..2 (or a frozen clock); other profiles use distinct times",
        "a tracing window still open at Terminate is closed by it (segment ends at the termination time)",
        "StartTracing while tracing is on, tags/milestones after a task's end and calls after Terminate are not explored",
        "stub backend = what is handed to DataRecorder.InsertData; SQLite backend is read after Terminate and recorder Close",
    ]
