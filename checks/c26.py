"""C26 — page tables behave as a per-process map with deterministic lookups (spec/container/PageTable.tla)."""
import collections
from concurrent.futures import ThreadPoolExecutor
from vlib import core

LEVEL = "model_checking"
TECHNIQUE = ("TLC enumerates the complete bounded state graph of PageTable.tla (map semantics, reverse lookup free among "
             "the pages with that physical address); every transition is replayed on the real vm.PageTable; every history "
             "is executed several times on fresh objects in one OS process and in several OS processes and all answers "
             "the specification leaves free are compared (determinism), including before/after a checkpoint round trip")
LEVEL_TEXT = ("Explicit TLA+ specification of the map checked by TLC (type invariant, only the addressed key changes, "
              "find agrees with the map, reverse lookup sound and complete); all its transitions within the bounds "
              "replayed on the real page table (result + projected map after each step). Determinism is a property of "
              "sets of executions: decided by executing each history several times (same OS process and separate OS processes) and comparing.")
LEVEL_NOTE = ("Bounded: 2 processes x 2 virtual pages x 2 physical pages x 4 page contents (quick); 3 x 2 x 2 x 3 "
              "(thorough); with snapshots 3 x 1 x 2 x 2 (quick), 3 x 1 x 2 x 3 (thorough), one outstanding snapshot. Insert of a present key and update/remove of an absent key are misuse the statement is silent "
              "about: only 'a refused operation changes nothing' is compared there. Equality of repeated executions "
              "cannot prove determinism, it can only refute it; a nondeterministic choice that happens to agree in all "
              "the executions of every history would be missed.")

RESTORES = ("rollback", "load_into_used")
PROCESSES = 3   # separate OS processes per batch of histories
RUNS = 3        # executions on fresh objects inside the first process (the other processes execute once)
EXECUTIONS = RUNS + PROCESSES - 1


def _graph(r):
    """Merge the reverse-lookup transitions of one state (one per admissible answer) into a single
    step whose expected result is {"anyof": [...]}."""
    edges, rl = [], collections.OrderedDict()
    for e in r.tagged["EDGE"]:
        if e["a"]["op"] == "reverselookup":
            k = (core.canon(e["s"]), e["a"]["arg"])
            if k not in rl:
                rl[k] = {"s": e["s"], "t": e["t"], "a": dict(e["a"], res={"anyof": []})}
                edges.append(rl[k])
            if e["a"]["res"] not in rl[k]["a"]["res"]["anyof"]:
                rl[k]["a"]["res"]["anyof"].append(e["a"]["res"])
        else:
            edges.append(e)
    for e in rl.values():
        e["a"]["res"]["anyof"].sort(key=core.canon)
    return core.Graph(r.tagged["INIT"], edges)


def _holders(state, pa):
    return [(p + 1, v + 1) for p, row in enumerate(state["tbl"]) for v, g in enumerate(row) if g["pa"] == pa]


def run(ck):
    quick = ck.tier == "quick"
    cfg = "PageTable_q.cfg" if quick else "PageTable_t.cfg"
    r = ck.run_tlc(["container"], "PageTable", cfg, workers=4 if quick else 8, timeout=300 if quick else 900)
    if not r.ok:
        raise core.Broken("specification PageTable/%s itself fails: %s %s\n%s" % (cfg, r.violated, r.error, "\n".join(r.lines[-30:])))
    g = _graph(r)
    if not g.edges:
        raise core.Broken("no behaviours emitted by PageTable/%s" % cfg)
    # second model: the same specification with snapshots (save ... rollback into the live table /
    # load into another used table); the saved contents are part of the state, hence smaller bounds
    scfg = "PageTable_snap_q.cfg" if quick else "PageTable_snap_t.cfg"
    rs = ck.run_tlc(["container"], "PageTable", scfg, workers=4 if quick else 8, timeout=300 if quick else 900)
    if not rs.ok:
        raise core.Broken("specification PageTable/%s itself fails: %s %s\n%s" % (scfg, rs.violated, rs.error, "\n".join(rs.lines[-30:])))
    gs = _graph(rs)
    if not any(a["op"] == "rollback" for _, a, _ in gs.edges) or not any(a["op"] == "load_into_used" for _, a, _ in gs.edges):
        raise core.Broken("no rollback / load_into_used behaviours emitted by PageTable/%s" % scfg)
    ck.cov["exhaustive"] = True
    ck.cov["rule"] = ("TLC enumerates the complete state graph of PageTable.tla (NP processes x NV virtual pages x NPA physical "
                      "pages, so physical pages are shared inside and between processes; insert, update, remove, find at two "
                      "in-page offsets, reverse lookup, checkpoint save/load into a fresh table, plus refused misuse), and of the "
                      "same specification with snapshots on smaller bounds (save; keep operating; rollback = load the snapshot "
                      "into the same live table; load_into_used = load it into another table already used with other contents, "
                      "for each choice of its most recently used process); every "
                      "transition is replayed on vm.PageTable (result and the whole map via Find compared after each step; a "
                      "reverse lookup must return one of the pages with that physical address, or not-found when none), then "
                      "seeded random walks. Every history is executed %d times (%d times on fresh tables inside one OS process, and "
                      "once in each of %d further OS processes); "
                      "all reverse-lookup answers (explicit, and before/after each checkpoint round trip) must be identical "
                      "in all executions, and equal before and after the round trip. Non-trivial = distinct history with a "
                      "reverse lookup or checkpoint while a physical page is held by more than one page, or a restore of a snapshot that "
                      "differs from the current contents." % (EXECUTIONS, RUNS, PROCESSES - 1))
    ck.assumptions += ["log2 page size 12; PIDs 1..NP; page fields other than PID/VAddr/PAddr vary together (dev)",
                       "the map is observed through Find on every (process, page) after every step, visiting first the process the "
                       "history addressed last and addressing it again at the end (Find creates empty per-process tables as a side "
                       "effect in the current code)",
                       "single-threaded use of the page table"]

    walks, wl = (150, 60) if quick else (1500, 120)
    hs = g.edge_cover(rng=ck.rng) + gs.edge_cover(rng=ck.rng)
    n_cover = len(hs)
    hs += g.random_walks(ck.rng, walks, wl) + gs.random_walks(ck.rng, walks, wl)

    def shared_steps(h):
        out, cur = [], h["init"]
        for i, s in enumerate(h["steps"]):
            a = s["a"]
            if a["op"] == "reverselookup" and len(_holders(cur, a["arg"])) > 1:
                out.append(i)
            elif a["op"] == "ckpt" and any(len(_holders(cur, pa)) > 1 for pa in (1, 2)):
                out.append(i)
            elif a["op"] in RESTORES and cur["tbl"] != cur["snap"]:
                out.append(i)
            cur = s["t"]
        return out

    seen, nt = set(), 0
    for h in hs:
        k = core.canon(h)
        if k not in seen:
            seen.add(k)
            nt += 1 if shared_steps(h) else 0
    ck.cov["distinct_nontrivial"] += nt
    for h in hs[:2] + hs[n_cover:n_cover + 1]:
        ck.sample({"init": h["init"], "ops": [s["a"] for s in h["steps"]][:12]})

    binary = ck.binary("vmcontainers")
    config = {"runs": RUNS, "npa": 2, "offs": [0, 4095]}
    batch = 1500
    # the driver observes the table only: the snapshot component of the states stays here
    slim = [{"init": {"tbl": h["init"]["tbl"]}, "steps": [{"a": st["a"], "t": {"tbl": st["t"]["tbl"]}} for st in h["steps"]]} for h in hs]
    batches = [slim[i:i + batch] for i in range(0, len(slim), batch)]

    def one(job):
        bi, proc = job
        return core.harness(binary, "pagetable", {"config": dict(config, runs=RUNS if proc == 0 else 1), "histories": batches[bi]})

    jobs = [(bi, p) for bi in range(len(batches)) for p in range(PROCESSES)]
    with ThreadPoolExecutor(max_workers=6) as ex:
        outs = list(ex.map(one, jobs))

    # ---- conformance with the specification (every execution)
    total_steps, free_stops, mism_seen, n_mism, n_new = 0, 0, set(), 0, 0
    logs = collections.defaultdict(list)       # history index -> logs of all executions
    for (bi, proc), out in zip(jobs, outs):
        total_steps += out["steps"]
        free_stops += out.get("free_stops", 0)
        for m in out["mismatches"] or []:
            m["history"] += bi * batch
            sig = (m["history"], m["step"], m["kind"], core.canon(m["got"]))
            if sig in mism_seen:
                continue
            mism_seen.add(sig)
            n_mism += 1
            op = (m.get("op") or {}).get("op")
            key = {"op": op, "kind": m.get("kind"), "class": "differs_from_map"}
            desc = "%s mismatch at step %d of history %d (OS process %d): op=%s want=%s got=%s" % (
                m["kind"], m["step"], m["history"], proc, core.canon(m.get("op")), core.canon(m["want"]), core.canon(m["got"]))
            if ck.report(key, desc, {"driver": "pagetable", "config": config,
                                     "history": {"init": m.get("init"), "steps": m.get("prefix")}}) == "new":
                n_new += 1
        for j, runs in enumerate(out.get("logs") or []):
            if runs:
                logs[bi * batch + j] += runs
    ck.cov["traces_validated_against_impl"] += len(hs)
    ck.cov["evaluations"] += total_steps
    ck.cov["executions_per_history"] = EXECUTIONS
    ck.cov["os_processes_per_history"] = PROCESSES
    ck.cov["histories_cut_at_free_misuse_step"] = free_stops

    # ---- determinism: all executions of one history must give the same free answers
    nondet, n_cmp = 0, 0
    for hi, runs in logs.items():
        h = hs[hi]
        parsed = [[e.split(":") for e in run.split(";") if e] for run in runs]
        # (step, kind, pa) -> set of answers over all executions
        answers = collections.defaultdict(set)
        for pr in parsed:
            for step, kind, pa, ans in pr:
                answers[(int(step), kind, int(pa))].add(ans)
        n_cmp += len(answers)
        cases = []
        for (step, kind, pa), anss in sorted(answers.items()):
            if len(anss) > 1:
                cases.append((step, h["steps"][step]["a"]["op"], pa, sorted(anss),
                              "differs between executions of the same history"))
        # before/after a checkpoint round trip, inside one execution
        for pr in parsed:
            d = {(int(s), k, int(pa)): a for s, k, pa, a in pr}
            for (step, kind, pa), a in d.items():
                after = {"cb": "ca", "rb": "ra"}.get(kind)
                if after and d.get((step, after, pa), a) != a:
                    cases.append((step, h["steps"][step]["a"]["op"], pa, sorted({a, d[(step, after, pa)]}),
                                  "differs before/after checkpoint save/load"))
        done = set()
        for step, op, pa, anss, what in cases:
            if (step, op, pa, what) in done:
                continue
            done.add((step, op, pa, what))
            state = h["steps"][step]["t"]          # these operations do not change the map
            hold = _holders(state, pa)
            pids = sorted({p for p, _ in hold})
            valid = all(a != "bad" and a != "-" and tuple(int(x) for x in a.split(".")) in hold for a in anss)
            by_pid = collections.defaultdict(set)
            for a in anss:
                by_pid[a.split(".")[0]].add(a)
            if valid and len(pids) > 1 and len(by_pid) > 1 and all(len(x) == 1 for x in by_pid.values()):
                # the answers come from different processes, and each process always offers the same page
                cls = "shared_physical_page_nondeterministic"
            elif valid:
                cls = "same_process_nondeterministic"
            else:
                cls = "invalid_answer_nondeterministic"
            nondet += 1
            key = {"op": op, "class": cls, "kind": "determinism"}
            desc = ("reverse lookup of physical page %d at step %d of history %d %s: answers (pid.vpage) %s; pages with that "
                    "physical address: %s" % (pa, step, hi, what, anss, hold))
            ck.report(key, desc, {"driver": "pagetable", "config": config, "answers": anss,
                                  "history": {"init": h["init"], "steps": h["steps"][:step + 1]}})
            if len(ck.cov["samples"]) < 6 and cls == "shared_physical_page_nondeterministic":
                ck.sample({"nondeterministic": what, "pa": pa, "answers": anss, "holders": hold,
                           "ops": [s["a"] for s in h["steps"][:step + 1]][-6:]}, cap=6)
    ck.cov["free_answers_compared_across_executions"] = n_cmp
    ck.cov["nondeterministic_cases"] = nondet
    ck.note("replayed %d histories (%d edge-cover + %d walks) x %d executions in %d OS processes, %d steps, %d spec mismatches (%d new), "
            "%d free answers compared, %d nondeterministic" % (len(hs), n_cover, len(hs) - n_cover, EXECUTIONS, PROCESSES, total_steps,
                                                                n_mism, n_new, n_cmp, nondet))
