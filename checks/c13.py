"""C13 — event-driven components wake no later than requested (spec/tick/EventDriven.tla; driver
timingmisc/eventdriven).

EventDriven.tla has an abstract layer (the obligations `due` raised by wake requests and notifications, discharged
by processor runs; WakeNoLaterThan = NoOverdue /\\ Covered) and a model of the mechanism (dedup guard + time-ordered
event queue).  TLC checks that the mechanism satisfies the abstract layer for every interleaving of requests
(earlier / later / equal / repeated; from outside and from inside the processor), notifications, dispatches and clock
ticks within the bounds, that two mutated guards do NOT (controls), and emits the transition graph.

Binding: every transition of the graph (edge cover) and seeded random walks are input histories for a real
modeling.EventDrivenComponent on a real timing.SerialEngine, in three delivery modes (requests made between
RunUntil calls; from env events scheduled up front; from chained env events) and three notification variants
(NotifyRecv / NotifyPortFree called directly; produced by a real loop-back port of the component; delivered by
another goroutine while the processor is parked inside Process).  A dispatch of the model carries what happens WHILE
the processor runs (wake requests and notifications) and what the run reports afterwards (a free boolean: the
statement does not let the obligation depend on it); the scripted processor returns exactly that, and the sequences
"run reports no progress @T -> request / notification @T" are replayed explicitly.  The same situation is also run on a real timing.ParallelEngine
(another handler of the same instant notifies while the processor runs).  The driver returns the log of
requests / notifications / processor invocations in the order they happened; the oracle below applies the rules of
the abstract layer to that log.  The number and the times of processor runs are NOT compared with the model: extra
(spurious) runs are free, only a run later than a deadline or a missing run is a contradiction.

Schedules (spec/tick/EventDrivenConc.tla; driver timingmisc/eventdriven_conc).  A wake request is not atomic: in
EventDrivenConc.tla ScheduleWakeAt is two steps of the calling thread (look at / write the guard; hand the timer to the
engine) and the thread that runs Handle (processor requests) is interleaved with the threads of other handlers of the
same instant that notify or request, in rounds like those of the parallel engine.  TLC checks WakeNoLaterThan for
every interleaving, refutes a control (guard written after the engine call + Handle dropping a timer that fires
before the armed guard) and emits the graph.  Binding B3 without a hook: the component reaches its engine only through
timing.EventScheduler, so it is built on a scheduler of the harness whose Schedule parks the calling goroutine; every
transition of the graph, seeded walks and every "operation invoked while another thread is inside ScheduleWakeAt"
window (completed in both orders) are replayed with real goroutines, one running at a time; the log is judged by the
same oracle (an operation raises its obligation when it is invoked).
"""
import json, os
from vlib import core, objcheck

LEVEL = "model_checking"
TECHNIQUE = ("TLA+ (abstract obligations + model of the dedup guard and event queue) checked exhaustively by TLC with "
             "two mutant controls; complete transition graph replayed as input histories on a real EventDrivenComponent "
             "+ SerialEngine in three delivery modes; processor invocation log judged by the abstract layer's rules")
LEVEL_TEXT = ("TLC explores all interleavings of the bounded model; every transition of its graph and seeded random walks "
              "are replayed on the real component and serial engine (3 delivery modes x 3 notification variants, incl. "
              "notifications that arrive while the processor runs), plus scripted overlap scenarios on the real parallel "
              "engine; the verdict is computed from the real invocation times only.")
LEVEL_NOTE = ("Times are small integers (picoseconds 0..MaxT+MaxD); the parallel engine is exercised with a fixed family of "
              "gated overlap scenarios, not with the whole graph; checkpoint restore of the guard is outside this property.")

# (delivery mode, notification variant) pairs replayed; see the driver for their meaning
COMBOS_Q = [("outside", "direct"), ("inside", "port"), ("chain", "gate")]
COMBOS_T = [("outside", "direct"), ("inside", "port"), ("chain", "gate"), ("inside", "direct"), ("chain", "port"), ("outside", "gate")]
REQUEST_KINDS = ("req", "inreq", "notify_recv", "notify_free", "in_notify_recv", "in_notify_free")


def judge(log):
    """WakeNoLaterThan on a log. Returns None or (what, source, deadline, observed_at, index)."""
    due = []          # (deadline, source, index)
    for i, (kind, at, t) in enumerate(log):
        late = [d for d in due if d[0] < at]
        if late:
            d = min(late)
            return ("late", d[1], d[0], at, i)
        if kind == "run":
            due = []
        elif kind in REQUEST_KINDS:
            if t < at:
                raise core.Broken("driver made a request in the past: %r" % (log[i],))
            due.append((t, kind, i))
        elif kind == "end":
            if due:
                d = min(due)
                return ("missing", d[1], d[0], at, i)
    return None


def after_idle_run(log, v):
    """Feature of a failing case: the unmet obligation was raised at the very instant of a preceding processor run
    that had reported 'no progress' (third field of a run entry = 1)."""
    deadline, src = v[2], v[1]
    raised = next((i for i, e in enumerate(log) if e[0] == src and e[2] == deadline), None)
    if raised is None:
        return False
    for e in reversed(log[:raised + 1]):
        if e[0] == "run":
            return bool(e[2]) and e[1] == log[raised][1]
    return False


def tlc_judge(ck, logs, expect_accept):
    """The same judgement by TLC: EventDrivenTrace.tla over the concatenated logs. Returns True if accepted."""
    d = core.scratch("c13trace-")
    path = os.path.join(d, "trace.ndjson")
    n = 0
    with open(path, "w") as f:
        for log in logs:
            f.write('{"k":"reset","at":0,"t":0}\n')
            n += 1
            for k, at, t in log:
                f.write(json.dumps({"k": k, "at": at, "t": t}) + "\n")
                n += 1
    r = ck.run_tlc(["tick"], "EventDrivenTrace", "EventDrivenTrace.cfg", workers=1, timeout=900, env={"TRACE_FILE": path})
    if r.ok and r.distinct != n + 1:
        raise core.Broken("EventDrivenTrace consumed %d of %d trace entries" % (r.distinct - 1, n))
    if r.ok != expect_accept and expect_accept is not None:
        raise core.Broken("EventDrivenTrace.tla (%s) and the check's oracle disagree on %d log(s): TLC %s" % (
            r.violated, len(logs), "accepts" if r.ok else "rejects"))
    return r.ok, n


def conc_phase(ck, q, binary, accepted, rejected):
    """The schedules of EventDrivenConc.tla replayed through a gate-controlled timing.EventScheduler.
    Returns (histories replayed, log entries, processor runs)."""
    cfg = "EventDrivenConc_q.cfg" if q else "EventDrivenConc_t.cfg"
    g, r = objcheck.graph_from_tlc(ck, ["tick"], "EventDrivenConc", cfg, workers=4 if q else 8, timeout=900)
    rc = ck.run_tlc(["tick"], "EventDrivenConc", "EventDrivenConc_control.cfg", workers=2, timeout=300)
    if rc.ok or rc.violated != "WakeNoLaterThan":
        raise core.Broken("control EventDrivenConc_control.cfg: TLC did not refute WakeNoLaterThan for the guard written after the "
                          "engine call + dropped early timers (ok=%s violated=%s)" % (rc.ok, rc.violated))
    if not q:
        for c in ("EventDrivenConc_reorder.cfg", "EventDrivenConc_droponly.cfg"):     # each change alone is harmless: the spec must not forbid it
            rh = ck.run_tlc(["tick"], "EventDrivenConc", c, workers=4, timeout=600)
            if not rh.ok:
                raise core.Broken("%s is expected to hold but TLC reports %s %s" % (c, rh.violated, rh.error))
    threads = sorted(set(g.nodes[g.inits[0]]["pc"].keys()) - {"h"})
    cover = g.edge_cover(rng=ck.rng)
    walks = g.random_walks(ck.rng, 200 if q else 3000, 40 if q else 60)
    # race windows: an operation is invoked while another thread is parked between its guard step and its engine call;
    # the history stops there and the driver completes the parked operations in both orders (config "tail")
    windows, shapes = [], {}
    for (s0, a, s1) in g.edges:
        if s0 not in g.parent:
            continue
        pc = g.nodes[s0]["pc"]
        if (a["op"] == "nbegin" and any(v == "sched" for k, v in pc.items() if k != a["th"])) or \
                (a["op"] == "hreq" and any(v == "sched" for k, v in pc.items() if k != "h")):
            root, steps = g.path_to(s0)
            st = g.nodes[s0]
            nowake = max(int(k) for k in st["queue"]) + 1
            # shape of a window: who is parked on a wakeup how far ahead, what the guard names, what is invoked
            shape = core.canon([a["op"], a["th"], a["d"], sorted(pc.items()),
                                sorted((k, st["tt"][k] - st["now"]) for k, v in pc.items() if v == "sched"),
                                None if st["pending"] == nowake else st["pending"] - st["now"], st["ready"] > 0])
            shapes.setdefault(shape, []).append(len(windows))
            windows.append(g.history(root, list(steps) + [(a, s1)]))
    n_windows = len(windows)
    if not n_windows:
        raise core.Broken("EventDrivenConc: no race window in the graph")
    cap = 1000 if q else 20000
    n_cover_all = len(cover)
    if len(cover) > cap:
        cover = ck.rng.sample(cover, cap)
    plans = []      # (histories, notify, tail)
    if q:
        # at least one window of every shape, then a seeded sample; each in both completion orders, the notification variant alternates
        pick = [ck.rng.choice(ix) for _, ix in sorted(shapes.items())]
        rest = sorted(set(range(n_windows)) - set(pick))
        pick += ck.rng.sample(rest, max(0, min(len(rest), 700 - len(pick))))
        ck.rng.shuffle(pick)
        half = len(pick) // 2
        wa, wb = [windows[i] for i in pick[:half]], [windows[i] for i in pick[half:]]
        plans += [(wa, "direct", "h_first"), (wa, "direct", "n_first"), (wb, "port", "h_first"), (wb, "port", "n_first")]
        n_win_replayed = len(pick)
    else:
        for tail in ("h_first", "n_first"):
            for nv in ("direct", "port"):
                plans.append((windows, nv, tail))
        n_win_replayed = n_windows
    for nv, tail in ((("direct", "n_first"), ("port", "h_first")) if q else
                     (("direct", "n_first"), ("port", "h_first"), ("direct", "h_first"), ("port", "n_first"))):
        plans.append((cover + walks, nv, tail))
    n_hist = entries = runs = parks = races = 0
    racy = set()
    for pi, (hs, nv, tail) in enumerate(plans):
        cfgd = {"notify": nv, "tail": tail, "threads": threads, "tail_idle": pi % 2 == 1}
        B = 4000
        for i in range(0, len(hs), B):
            # the driver takes the schedule only (the actions); the states of the specification are not sent
            lean = [{"init": None, "steps": [{"a": s["a"]} for s in h["steps"]]} for h in hs[i:i + B]]
            out = core.harness(binary, "eventdriven_conc", {"config": cfgd, "histories": lean}, timeout=900)
            for j, (log, err) in enumerate(zip(out["logs"], out["errors"])):
                h = lean[j]
                ops = [[s["a"]["op"], s["a"]["th"], s["a"]["d"]] for s in h["steps"]]
                rp = {"driver": "eventdriven_conc", "config": cfgd, "history": {"init": h["init"], "steps": h["steps"]}, "log": log}
                n_hist += 1
                entries += len(log or [])
                runs += sum(1 for e in log or [] if e[0] == "run")
                parks += out["parks"][j]
                races += out["races"][j]
                if out["races"][j]:
                    racy.add(core.canon(ops))
                key = {"mode": "gated_schedule", "notify": nv, "tail": tail}
                if err:
                    rejected.append((0, dict(key, what="panic"), "replaying schedule %s (%s, tail %s): %s" % (ops, nv, tail, err), rp, None))
                    continue
                v = judge(log)
                if v:
                    what, src, deadline, at, idx = v
                    desc = ("%s run under a gated schedule: a %s for time %d, invoked while %s, is followed by %s; schedule %s, "
                            "parked operations completed %s (%s); log %s" % (
                                what, src, deadline,
                                "another thread was inside ScheduleWakeAt" if out["races"][j] else "no other thread was inside ScheduleWakeAt",
                                ("an entry at time %d with no processor run in between" % at) if what == "late" else "the end of the simulation without a run",
                                ops, tail, nv, log[:idx + 1]))
                    rejected.append((len(log), dict(key, what=what, source=src, after_idle_run=after_idle_run(log, v)), desc, rp, log))
                else:
                    accepted.append(log)
    if not parks or not races:
        raise core.Broken("gated scheduler: no goroutine parked inside Schedule (%d) / no operation overlapped another (%d)" % (parks, races))
    ck.cov["traces_validated_against_impl"] += n_hist
    ck.cov["distinct_nontrivial"] += len(racy)
    ck.cov["gated_schedules"] = {"spec": "EventDrivenConc/" + cfg, "states": r.distinct, "transitions": len(g.edges), "threads": ["h"] + threads,
                                 "edge_cover_histories": len(cover), "walks": len(walks), "edge_cover_histories_in_graph": n_cover_all,
                                 "race_windows_in_graph": n_windows, "race_window_shapes": len(shapes), "race_windows_replayed": n_win_replayed, "replays": n_hist, "goroutine_parks_in_Schedule": parks,
                                 "operations_invoked_while_another_thread_was_parked": races,
                                 "distinct_schedules_with_such_an_overlap": len(racy)}
    ck.sample({"gated_schedule": [[s["a"]["op"], s["a"]["th"], s["a"]["d"]] for s in windows[ck.rng.randrange(n_windows)]["steps"]]})
    ck.note("gated schedules (EventDrivenConc, %d states / %d transitions, threads h+%s): %d replays (%d edge-cover histories + %d walks in %d "
            "notify/tail combinations; %d of %d race windows (all %d shapes) in both completion orders), %d parks inside Schedule, "
            "%d operations invoked while another thread was parked" % (
                r.distinct, len(g.edges), "+".join(threads), n_hist, len(cover), len(walks), len(plans) - 4, n_win_replayed, n_windows, len(shapes), parks, races))
    return n_hist, entries, runs


def _selftest():
    ok = [["req", 0, 2], ["run", 1, 0], ["end", 1, 0]]
    late = [["req", 0, 1], ["run", 2, 0], ["end", 2, 0]]
    missing = [["req", 0, 1], ["run", 1, 0], ["inreq", 1, 3], ["end", 1, 0]]
    before = [["run", 1, 0], ["notify_recv", 1, 1], ["end", 1, 0]]      # a run BEFORE the notification does not count
    during = [["req", 0, 1], ["run", 1, 0], ["in_notify_free", 1, 1], ["end", 1, 0]]   # nor does the run it arrives in
    spurious = [["req", 0, 3], ["run", 0, 0], ["run", 1, 0], ["run", 3, 0], ["end", 3, 0]]
    if judge(ok) or judge(spurious) or (judge(late) or [0])[0] != "late" or (judge(missing) or [0])[0] != "missing" \
            or (judge(before) or [0])[0] != "missing" or (judge(during) or [0])[0] != "missing":
        raise core.Broken("the C13 oracle fails its self-test")


def run(ck):
    q = ck.tier == "quick"
    _selftest()
    g, r = objcheck.graph_from_tlc(ck, ["tick"], "EventDriven", "EventDriven_q.cfg" if q else "EventDriven_t.cfg",
                                   workers=4 if q else 8, timeout=1200)
    for cfg in ((("EventDriven_control3.cfg", "EventDriven_control4.cfg")[ck.seed % 2],) if q else
                ("EventDriven_control1.cfg", "EventDriven_control2.cfg", "EventDriven_control3.cfg", "EventDriven_control4.cfg")):
        rc = ck.run_tlc(["tick"], "EventDriven", cfg, workers=2, timeout=300)
        if rc.ok or rc.violated != "WakeNoLaterThan":
            raise core.Broken("control %s: TLC did not refute WakeNoLaterThan for the mutated guard (ok=%s violated=%s)" % (
                cfg, rc.ok, rc.violated))
    ck.cov["exhaustive"] = True
    ck.cov["rule"] = ("TLC enumerates the complete graph of EventDriven.tla (requests now+0..MaxD from outside and up to MaxReq "
                      "per processor run, both notifications, dispatches, clock ticks; <= MaxEv queued wakeups) and checks "
                      "WakeNoLaterThan and the guard invariants; every transition (edge cover) and seeded random walks are "
                      "replayed on a real EventDrivenComponent + SerialEngine in 3 delivery modes and 3 notification variants "
                      "(direct call, real loop-back port, another goroutine while the processor is parked), notifications "
                      "inside a processor run included, plus overlap scenarios on a real ParallelEngine; the log of processor "
                      "invocations is judged by the abstract rules (late / missing run). Schedules: TLC enumerates the "
                      "complete graph of EventDrivenConc.tla (ScheduleWakeAt = guard step + engine call, processor thread "
                      "interleaved with notifier threads, engine rounds) and every transition, seeded walks and every race window "
                      "in both completion orders are replayed with real goroutines parked inside a harness EventScheduler. "
                      "Non-trivial = distinct history with a request while another wakeup is pending, or a request made by the "
                      "processor, or (gated schedules) an operation invoked while another thread is inside ScheduleWakeAt.")
    ck.assumptions += ["one component; requests are never in the past (the statement excludes them)",
                       "gated schedules: a thread can be stopped only at the component's call into the engine (guard check and "
                       "guard write are one step); an operation raises its obligation when it is invoked; events scheduled "
                       "during an engine round are dispatched in a later round",
                       "a notification's deadline is the instant it is delivered at",
                       "extra processor runs are allowed"]

    hs = g.edge_cover(rng=ck.rng)
    n_cover = len(hs)
    walks, wl = (300, 40) if q else (1500, 60)
    hs += g.random_walks(ck.rng, walks, wl)
    # targeted same-instant sequences: run(reports no progress)@T -> request / notification @T -> dispatch
    # (the statement does not let the obligation depend on what a run reported)
    trip = []
    for (s0, a1, s1) in g.edges:
        if a1["op"] == "dispatch" and a1["idle"] and s0 in g.parent:
            for a2, s2 in g.out[s1]:
                if a2["op"] in ("notify_recv", "notify_free") or (a2["op"] == "req" and a2["d"] == 0):
                    nxt = [(a3, s3) for a3, s3 in g.out[s2] if a3["op"] == "dispatch"]
                    if nxt:
                        trip.append((s0, a1, s1, a2, s2) + ck.rng.choice(nxt))
    n_trip_all = len(trip)
    if len(trip) > (300 if q else 4000):
        trip = ck.rng.sample(trip, 300 if q else 4000)
    for s0, a1, s1, a2, s2, a3, s3 in trip:
        root, steps = g.path_to(s0)
        hs.append(g.history(root, list(steps) + [(a1, s1), (a2, s2), (a3, s3)]))
    ck.cov["idle_run_then_same_instant_request"] = {"sequences_in_graph": n_trip_all, "replayed": len(trip)}

    def nontrivial(h):
        pend = h["init"]["pending"]
        nowake = max(int(k) for k in h["init"]["queue"]) + 1
        for s in h["steps"]:
            a = s["a"]
            if a["op"] == "dispatch" and a["reqs"]:
                return True      # a request or a notification while the processor runs
            if a["op"] in ("req", "notify_recv", "notify_free") and pend != nowake:
                return True
            pend = s["t"]["pending"]
        return False

    seen, nt = set(), 0
    for h in hs:
        k = core.canon([s["a"] for s in h["steps"]])
        if k not in seen:
            seen.add(k)
            nt += 1 if nontrivial(h) else 0
    ck.cov["distinct_nontrivial"] = nt

    binary = ck.binary("timingmisc")
    total_entries = runs = 0
    found = 0
    accepted, rejected = [], []
    combos = COMBOS_Q if q else COMBOS_T
    in_run_notes = n_replayed = 0
    hs_all = hs
    for ci, (mode, notify) in enumerate(combos):
        B = 5000
        cfgd = {"mode": mode, "notify": notify, "tail_idle": ci % 2 == 0}    # what runs beyond the script report
        # the complete edge cover for the first combination; a seeded sample of it (+ all walks) for the others when it is large
        cap = 2000 if q else 4000
        hs = hs_all if (ci == 0 or n_cover <= cap) else ck.rng.sample(hs_all[:n_cover], cap) + hs_all[n_cover:]
        n_replayed += len(hs)
        for i in range(0, len(hs), B):
            out = core.harness(binary, "eventdriven", {"config": cfgd, "histories": hs[i:i + B]})
            for j, (log, err) in enumerate(zip(out["logs"], out["errors"])):
                h = hs[i + j]
                ops = [s["a"] for s in h["steps"]]
                rp = {"driver": "eventdriven", "config": cfgd, "history": {"init": h["init"], "steps": h["steps"]}, "log": log}
                total_entries += len(log or [])
                in_run_notes += sum(1 for e in log or [] if e[0].startswith("in_notify"))
                runs += sum(1 for e in log or [] if e[0] == "run")
                if err:
                    rejected.append((0, {"what": "panic", "mode": mode, "notify": notify}, "replaying %s (%s/%s): %s" % (ops, mode, notify, err), rp, None))
                    continue
                v = judge(log)
                if v:
                    what, src, deadline, at, idx = v
                    desc = ("%s run: a %s for time %d is followed by %s (mode %s/%s); log %s" % (
                        what, src, deadline,
                        ("an entry at time %d with no processor run in between" % at) if what == "late" else "the end of the simulation without a run",
                        mode, notify, log[:idx + 1]))
                    rejected.append((len(log), {"what": what, "source": src, "mode": mode, "notify": notify, "after_idle_run": after_idle_run(log, v)}, desc, rp, log))
                else:
                    accepted.append(log)
        ck.cov["traces_validated_against_impl"] += len(hs)
    # the situation "another handler of the same instant notifies while the processor runs" on a real ParallelEngine
    scen = []
    for T in (0, 1, 3):
        for notes in ([100], [101], [100, 101], [101, 100, 100]):
            for script in ([], [[1]], [[0], [101]], [[100, 2], [0]], [[2, 0], [100]]):
                for nv in ("direct", "port"):
                    for first_idle in (False, True):
                        scen.append({"t": T, "notes": notes, "script": script, "notify": nv, "first_idle": first_idle,
                                     "idles": [ck.rng.random() < .5 for _ in script], "tail_idle": ck.rng.random() < .5})
    if q:
        scen = ck.rng.sample(scen, 60)
    out = core.harness(binary, "eventdriven_parallel", {"scenarios": scen}, timeout=600)
    overlapped = sum(1 for o in out["overlap"] if o)
    ck.cov["parallel_engine_scenarios"] = {"run": len(scen), "notification_arrived_during_the_run": overlapped}
    if overlapped < len(scen) // 2:
        raise core.Broken("parallel-engine scenarios: only %d of %d had the notification overlap the processor run" % (overlapped, len(scen)))
    ck.cov["traces_validated_against_impl"] += len(scen)
    for sc, log, err in zip(scen, out["logs"], out["errors"]):
        rp = {"driver": "eventdriven_parallel", "scenario": sc, "log": log}
        total_entries += len(log or [])
        runs += sum(1 for e in log or [] if e[0] == "run")
        in_run_notes += sum(1 for e in log or [] if e[0].startswith("in_notify"))
        if err:
            rejected.append((0, {"what": "panic", "mode": "parallel_engine", "notify": sc["notify"]}, "parallel engine scenario %s: %s" % (sc, err), rp, None))
            continue
        v = judge(log)
        if v:
            what, src, deadline, at, idx = v
            rejected.append((len(log), {"what": what, "source": src, "mode": "parallel_engine", "notify": sc["notify"], "after_idle_run": after_idle_run(log, v)},
                             "%s run on the parallel engine: a %s for time %d is not followed by a processor run in time; scenario %s; log %s" % (
                                 what, src, deadline, sc, log[:idx + 1]), rp, log))
        else:
            accepted.append(log)
    ck.cov["notifications_during_a_run"] = in_run_notes
    # schedules: ScheduleWakeAt split at the engine call, interleaved with other threads (EventDrivenConc.tla)
    n_conc, e_conc, r_conc = conc_phase(ck, q, binary, accepted, rejected)
    total_entries += e_conc
    runs += r_conc
    # the same judgement by TLC (EventDrivenTrace.tla): all accepted logs (bounded), and the shortest rejected ones
    budget = 12000 if q else 150000
    part, size = [], 0
    ck.rng.shuffle(accepted)
    for log in accepted:
        if size + len(log) + 1 > budget:
            break
        part.append(log)
        size += len(log) + 1
    _, n_tlc = tlc_judge(ck, part, True)
    ck.cov["log_entries_judged_by_tlc"] = n_tlc
    if not q:
        tlc_judge(ck, [[["req", 0, 1], ["run", 2, 0], ["end", 2, 0]]], False)      # control: a late run must be rejected
        tlc_judge(ck, [[["req", 0, 1], ["run", 1, 0], ["inreq", 1, 3], ["end", 1, 0]]], False)   # control: a missing run
    rejected.sort(key=lambda x: x[0])
    for k, (_, key, desc, rp, log) in enumerate(rejected):
        if log is not None and k < 2:
            tlc_judge(ck, [log], False)
        ck.report(key, desc, rp)
        found += 1
    ck.cov["evaluations"] += total_entries
    ck.cov["processor_runs_observed"] = runs
    for h in hs[:1] + hs[n_cover:n_cover + 1]:
        ck.sample({"ops": [[s["a"]["op"], s["a"]["d"], s["a"]["reqs"]] for s in h["steps"]][:14]})
    hs = hs_all
    ck.cov["histories_replayed"] = n_replayed
    ck.note("%d histories (%d edge-cover + %d walks and idle-run sequences), %d replays over %d mode/notify combinations (+%d parallel-engine scenarios): %d log entries (%d also judged by TLC), %d processor runs, "
            "%d contradictions" % (len(hs), n_cover, len(hs) - n_cover, n_replayed, len(combos), len(scen), total_entries, n_tlc, runs, found))


def replay(ck, doc):
    """Re-run a recorded contradiction (replays/C13-*.json) on the real component."""
    rp = doc["replay"]
    if rp.get("driver") == "eventdriven_conc":
        out = core.harness(ck.binary("timingmisc"), "eventdriven_conc", {"config": rp["config"], "histories": [rp["history"]]})
        rp = dict(rp, config=dict(rp["config"], mode="gated_schedule"))
    elif rp.get("driver") == "eventdriven_parallel":
        out = core.harness(ck.binary("timingmisc"), "eventdriven_parallel", {"scenarios": [rp["scenario"]]})
        rp = dict(rp, config={"mode": "parallel_engine", "notify": rp["scenario"]["notify"]})
    else:
        out = core.harness(ck.binary("timingmisc"), "eventdriven", {"config": rp["config"], "histories": [rp["history"]]})
    log, err = out["logs"][0], out["errors"][0]
    ck.cov["traces_validated_against_impl"] += 1
    ck.cov["rule"] = "replay of a recorded history"
    if err:
        ck.report({"what": "panic", "mode": rp["config"]["mode"], "notify": rp["config"].get("notify", "direct")}, err, dict(rp, log=log))
        return
    v = judge(log)
    if v:
        ck.report({"what": v[0], "source": v[1], "mode": rp["config"]["mode"], "notify": rp["config"].get("notify", "direct"),
                   "after_idle_run": after_idle_run(log, v)},
                  "%s run: a %s for time %d is not followed by a processor run in time; log %s" % (v[0], v[1], v[2], log[:v[4] + 1]),
                  dict(rp, log=log))
