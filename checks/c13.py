"""C13 — event-driven components wake no later than requested (spec/tick/EventDriven.tla; driver
timingmisc/eventdriven).

EventDriven.tla has an abstract layer (the obligations `due` raised by wake requests and notifications, discharged
by processor runs; WakeNoLaterThan = NoOverdue /\\ Covered) and a model of the mechanism (dedup guard + time-ordered
event queue).  TLC checks that the mechanism satisfies the abstract layer for every interleaving of requests
(earlier / later / equal / repeated; from outside and from inside the processor), notifications, dispatches and clock
ticks within the bounds, that two mutated guards do NOT (controls), and emits the transition graph.

Binding: every transition of the graph (edge cover) and seeded random walks are input histories for a real
modeling.EventDrivenComponent on a real timing.SerialEngine, in three delivery modes (requests made between
RunUntil calls; from env events scheduled up front; from chained env events).  The driver returns the log of
requests / notifications / processor invocations in the order they happened; the oracle below applies the rules of
the abstract layer to that log.  The number and the times of processor runs are NOT compared with the model: extra
(spurious) runs are free, only a run later than a deadline or a missing run is a contradiction.
"""
import json, os
from vlib import core, objcheck

LEVEL = "model_checking"
TECHNIQUE = ("TLA+ (abstract obligations + model of the dedup guard and event queue) checked exhaustively by TLC with "
             "two mutant controls; complete transition graph replayed as input histories on a real EventDrivenComponent "
             "+ SerialEngine in three delivery modes; processor invocation log judged by the abstract layer's rules")
LEVEL_TEXT = ("TLC explores all interleavings of the bounded model; every transition of its graph and seeded random walks "
              "are replayed on the real component and engine; the verdict is computed from the real invocation times only.")
LEVEL_NOTE = ("Times are small integers (picoseconds 0..MaxT+MaxD); the serial engine only; checkpoint restore of the guard "
              "is outside this property.")

MODES = ["outside", "inside", "chain"]


def judge(log):
    """WakeNoLaterThan on a log. Returns None or (what, source, deadline, observed_at, index)."""
    due = []          # (deadline, source, index)
    for i, (kind, at, t) in enumerate(log):
        late = [d for d in due if d[0] < at]
        if late:
            d = min(late)
            return ("late", d[1], d[0], at, i)
        if kind == "run":
            due = []
        elif kind in ("req", "inreq", "notify_recv", "notify_free"):
            if t < at:
                raise core.Broken("driver made a request in the past: %r" % (log[i],))
            due.append((t, kind, i))
        elif kind == "end":
            if due:
                d = min(due)
                return ("missing", d[1], d[0], at, i)
    return None


def tlc_judge(ck, logs, expect_accept):
    """The same judgement by TLC: EventDrivenTrace.tla over the concatenated logs. Returns True if accepted."""
    d = core.scratch("c13trace-")
    path = os.path.join(d, "trace.ndjson")
    n = 0
    with open(path, "w") as f:
        for log in logs:
            f.write('{"k":"reset","at":0,"t":0}\n')
            n += 1
            for k, at, t in log:
                f.write(json.dumps({"k": k, "at": at, "t": t}) + "\n")
                n += 1
    r = ck.run_tlc(["tick"], "EventDrivenTrace", "EventDrivenTrace.cfg", workers=1, timeout=900, env={"TRACE_FILE": path})
    if r.ok and r.distinct != n + 1:
        raise core.Broken("EventDrivenTrace consumed %d of %d trace entries" % (r.distinct - 1, n))
    if r.ok != expect_accept and expect_accept is not None:
        raise core.Broken("EventDrivenTrace.tla (%s) and the check's oracle disagree on %d log(s): TLC %s" % (
            r.violated, len(logs), "accepts" if r.ok else "rejects"))
    return r.ok, n


def _selftest():
    ok = [["req", 0, 2], ["run", 1, 0], ["end", 1, 0]]
    late = [["req", 0, 1], ["run", 2, 0], ["end", 2, 0]]
    missing = [["req", 0, 1], ["run", 1, 0], ["inreq", 1, 3], ["end", 1, 0]]
    before = [["run", 1, 0], ["notify_recv", 1, 1], ["end", 1, 0]]      # a run BEFORE the notification does not count
    spurious = [["req", 0, 3], ["run", 0, 0], ["run", 1, 0], ["run", 3, 0], ["end", 3, 0]]
    if judge(ok) or judge(spurious) or (judge(late) or [0])[0] != "late" or (judge(missing) or [0])[0] != "missing" \
            or (judge(before) or [0])[0] != "missing":
        raise core.Broken("the C13 oracle fails its self-test")


def run(ck):
    q = ck.tier == "quick"
    _selftest()
    g, r = objcheck.graph_from_tlc(ck, ["tick"], "EventDriven", "EventDriven_q.cfg" if q else "EventDriven_t.cfg",
                                   workers=4 if q else 8, timeout=1200)
    for cfg in ("EventDriven_control1.cfg", "EventDriven_control2.cfg")[:1 if q else 2]:
        rc = ck.run_tlc(["tick"], "EventDriven", cfg, workers=2, timeout=300)
        if rc.ok or rc.violated != "WakeNoLaterThan":
            raise core.Broken("control %s: TLC did not refute WakeNoLaterThan for the mutated guard (ok=%s violated=%s)" % (
                cfg, rc.ok, rc.violated))
    ck.cov["exhaustive"] = True
    ck.cov["rule"] = ("TLC enumerates the complete graph of EventDriven.tla (requests now+0..MaxD from outside and up to MaxReq "
                      "per processor run, both notifications, dispatches, clock ticks; <= MaxEv queued wakeups) and checks "
                      "WakeNoLaterThan and the guard invariants; every transition (edge cover) and seeded random walks are "
                      "replayed on a real EventDrivenComponent + SerialEngine in 3 delivery modes; the log of processor "
                      "invocations is judged by the abstract rules (late / missing run). Non-trivial = distinct history with a "
                      "request while another wakeup is pending, or a request made by the processor.")
    ck.assumptions += ["serial engine; one component; requests are never in the past (the statement excludes them)",
                       "a notification's deadline is the instant it is delivered at",
                       "extra processor runs are allowed"]

    hs = g.edge_cover(rng=ck.rng)
    n_cover = len(hs)
    walks, wl = (300, 40) if q else (4000, 80)
    hs += g.random_walks(ck.rng, walks, wl)

    def nontrivial(h):
        pend = h["init"]["pending"]
        nowake = max(int(k) for k in h["init"]["queue"]) + 1
        for s in h["steps"]:
            a = s["a"]
            if a["op"] == "dispatch" and a["reqs"]:
                return True
            if a["op"] in ("req", "notify_recv", "notify_free") and pend != nowake:
                return True
            pend = s["t"]["pending"]
        return False

    seen, nt = set(), 0
    for h in hs:
        k = core.canon([s["a"] for s in h["steps"]])
        if k not in seen:
            seen.add(k)
            nt += 1 if nontrivial(h) else 0
    ck.cov["distinct_nontrivial"] = nt

    binary = ck.binary("timingmisc")
    total_entries = runs = 0
    found = 0
    accepted, rejected = [], []
    for mode in MODES:
        B = 5000
        for i in range(0, len(hs), B):
            out = core.harness(binary, "eventdriven", {"config": {"mode": mode}, "histories": hs[i:i + B]})
            for j, (log, err) in enumerate(zip(out["logs"], out["errors"])):
                h = hs[i + j]
                ops = [s["a"] for s in h["steps"]]
                rp = {"driver": "eventdriven", "config": {"mode": mode}, "history": {"init": h["init"], "steps": h["steps"]}, "log": log}
                total_entries += len(log or [])
                runs += sum(1 for e in log or [] if e[0] == "run")
                if err:
                    rejected.append((0, {"what": "panic", "mode": mode}, "replaying %s (%s): %s" % (ops, mode, err), rp, None))
                    continue
                v = judge(log)
                if v:
                    what, src, deadline, at, idx = v
                    desc = ("%s run: a %s for time %d is followed by %s (mode %s); log %s" % (
                        what, src, deadline,
                        ("an entry at time %d with no processor run in between" % at) if what == "late" else "the end of the simulation without a run",
                        mode, log[:idx + 1]))
                    rejected.append((len(log), {"what": what, "source": src, "mode": mode}, desc, rp, log))
                else:
                    accepted.append(log)
        ck.cov["traces_validated_against_impl"] += len(hs)
    # the same judgement by TLC (EventDrivenTrace.tla): all accepted logs (bounded), and the shortest rejected ones
    budget = 12000 if q else 300000
    part, size = [], 0
    ck.rng.shuffle(accepted)
    for log in accepted:
        if size + len(log) + 1 > budget:
            break
        part.append(log)
        size += len(log) + 1
    _, n_tlc = tlc_judge(ck, part, True)
    ck.cov["log_entries_judged_by_tlc"] = n_tlc
    if not q:
        tlc_judge(ck, [[["req", 0, 1], ["run", 2, 0], ["end", 2, 0]]], False)      # control: a late run must be rejected
        tlc_judge(ck, [[["req", 0, 1], ["run", 1, 0], ["inreq", 1, 3], ["end", 1, 0]]], False)   # control: a missing run
    rejected.sort(key=lambda x: x[0])
    for k, (_, key, desc, rp, log) in enumerate(rejected):
        if log is not None and k < 2:
            tlc_judge(ck, [log], False)
        ck.report(key, desc, rp)
        found += 1
    ck.cov["evaluations"] += total_entries
    ck.cov["processor_runs_observed"] = runs
    for h in hs[:1] + hs[n_cover:n_cover + 1]:
        ck.sample({"ops": [[s["a"]["op"], s["a"]["d"], s["a"]["reqs"]] for s in h["steps"]][:14]})
    ck.note("replayed %d histories (%d edge-cover + %d walks) x %d modes: %d log entries (%d also judged by TLC), %d processor runs, "
            "%d contradictions" % (len(hs), n_cover, len(hs) - n_cover, len(MODES), total_entries, n_tlc, runs, found))


def replay(ck, doc):
    """Re-run a recorded contradiction (replays/C13-*.json) on the real component."""
    rp = doc["replay"]
    out = core.harness(ck.binary("timingmisc"), "eventdriven", {"config": rp["config"], "histories": [rp["history"]]})
    log, err = out["logs"][0], out["errors"][0]
    ck.cov["traces_validated_against_impl"] += 1
    ck.cov["rule"] = "replay of a recorded history"
    if err:
        ck.report({"what": "panic", "mode": rp["config"]["mode"]}, err, dict(rp, log=log))
        return
    v = judge(log)
    if v:
        ck.report({"what": v[0], "source": v[1], "mode": rp["config"]["mode"]},
                  "%s run: a %s for time %d is not followed by a processor run in time; log %s" % (v[0], v[1], v[2], log[:v[4] + 1]),
                  dict(rp, log=log))
