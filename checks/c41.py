"""C41 — generated IDs are unique and the sequential counter is reproducible
(spec/engine/IDGen.tla; drivers timingmisc/idgen*).

IDGen.tla models the generator the statement describes: IDs are positions in "the sequence", Generate is
one atomic step of any of N callers, Save takes a checkpoint, Restore resumes the timeline of a checkpoint.
TLC checks AllDistinctNonZero, SequentialFromOne, RestoreContinues, CheckpointsFaithful and the action
property StepShape on the complete bounded graph and emits it; IDGen_control.cfg (Generate split into
load/store) is the mutant control: TLC must find the duplicate.

Binding to the real process-wide generator of package timing:
  (ref)  the reference sequence: the first n IDs of a fresh sequential (and default) generator, measured in
         three separate OS processes — must be identical, nonzero and distinct (the "same sequence in every run");
  (a)    every transition of the TLC graph + seeded random walks replayed on the real generator for four
         save/restore flavours (SaveCheckpoint/LoadCheckpoint into the same generator, into a freshly
         instantiated sequential or default generator, Get/SetIDGeneratorNextID); position k of the
         specification is the k-th ID of the reference sequence; the raw outputs of two more OS processes
         running the same histories must be identical; checkpoints written by one process are resumed in another;
  (b)    2..64 goroutines call Generate concurrently on every generator kind (sequential, parallel, default,
         lazily instantiated), with save / restore between phases: all IDs of a timeline nonzero and distinct,
         and for the sequential generator exactly the first n IDs of the reference sequence; after a restore
         the phase continues the reference sequence exactly. The thorough tier repeats (b) with a -race build.
"""
import os, time
from vlib import core, objcheck

LEVEL = "model_checking"
TECHNIQUE = ("TLA+ specification of the generator (atomic Generate, Save, Restore; N callers) checked exhaustively by "
             "TLC; complete transition graph replayed on the real timing ID generator across OS processes; "
             "concurrent callers (2..64 goroutines, plain and -race builds) checked against the specification's invariants")
LEVEL_TEXT = ("Every transition of the bounded specification graph is replayed on the real generator for four "
              "save/restore flavours and compared across separate processes; concurrency is exercised with real "
              "goroutines (schedules sampled by the Go runtime, not enumerated).")
LEVEL_NOTE = ("Goroutine schedules of the real atomic counter are sampled, not exhausted; the exhaustive interleaving "
              "argument exists only at the level of the specification (atomic step vs load/store control). A checkpoint "
              "is taken at quiescent points only.")

FLAVOURS = ["checkpoint_same", "checkpoint_fresh", "checkpoint_fresh_default", "nextid"]


def run(ck):
    q = ck.tier == "quick"
    binary = ck.binary("timingmisc")
    # ---- TLC: specification + control
    g, r = objcheck.graph_from_tlc(ck, ["engine"], "IDGen", "IDGen_q.cfg" if q else "IDGen_t.cfg", workers=4, timeout=600)
    rc = ck.run_tlc(["engine"], "IDGen", "IDGen_control.cfg", workers=2, timeout=300)
    if rc.ok or rc.violated != "AllDistinctNonZero":
        raise core.Broken("control IDGen_control.cfg: TLC did not find the duplicate ID of the non-atomic variant "
                          "(ok=%s violated=%s)" % (rc.ok, rc.violated))
    ck.cov["exhaustive"] = True
    ck.cov["rule"] = ("TLC enumerates the complete graph of IDGen.tla (counter 0..MaxId, every set of checkpoints, N callers) and "
                      "checks the invariants; every transition is replayed on the real generator for 4 save/restore flavours "
                      "(+ seeded walks), raw outputs compared between separate OS processes, checkpoints resumed in another "
                      "process; concurrent phases of 2..64 goroutines on each generator kind with save/restore between phases. "
                      "Non-trivial = distinct history containing a restore, or a concurrent run.")
    ck.assumptions += ["position k of the specification is bound to the k-th ID of a measured reference run (today: k)",
                       "checkpoints are taken while no Generate call is in flight",
                       "IDs handed out after a checkpoint on an abandoned continuation are not part of the resumed simulation"]

    ck.note("TLC done after %.0fs" % (time.time() - ck.t0))
    # ---- reference sequence, in separate processes
    n_ref = 150000 if q else 200000
    refs = [core.harness(binary, "idgen_ref", {"kind": "sequential", "n": n_ref})["ids"] for _ in range(2)]
    refs.append(core.harness(binary, "idgen_ref", {"kind": "default", "n": n_ref})["ids"])
    S = refs[0]
    ck.cov["traces_validated_against_impl"] += len(refs)
    ck.cov["evaluations"] += n_ref * len(refs)
    for i, other in enumerate(refs[1:], 1):
        if other != S:
            k = next(j for j in range(n_ref) if other[j] != S[j])
            ck.report({"what": "sequence_differs_between_runs", "kind": "sequential" if i == 1 else "default"},
                      "run %d of the sequential generator hands out %s at position %d, run 0 handed out %s" % (i, other[k], k + 1, S[k]),
                      {"driver": "idgen_ref", "position": k + 1, "run0": S[:k + 1][-5:], "run%d" % i: other[:k + 1][-5:]})
    if "0" in S:
        ck.report({"what": "zero_id", "kind": "sequential"}, "the sequential generator hands out ID 0 at position %d" % (S.index("0") + 1),
                  {"driver": "idgen_ref", "kind": "sequential", "n": S.index("0") + 1})
    if len(set(S)) != len(S):
        seen = {}
        for j, x in enumerate(S):
            if x in seen:
                ck.report({"what": "duplicate_id", "kind": "sequential", "concurrent": False},
                          "the sequential generator hands out ID %s at positions %d and %d" % (x, seen[x] + 1, j + 1),
                          {"driver": "idgen_ref", "kind": "sequential", "n": j + 1})
                break
            seen[x] = j
    ck.cov["reference_is_1_to_n"] = S == [str(i) for i in range(1, n_ref + 1)]
    Sint = [int(x) for x in S]

    ck.note("reference runs done after %.0fs" % (time.time() - ck.t0))
    # ---- (a) graph replay, four flavours
    max_id = max(n["counter"] for n in g.nodes.values())
    ref_small = S[:max_id + 2]

    def nontrivial(h):
        return any(s["a"]["op"] == "restore" for s in h["steps"])

    walks, wl = (60, 40) if q else (300, 80)
    for fl in FLAVOURS:
        def keyfn(m, fl=fl):
            return {"what": "replay_mismatch", "op": (m.get("op") or {}).get("op"), "kind": m.get("kind"), "flavour": fl}
        objcheck.replay_graph(ck, g, "timingmisc", "idgen", config={"flavor": fl, "ref": ref_small}, walks=walks, walk_len=wl,
                              keyfn=keyfn, nontrivial=nontrivial)
    ck.note("graph replays done after %.0fs" % (time.time() - ck.t0))
    # the same histories in two more OS processes: raw outputs identical
    hs = g.edge_cover(rng=ck.rng) + g.random_walks(ck.rng, walks, wl)
    hs = [{"init": None, "steps": [{"a": st["a"]} for st in h["steps"]]} for h in hs]      # operations only
    for fl in FLAVOURS[:2] if q else FLAVOURS[1:]:
        outs = [core.harness(binary, "idgen_hist", {"config": {"flavor": fl, "ref": ref_small}, "histories": hs})["results"]
                for _ in range(2)]
        ck.cov["traces_validated_against_impl"] += 2 * len(hs)
        for hi, (a, b) in enumerate(zip(*outs)):
            if a != b:
                ck.report({"what": "history_differs_between_processes", "flavour": fl},
                          "the same generate/save/restore history gives %s in one process and %s in another" % (a, b),
                          {"driver": "idgen_hist", "config": {"flavor": fl}, "history": hs[hi]})
                break
    ck.note("cross-process histories done after %.0fs" % (time.time() - ck.t0))
    # checkpoints cross the process boundary
    n_x = 0
    for k in ([0, 1, 2, 7, 100] if q else [0, 1, 2, 3, 7, 64, 100, 1000, 65535, 65536, 99999]):
        a = core.harness(binary, "idgen_xproc", {"mode": "save", "gen": k})
        if a.get("error"):
            ck.report({"what": "save_error", "flavour": "xproc"}, "SaveCheckpoint after %d IDs fails: %s" % (k, a["error"]),
                      {"driver": "idgen_xproc", "mode": "save", "gen": k})
            continue
        if a["ids"] != S[:k]:
            ck.report({"what": "sequence_differs_between_runs", "kind": "sequential"},
                      "a fresh process hands out %s..., the reference run %s..." % (a["ids"][:5], S[:5]),
                      {"driver": "idgen_xproc", "mode": "save", "gen": k})
        m = 50
        for fl in ("checkpoint", "nextid"):
            b = core.harness(binary, "idgen_xproc", {"mode": "resume", "gen": m, "checkpoint": a["checkpoint"],
                                                     "next_id": a["next_id"], "flavor": fl})
            n_x += 1
            ck.cov["evaluations"] += k + m
            if b.get("error") or b["ids"] != S[k:k + m]:
                ck.report({"what": "restore_does_not_continue", "flavour": "xproc_" + fl},
                          "checkpoint taken after %d IDs, resumed in another process: got %s, the sequence continues %s (%s)" % (
                              k, b["ids"][:4], S[k:k + 4], b.get("error", "no error")),
                          {"driver": "idgen_xproc", "save": {"mode": "save", "gen": k}, "resume": {"mode": "resume", "gen": m, "flavor": fl,
                                                                                               "checkpoint": a["checkpoint"], "next_id": a["next_id"]}})
    ck.cov["traces_validated_against_impl"] += n_x
    ck.sample({"cross_process_resume": "save after k IDs in process A, resume in process B", "cases": n_x})

    # ---- (b) concurrency
    def conc(binary, race_dir=None):
        gs = [2, 4, 16, 64] if (q or race_dir) else [2, 3, 4, 8, 16, 32, 64]
        per = 1500 if q else (1000 if race_dir else 2000)
        runs = 0
        for kind in ("sequential", "parallel", "default", "lazy"):
            for G in gs:
                for procs in ([None, "2"] if (q or race_dir) else [None, "1", "4"]):
                    per_b, per_c = per // 2, per // 3 + 1
                    phases = [{"op": "gen", "g": G, "per": per}]
                    if kind != "parallel":
                        phases += [{"op": "save"}, {"op": "gen", "g": G, "per": per_b}, {"op": "restore"},
                                   {"op": "gen", "g": max(2, G // 2), "per": per_c}]
                    else:
                        phases += [{"op": "gen", "g": G, "per": per_b}]
                    env = {}
                    if procs:
                        env["GOMAXPROCS"] = procs
                    if race_dir:
                        env["GORACE"] = "exitcode=0 log_path=%s/race" % race_dir
                    payload = {"kind": kind, "phases": phases}
                    out = core.harness(binary, "idgen_conc", payload, env=env)["phases"]
                    runs += 1
                    ids = [[int(x) for per_g in ph.get("ids") or [] for x in per_g.split()] for ph in out]
                    errs = [ph.get("error") for ph in out if ph.get("error")]
                    rp = {"driver": "idgen_conc", "payload": payload, "env": env}
                    base = {"kind": kind, "concurrent": True}
                    if errs:
                        ck.report(dict(base, what="checkpoint_error"), "%s generator: %s" % (kind, errs[0]), rp)
                        continue
                    if kind == "parallel":
                        timelines = [("A+B", ids[0] + ids[1], 0)]
                    else:
                        # timeline 1: A then B; timeline 2 (after the restore): A then C
                        timelines = [("A+B", ids[0] + ids[2], 0), ("C after restore", ids[4], len(ids[0]))]
                    for name, tl, offset in timelines:
                        ck.cov["evaluations"] += len(tl)
                        got = set(tl)
                        if 0 in got:
                            ck.report(dict(base, what="zero_id"), "%s generator, %d goroutines: ID 0 handed out (%s)" % (kind, G, name), rp)
                        if len(got) != len(tl):
                            ck.report(dict(base, what="duplicate_id"), "%s generator, %d goroutines, GOMAXPROCS=%s: ID %s handed out twice (%s)" % (
                                kind, G, procs or "default", _first_dup(tl), name), rp)
                        elif kind != "parallel":
                            want = set(Sint[offset:offset + len(tl)])
                            if got != want:
                                what = "restore_does_not_continue" if offset else "not_the_sequence"
                                ck.report(dict(base, what=what), "%s generator, %d goroutines (%s): the %d IDs are not positions %d..%d of the sequence "
                                          "(missing %s, foreign %s)" % (kind, G, name, len(tl), offset + 1, offset + len(tl),
                                                                        sorted(want - got)[:3], sorted(got - want)[:3]), rp)
                    if runs <= 2:
                        ck.sample({"concurrent": {"kind": kind, "goroutines": G, "ids_phase_A": len(ids[0]), "first": sorted(ids[0])[:3]}})
        return runs

    ck.note("sequential part done after %.0fs" % (time.time() - ck.t0))
    runs = conc(binary)
    ck.cov["concurrent_runs"] = runs
    ck.note("plain concurrent runs done after %.0fs" % (time.time() - ck.t0))
    if not q:
        rb = ck.binary("timingmisc", race=True)
        rd = core.scratch("race-")
        runs_r = conc(rb, rd)
        ck.cov["concurrent_runs_race_build"] = runs_r
        reports = [f for f in os.listdir(rd) if f.startswith("race")]
        n_gen = n_lazy = 0
        for f in reports:
            with open(os.path.join(rd, f), errors="replace") as fh:
                txt = fh.read()
            n_gen += txt.count("IDGenerator).Generate")
            n_lazy += 1 if "timing.GetIDGenerator()" in txt else 0
        ck.cov["race_detector_reports"] = {"files": len(reports), "mentioning_Generate": n_gen,
                                           "in_lazy_GetIDGenerator_initialisation": n_lazy}
        if n_gen:
            ck.note("race detector: %d report(s) mention Generate (informational; the verdict is the IDs)" % n_gen)
        runs += runs_r
    ck.cov["traces_validated_against_impl"] += runs
    ck.cov["distinct_nontrivial"] += runs
    ck.note("reference %d IDs x3 processes; %d cross-process resumes; %d concurrent runs" % (n_ref, n_x, runs))


def _first_dup(tl):
    seen = set()
    for x in tl:
        if x in seen:
            return x
        seen.add(x)
    return None


def replay(ck, doc):
    """Re-run a recorded contradiction (replays/C41-*.json) on the real generator. Supported: the concurrent
    runs (idgen_conc: distinct / nonzero) and the graph histories (idgen / idgen_hist)."""
    rp = doc["replay"]
    binary = ck.binary("timingmisc")
    ck.cov["rule"] = "replay of a recorded case"
    ck.cov["traces_validated_against_impl"] += 1
    if rp.get("driver") == "idgen_conc":
        out = core.harness(binary, "idgen_conc", rp["payload"], env=rp.get("env") or {})["phases"]
        kind = rp["payload"]["kind"]
        for ph in out:
            tl = [int(x) for per_g in ph.get("ids") or [] for x in per_g.split()]
            if 0 in tl:
                ck.report({"kind": kind, "concurrent": True, "what": "zero_id"}, "ID 0 handed out", rp)
            if len(set(tl)) != len(tl):
                ck.report({"kind": kind, "concurrent": True, "what": "duplicate_id"}, "ID %s handed out twice in one phase" % _first_dup(tl), rp)
    elif rp.get("driver") in ("idgen", "idgen_hist"):
        ref = core.harness(binary, "idgen_ref", {"kind": "sequential", "n": 64})["ids"]
        cfg = dict(rp.get("config") or {}, ref=ref)
        out = core.harness(binary, "idgen", {"config": cfg, "histories": [rp["history"]]})
        for m in out["mismatches"] or []:
            ck.report({"what": "replay_mismatch", "op": (m.get("op") or {}).get("op"), "kind": m.get("kind"), "flavour": cfg.get("flavor")},
                      "%s mismatch at step %d: want %s got %s" % (m["kind"], m["step"], m["want"], m["got"]), rp)
    else:
        raise core.Broken("replay of driver %r is not supported; re-run ./check C41" % rp.get("driver"))
