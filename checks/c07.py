"""C07 — checkpoint archives are canonical and mismatches are rejected (spec/ckpt/Archive.tla)."""
from vlib import core

LEVEL = "model_checking"
TECHNIQUE = "TLA+ enumeration (TLC) of all single and pairwise archive/configuration mutations with the statement's expected outcome; each applied to real archives of real runs and loaded by the real code; seeded byte corruption for the never-panics half"
LEVEL_TEXT = ("Archive.tla enumerates every single mutation (quick) and every unordered pair (thorough) of 23 mutation kinds — build identity, entity set, component spec, port "
              "capacity, storage shape, connection spec, dropped/added/duplicated/non-regular/unexpected entries, truncated or re-typed payloads, unknown handler / event type / "
              "message type, buffers filled beyond capacity, forged unit counts, truncated gzip — with the outcome the statement demands (error, never panic, never accept); "
              "each case is applied to real archives saved mid-run (a message in a port buffer, events queued, storage allocated) and loaded into a rebuilt simulation; the "
              "unmutated archive must load and re-save byte-identically. Seeded bit flips / byte changes / truncations of the compressed and tar streams must never panic.")
LEVEL_NOTE = "Structured mutations are exhaustive over the listed kinds (pairs in thorough); byte corruption is sampled. Page-size mutation needs a page-table assembly and is not covered here."


def run(ck):
    q = ck.tier == "quick"
    r = ck.run_tlc(["ckpt"], "Archive", "Archive_q.cfg" if q else "Archive_t.cfg", workers=2, timeout=600)
    if not r.ok:
        raise core.Broken("Archive.tla: %s %s" % (r.violated, r.error))
    cases = r.tagged["CASE"]
    ck.cov["rule"] = ("case = (real archive, mutation set) loaded by simulation.LoadCheckpoint into a rebuilt simulation; mutation sets are all singles (quick) / singles and pairs "
                      "(thorough) enumerated by TLC; non-trivial = at least one mutation applied and applicable.")
    ck.assumptions += ["rebuilt simulation = same construction code; configuration mutations change exactly one parameter"]
    out = core.harness(ck.binary("tick"), "ckpt_mut", dict(seed=ck.seed, systems=3 if q else 6, cases=cases, flips=150 if q else 1200), timeout=3000)
    expect = {core.canon(sorted(c["mutations"])): c["expect"] for c in cases}
    n_app = 0
    for res in out["results"]:
        muts = sorted(res["mutations"])
        if res["outcome"] == "skipped":
            continue
        n_app += 1
        if muts == ["corrupt_bytes"]:
            ck.report({"mutations": "corrupt_bytes", "outcome": "panic"}, "corrupted archive bytes make LoadCheckpoint panic: %s" % res["detail"], res)
            continue
        want = expect[core.canon(muts)]
        got = res["outcome"]
        if got == want:
            continue
        key = {"mutations": "+".join(muts), "outcome": got}
        ck.report(key, "archive mutation %s: expected %s, real code: %s (%s)" % ("+".join(muts) or "none", want, got, res["detail"][:300]), res)
    ck.cov["traces_validated_against_impl"] += n_app
    ck.cov["evaluations"] += n_app + out["flips"]
    ck.cov["distinct_nontrivial"] += len({core.canon(sorted(x["mutations"])) for x in out["results"] if x["outcome"] != "skipped" and x["mutations"]})
    ck.cov["byte_corruptions"] = out["flips"]
    ck.sample(out.get("sample"))
    ck.sample({"cases": cases[:5]})
    ck.note("%d mutation loads (+%d corrupted-byte loads), skipped %d" % (n_app, out["flips"], sum(1 for x in out["results"] if x["outcome"] == "skipped")))
    ck.cov["exhaustive"] = True
