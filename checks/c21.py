"""C21 — reorder buffers release responses in arrival order (spec/mem/ROB.tla).

TLC enumerates every behaviour of ROB.tla (buffer size, read/write mix, requester assignment, every
feasible completion order of the lower unit with optional pauses) and checks the order property on the
specification; every behaviour is imposed on a real mem/rob placed between a two-port driver agent and
a scripted lower unit (harness driver memagents1/rob) and the answers sent at its Top port are compared
with the specification's. A seeded random mode drives long runs with up to 64 outstanding requests."""
import concurrent.futures
from vlib import core, memagents1

LEVEL = "model_checking"
TECHNIQUE = ("TLA+ specification of a reorder buffer (accept / complete-in-any-order / answer-oldest-first); TLC "
             "enumerates all completion orders and pause patterns within the bounds and checks InOrder/OwnResult on the "
             "spec; each behaviour is replayed on the real mem/rob with a scripted lower unit under the serial engine and "
             "the sequence of Top-port answers (kind, RspTo, Dst, data) is compared with the specification's")
LEVEL_TEXT = ("exhaustive over completion orders for <= 4 (5 without pauses) outstanding requests, buffer sizes 1..5, all read/write mixes, one "
              "or two requesters; plus seeded random runs with buffer sizes up to 64 and hundreds of requests")
LEVEL_NOTE = ("Port buffer sizes, NumReqPerCycle and pause lengths of the assembly are drawn from the seed. Of the control port "
              "only one Reset per behaviour is exercised (pause/drain are C18's). The lower unit's completion order is imposed exactly; the instants "
              "at which the reorder buffer accepts requests are its own.")


def answer_view(a):
    return {"req": a["req"], "kind": a["kind"], "to": a["to"],
            "data_req": a["data_req"] if a["kind"] == "read" else -1,
            "data_pos": a["data_pos"] if a["kind"] == "read" else 0}


def expected_from_spec(b):
    """ROB.tla's `answers` in the driver's shape (a write answer carries no payload)."""
    out = []
    for a in b["answers"]:
        rd = a["kind"] == "read"
        out.append({"req": a["req"], "kind": a["kind"], "to": a["to"],
                    "data_req": a["data"][0] if rd else -1, "data_pos": a["data"][1] if rd else 0})
    return out


def expected_from_observation(res):
    """ROB.tla's Release/Answer/Reset applied to what was observed: the k-th accepted request is answered k-th, once the
    lower unit has completed it, with its own kind, requester and the lower unit's result for it; a reset drops the
    accepted requests that had not been answered when it was acknowledged (they are never answered, whatever the lower
    unit delivers for them later), the requests accepted afterwards are answered in order again."""
    done = {l["req"]: l for l in res.get("lower") or [] if l["req"] > 0 and l["pos"] > 0}
    acc = res.get("accepted") or []

    def answers(first, last):
        out = []
        for i in range(first, last + 1):
            if i not in done:
                break
            a = acc[i - 1]
            rd = a["kind"] == "read"
            out.append({"req": i, "kind": a["kind"], "to": a["who"], "data_req": i if rd else -1,
                        "data_pos": done[i]["pos"] if rd else 0})
        return out
    r = res.get("reset_acc") or 0
    if not r:
        return answers(1, len(acc))
    return answers(1, r)[:res.get("reset_ans") or 0] + answers(r + 1, len(acc))


def first_difference(exp, got):
    for i in range(max(len(exp), len(got))):
        if i >= len(got):
            return i, "missing_answer"
        if i >= len(exp):
            return i, "extra_answer"
        e, g = exp[i], got[i]
        if e == g:
            continue
        if g["req"] == 0:
            return i, "wrong_id"
        if g["req"] != e["req"]:
            return i, "out_of_order"
        if g["kind"] != e["kind"]:
            return i, "wrong_kind"
        if g["to"] != e["to"]:
            return i, "wrong_requester"
        return i, "wrong_result"
    return None


def judge(ck, case, res, spec_beh, stats):
    """Compare one run with its oracle. Returns nothing; reports through ck."""
    replay = {"driver": "memagents1/rob", "input": {"cases": [case]}}
    if res.get("skipped"):
        return
    if res.get("panic"):
        ck.report({"symptom": "panic"}, "reorder buffer run panicked: %s" % res["panic"], replay)
        return
    got = [answer_view(a) for a in res.get("answers") or []]
    mirrored = expected_from_observation(res)
    exp = mirrored
    if spec_beh is not None and not res["deviated"]:
        acc = res.get("accepted") or []
        resets = [st for st in spec_beh["script"] if st["op"] == "reset"]
        same_reset = True
        if resets:      # the real run dropped exactly the requests the behaviour drops
            r = resets[0]["arrived"]
            same_reset = (res.get("reset_ok") and res.get("reset_acc") == r and
                          res.get("reset_ans") == sum(1 for a in spec_beh["answers"] if a["req"] <= r))
        if same_reset and [a["kind"] for a in acc] == spec_beh["kinds"] and [a["who"] for a in acc] == spec_beh["who"]:
            exp = expected_from_spec(spec_beh)
            stats["spec_oracle"] += 1
            if exp != mirrored and len(mirrored) == len(exp):
                raise core.Broken("the lower unit did not follow the script although it reports no deviation: %s vs %s" % (exp, mirrored))
        else:
            stats["deviated"] += 1
    elif res["deviated"]:
        stats["deviated"] += 1
    stats["answers"] += len(got)
    if any(not l["same"] for l in res.get("lower") or [] if l["req"] > 0) or any(l["req"] == 0 for l in res.get("lower") or []):
        ck.report({"symptom": "forwarded_request_differs"},
                  "the request the lower unit received differs from the accepted one: %s" % [l for l in res["lower"] if not l["same"]][:3], replay)
        return
    d = first_difference(exp, got)
    if d is not None:
        i, sym = d
        ck.report({"symptom": sym},
                  "reorder buffer cap=%d: answer #%d at the Top port is %s, the specification demands %s (%s); accepted=%s lower=%s" % (
                      case["cap"], i + 1, got[i] if i < len(got) else None, exp[i] if i < len(exp) else None, sym,
                      [(a["who"], a["kind"]) for a in res.get("accepted") or []][:8],
                      [(l["req"], l["pos"]) for l in res.get("lower") or []][:8]), dict(replay, observed=res))
        return
    # every answer reached the requester it was addressed to, in the order sent
    for w in ("A", "B"):
        want = [a["req"] for a in got if a["to"] == w]
        if (res.get("received") or {}).get(w, []) != want and (want or (res.get("received") or {}).get(w)):
            ck.report({"symptom": "answer_not_delivered"},
                      "requester %s received %s, the reorder buffer sent it %s" % (w, (res.get("received") or {}).get(w), want), dict(replay, observed=res))
            return
    stats["passed"] += 1


def run_cases(ck, cases):
    return memagents1.run_cases(ck, "rob", cases, batch=5000)


def run(ck):
    quick = ck.tier == "quick"
    # quick: 4 requests / sizes 1..4 / no pauses, and 3 requests / sizes 1..3 / optional pauses / both requester patterns;
    # thorough: 4 requests / sizes 1..4 / pauses / alternating requesters, 5 requests / sizes 3,5 / no pauses, and the 3-request set;
    # ROB_qr / ROB_tr: 4 requests with one reset of the buffer while requests are outstanding (late results of dropped requests)
    cfgs = ("ROB_q.cfg", "ROB_q3.cfg", "ROB_qr.cfg") if quick else ("ROB_t.cfg", "ROB_t5.cfg", "ROB_q3.cfg", "ROB_tr.cfg")
    with concurrent.futures.ThreadPoolExecutor(max_workers=4) as ex:     # the TLC runs are independent
        runs = list(ex.map(lambda cfg: core.tlc(["mem"], "ROB", cfg, workers=3 if quick else 5, timeout=240 if quick else 900), cfgs))
    behs = []
    for cfg, r in zip(cfgs, runs):
        ck.cov["states"] += r.distinct
        ck.cov["transitions"] += r.generated
        ck.tlc_runs.append(dict(module="ROB", cfg=cfg, **r.summary()))
        if not r.ok:
            raise core.Broken("ROB.tla/%s fails on its own: %s %s\n%s" % (cfg, r.violated, r.error, "\n".join(r.lines[-30:])))
        if len(r.tagged["BEHAVIOUR"]) < 500:
            raise core.Broken("only %d behaviours emitted by ROB/%s" % (len(r.tagged["BEHAVIOUR"]), cfg))
        ck.note("TLC %s: %d distinct states, %d complete behaviours in %.1fs" % (cfg, r.distinct, len(r.tagged["BEHAVIOUR"]), r.wall))
        behs += r.tagged["BEHAVIOUR"]
    ck.cov["exhaustive"] = True
    ck.cov["rule"] = ("Every complete behaviour of ROB.tla in the bounds (NReq requests accepted in order, buffer sizes Caps, all "
                      "read/write mixes, requester patterns, every completion order the buffer size allows, optional pause "
                      "between completions) is imposed on the real mem/rob: the lower unit completes exactly in the scripted "
                      "order (waiting for the scripted number of arrivals), the driver sends a request only after the "
                      "completions that precede its acceptance; the answers sent at the Top port must equal the "
                      "specification's `answers` (request order, kind, Dst = requester, RspTo = original ID, read data = the "
                      "lower unit's tagged result for that request), every forwarded request must equal the accepted one, and "
                      "every answer must reach its requester. Random mode: the same oracle applied to the observed acceptance "
                      "and completion logs. Non-trivial = the lower unit completes at least one younger request before an older one.")
    ck.assumptions += [
        "serial engine, 1 GHz, direct connections; port buffer sizes in {1,2,4} (Top outgoing {1,2,3}), NumReqPerCycle in {1,2,4} and pause "
        "lengths drawn from the seed",
        "of the control protocol only Reset is used (ROB_qr/ROB_tr behaviours): once, after the buffer has settled, with no "
        "request in flight to the Top port; requests sent after it wait for its acknowledgment; pause/drain are not used",
        "the requesters pick up answers either at once or slowly (every 2nd..4th cycle, one per port, seeded extra stalls); the "
        "Top port's outgoing capacity is 1..3, so the buffer often has fewer free slots than heads ready to retire",
        "acceptance = the reorder buffer retrieving the request from its Top port; two requests on different requester "
        "ports are sent one after the other's acceptance so that the specification's numbering is the acceptance order",
        "a run in which the scripted completion order cannot be imposed (the buffer does not accept as many requests as "
        "its size allows) is judged by the same rule applied to the observed logs and counted as `deviated`",
    ]
    stats = dict(passed=0, deviated=0, answers=0, spec_oracle=0)

    # ---- TLC behaviours
    cases = []
    for b in behs:
        cases.append(dict(cap=b["cap"], kinds=b["kinds"], who=b["who"], script=b["script"],
                          width=ck.rng.choice((1, 2, 4)), top_buf=ck.rng.choice((1, 2, 4)), top_out=ck.rng.choice((1, 2, 3)),
                          stall=ck.rng.choice((1, 1, 2, 3, 4)), stall_seed=ck.rng.randrange(1 << 30),
                          bottom_buf=ck.rng.choice((1, 2, 4)), agent_buf=ck.rng.choice((1, 2, 4)), quiet=ck.rng.choice((3, 8, 15))))
    results = run_cases(ck, cases)
    nontrivial = 0
    for b, c, res in zip(behs, cases, results):
        judge(ck, c, res, b, stats)
        order = [s["req"] for s in b["script"] if s["op"] == "complete"]
        if order != sorted(order):
            nontrivial += 1
    n_tlc = len(cases)
    if stats["spec_oracle"] < 0.9 * n_tlc and not ck.violations:
        raise core.Broken("only %d of %d behaviours could be imposed on the real reorder buffer (deviated %d)" % (
            stats["spec_oracle"], n_tlc, stats["deviated"]))

    # ---- seeded random mode
    n_runs, n_req = (12, 150) if quick else (120, 400)
    rcases = []
    for i in range(n_runs):
        cap = ck.rng.choice((1, 2, 3, 5, 8, 16, 33, 64))
        if i < 3:
            cap = 64
        n = n_req
        rcases.append(dict(cap=cap, kinds=[ck.rng.choice(("read", "write")) for _ in range(n)],
                           who=[ck.rng.choice("AB") for _ in range(n)], script=[], random=True,
                           seed=ck.rng.randrange(1 << 30), prob=ck.rng.choice((5, 15, 40, 80)) if i >= 3 else 3,
                           width=ck.rng.choice((1, 2, 4)), top_buf=ck.rng.choice((1, 2, 4, 8)), top_out=ck.rng.choice((1, 2, 3, 8)),
                           stall=ck.rng.choice((1, 2, 3)), stall_seed=ck.rng.randrange(1 << 30),
                           bottom_buf=ck.rng.choice((1, 2, 4, 8)), agent_buf=ck.rng.choice((2, 4, 8))))
    rresults = run_cases(ck, rcases)
    max_out = 0
    for c, res in zip(rcases, rresults):
        before = stats["passed"]
        judge(ck, c, res, None, stats)
        max_out = max(max_out, res.get("max_in_rob") or 0)
        if stats["passed"] > before:
            if len(res.get("answers") or []) != len(c["kinds"]):
                raise core.Broken("random run ended with %d answers for %d requests without a reported difference" % (
                    len(res.get("answers") or []), len(c["kinds"])))
            inv = sum(1 for l in res["lower"] if l["pos"] != l["arrival"])
            if inv:
                nontrivial += 1
    ck.cov["traces_validated_against_impl"] += len(cases) + len(rcases)
    ck.cov["evaluations"] += stats["answers"]
    ck.cov["distinct_nontrivial"] += nontrivial
    ck.cov["runs_passed"] = stats["passed"]
    ck.cov["runs_judged_by_spec_answers"] = stats["spec_oracle"]
    ck.cov["runs_deviated"] = stats["deviated"]
    ck.cov["random_runs"] = len(rcases)
    ck.cov["max_outstanding_in_random_runs"] = max_out
    for b in (behs[0], behs[len(behs) // 2], behs[-1]):
        ck.sample({"cap": b["cap"], "kinds": b["kinds"], "who": b["who"],
                   "script": [(s["op"], s["req"], s["arrived"]) for s in b["script"]],
                   "answers": [(a["req"], a["kind"], a["to"], a["data"]) for a in b["answers"]]})
    ck.note("replayed %d TLC behaviours (%d judged by the spec's answers, %d deviated) + %d random runs (max outstanding %d): %d passed, %d answers compared" % (
        n_tlc, stats["spec_oracle"], stats["deviated"], len(rcases), max_out, stats["passed"], stats["answers"]))
