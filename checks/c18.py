"""C18 — memory agents follow the control protocol under any history
(spec/mem/CtrlMatrix.tla, CtrlProto.tla, CtrlTrace.tla; harness family ctrlproto)."""
from vlib import core, ctrlcheck

LEVEL = "model_checking"
TECHNIQUE = ("TLA+ model of one agent under the control protocol (support matrix transcribed from CONTROL_PROTOCOL.md) model-checked with TLC; "
             "every verb sequence within the bound replayed on each of the twelve real agents with live traffic; port-level traces "
             "validated by a TLC monitor specification")
LEVEL_TEXT = ("TLC explores CtrlProto.tla (an abstract agent: control state, serial command queue, data requests queued/in flight/served/"
              "dropped, any sender pacing) for every sequence of the six verbs with and without filters up to the bound, for the three rows "
              "of the support matrix and traffic on/off, checking one-response-per-request, request order, the refusal rules, silence while "
              "paused, the drain/reset post-conditions and (with fairness) that queued requests are served after enable. Each sequence, with "
              "the outcomes the model gives, is sent to each of the twelve agents built by their real builders on a real serial engine "
              "(caches/ROB/translator over an ideal memory, TLB/MMU cache/GMMU over a translation stub, data mover between two memories) "
              "interleaved with live reads/writes/translations/moves; Control- and Top-port events recorded at the agent's own port hooks "
              "plus the projected control state are validated by CtrlTrace.tla; seeded random histories of up to 30 verbs are added.")
LEVEL_NOTE = ("Exhaustive in the verb space up to the bound; the interleaving with traffic, downstream latency and requester back-pressure is "
              "sampled per run from the seed (sender pacing wait/burst, fast/slow downstream, Top port of capacity 1-2 with a requester that "
              "stops retrieving around the verbs). Quick replays all sequences of length <=2 and a seeded sample of length 3; thorough "
              "replays all of length <=3 and all of length 4 with traffic.")

PACINGS = ["wait", "burst"]


def hist(b, pacing, bp=False):
    return dict(seq=b["seq"], traffic=b["traffic"], pacing=pacing, bp=bool(bp and b["traffic"]), out=b["out"], ctl=b["ctl"])


def random_histories(ck, n, maxlen):
    hs = []
    for _ in range(n):
        k = ck.rng.randint(5, maxlen)
        seq = []
        for _ in range(k):
            # bias towards the verbs that change the state so that invalidate/flush meet both states
            seq.append(ck.rng.choice(ctrlcheck.LETTERS + [["pause", False], ["enable", False], ["drain", False], ["reset", False]]))
        traffic = ck.rng.random() < 0.85
        hs.append(dict(seq=seq, traffic=traffic, pacing=ck.rng.choice(PACINGS), bp=traffic and ck.rng.random() < 0.5))
    return hs


def run(ck):
    quick = ck.tier == "quick"
    ck.cov["rule"] = ("(1) CtrlProto.tla model-checked (invariants OneRspPerReq, RspInReqOrder, Refusals, Settles; action properties "
                      "PausedSilent, DrainPost, ResetPost, NoLateRsp, OneAtATime; in the thorough tier also liveness AllAnswered, QueuedServed under weak fairness). (2) every emitted "
                      "behaviour (row, traffic, verb sequence, outcomes, final state) of the agent's row replayed on the real agent with "
                      "a seeded sender pacing (wait/burst), with and without requester back-pressure: the driver compares each response (id, command, outcome) and the settled control state "
                      "with the model, and CtrlTrace.tla checks the statement's rules on the events recorded at the agent's own Control/Top "
                      "port hooks. One run = one (agent, sequence, traffic, pacing, back-pressure). Non-trivial = run with traffic and at least two verbs.")
    ck.assumptions += [
        "support matrix = CONTROL_PROTOCOL.md (CtrlMatrix.tla), not the middlewares' switch statements",
        "'emits' is judged at the agent's own port Send hook; Control/Top ordering is the serial order of the hooks",
        "data responses emitted while a Drain is the command in progress are allowed even after an earlier Pause ack (Drain is defined as "
        "letting in-flight work finish and must leave the agent quiescent); no such exception is made for Flush",
        "pre-reset request = data request received at the agent's Top port before the reset ack was sent",
        "the projected component state is compared only after ticks with exactly one acknowledgment and no other command taken",
        "a request accepted before a pause and never answered after enable is recorded as a note (request_never_served), not a verdict",
        "TLB built with its default Latency 4 (>= 2), which does not depend on W2 (one-stage pipeline with delay 1; fixed in the repository while this check was being written)",
        "each run ends with an epilogue Enable and two more data requests sent by the driver",
        "back-pressure runs: the agent's Top port and the requester's incoming buffer have capacity 1-2; around seeded verbs (the first one "
        "most of the time, later ones and the final Enable about half of the time) the requester stops retrieving responses from before "
        "the verb is sent (for the first verb until the agent's Top outgoing buffer is full) until a few cycles after its acknowledgment, "
        "then retrieves again while the agent is still in the state the verb left; coverage[\"acks_with_top_outgoing_full\"] counts "
        "the successful pause/drain/reset/invalidate/flush acknowledgments sent while the Top outgoing buffer was full",
    ]
    # quick: sequences <=3 with one data request; thorough: <=3 with two, 4 with one, and the fairness properties
    matrix, by_kind, r = ctrlcheck.model(ck, "CtrlProto_q.cfg" if quick else "CtrlProto_t3.cfg", workers=8, timeout=1500)
    if not quick:
        _, by4, _ = ctrlcheck.model(ck, "CtrlProto_t.cfg", workers=8, timeout=3000)
        for kind, bs in by4.items():
            by_kind[kind] += [b for b in bs if len(b["seq"]) == 4]
        ctrlcheck.liveness(ck)   # AllAnswered, QueuedServed under weak fairness (thorough only: one more JVM)
    ck.cov["support_matrix"] = matrix
    ck.cov["model_behaviours"] = sum(len(v) for v in by_kind.values())

    pace = lambda: ck.rng.choice(PACINGS)
    per_kind = {}
    n_seq = {}
    for kind, bs in by_kind.items():
        hs = []
        if quick:
            # every sequence of length <=2: without traffic, with traffic, with traffic under back-pressure
            # (one seeded pacing each); a seeded sample of length 3 with traffic under back-pressure
            short = [b for b in bs if len(b["seq"]) <= 2]
            long3 = [b for b in bs if len(b["seq"]) == 3 and b["traffic"]]
            ck.rng.shuffle(long3)
            for b in short:
                hs.append(hist(b, pace()))
                if b["traffic"]:
                    hs.append(hist(b, pace(), bp=True))
            for b in long3[:24]:
                hs.append(hist(b, pace(), bp=True))
            n_seq[kind] = (len(short), min(24, len(long3)))
        else:
            # length <=3: without traffic and with plain traffic one seeded pacing, under back-pressure both
            # pacings; length 4: with traffic under back-pressure, one seeded pacing
            upto3 = [b for b in bs if len(b["seq"]) <= 3]
            len4 = [b for b in bs if len(b["seq"]) == 4 and b["traffic"]]
            for b in upto3:
                hs.append(hist(b, pace()))
                if b["traffic"]:
                    hs += [hist(b, p, bp=True) for p in PACINGS]
            for b in len4:
                hs.append(hist(b, pace(), bp=True))
            n_seq[kind] = (len(upto3), len(len4))
        hs += random_histories(ck, 2 if quick else 40, 30)
        per_kind[kind] = hs
    ck.cov["sequences_per_row"] = {k: dict(exhaustive=v[0], sampled_or_traffic_only=v[1]) for k, v in n_seq.items()}
    ck.cov["exhaustive"] = True
    ck.cov["exhaustive_scope"] = (
        "quick: every verb sequence of length <=2 (8 letters: six verbs, invalidate/flush also filtered) on each of the 12 agents "
        "x {no traffic, traffic, traffic under back-pressure}, one seeded sender pacing each; length 3: seeded sample of 24 per matrix row "
        "with traffic under back-pressure; 2 random histories (<=30 verbs) per row"
        if quick else
        "thorough: every verb sequence of length <=3 on each of the 12 agents x {no traffic, traffic (one seeded pacing), traffic under "
        "back-pressure (both pacings)}; every sequence of length 4 with traffic under back-pressure (one seeded pacing); 40 random "
        "histories (<=30 verbs) per row")

    found, notes = ctrlcheck.replay(ck, "replay", matrix, per_kind, nreq=6, timeout=1500 if quick else 3000, shards=3 if quick else 6)
    nt = 0
    for agent, kind in matrix["agents"].items():
        nt += sum(1 for h in per_kind[kind] if h["traffic"] and len(h["seq"]) >= 2)
    ck.cov["distinct_nontrivial"] += nt
    ck.cov["notes"] = [dict(key=k, what=d) for k, d, _ in notes[:10]]
    ck.cov["notes_total"] = len(notes)
    by = {}
    for k, _, _ in notes:
        by[k["agent"] + "/" + k["class"]] = by.get(k["agent"] + "/" + k["class"], 0) + 1
    ck.cov["notes_by_agent"] = by
    ck.sample({"behaviour": by_kind["cache"][len(by_kind["cache"]) // 2]})
    seen = {}
    for key, desc, rep in found:
        k = core.canon(key)
        seen[k] = seen.get(k, 0) + 1
        if seen[k] <= 40:      # every case is matched against the findings; identical keys add nothing after a while
            ck.report(key, desc, rep)
    ck.cov["rule_failures_by_key"] = [dict(key=__import__("json").loads(k), count=n) for k, n in sorted(seen.items())]
