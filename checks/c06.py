"""C06 — checkpoint/restore at any time boundary is invisible (spec/ckpt/Checkpoint.tla over TickImpl.tla)."""
import os
from vlib import core, tickcheck, tracecheck
from vlib import netckpt, vmckpt, memckpt

LEVEL = "model_checking"
TECHNIQUE = "TLA+ model of save/rebuild/load over the tick model checked by TLC (cut at every boundary of every behaviour, negative controls); on the real code every distinct event time of every run is a cut point: resumed run compared with the uninterrupted one and monitored by TLC"
LEVEL_TEXT = ("Checkpoint.tla adds a Cut action (snapshot in pop order, guards, buffers, cursors; re-push with fresh sequence numbers) at every RunUntil boundary of every "
              "behaviour of TickImpl.tla; TLC checks that the restored state equals the original up to sequence renumbering, that the restored guards cover every queued tick "
              "and that nothing is lost afterwards (wrong restores are rejected as negative controls). On the real code, for TLC-enumerated and seeded systems (scripted ticking / "
              "event-driven components, direct connections, an ideal memory controller with storage) registered with simulation.Simulation, EVERY distinct event time is cut: "
              "RunUntil(t), SaveCheckpoint, rebuild, LoadCheckpoint, Run; the remaining event/message trace (with IDs) and every entity's final payload (components, ports, "
              "connections, storage, engine, ID generator) must equal the uninterrupted run; the spliced trace is monitored by TickTrace.tla.")
LEVEL_NOTE = ("Assemblies: the tick-family systems (+ideal memory) and networks (switches, endpoints; vlib/netckpt.py); memory-hierarchy and translation stacks are being added. "
              "IDs: with the simulation's always-attached DB tracer, port buffer tracing consumes IDs through a side table that is not checkpointed (documented 'run with tracing off', "
              "but the hook is attached by RegisterComponent itself): recorded as a known finding when a message sits in a port buffer at the cut and the runs are equal once IDs are erased.")


def run(ck):
    q = ck.tier == "quick"
    ck.cov["rule"] = ("case = one (system, cut time) pair: run to the cut, save, rebuild, load, finish; compared record by record and entity by entity with the uninterrupted run; "
                      "non-trivial by construction (the cut has events after it unless it is the last instant).")
    ck.assumptions += ["rebuild = the same construction code with the same configuration", "tracing is never started (simulation default)"]
    # the model
    r = ck.run_tlc(["ckpt", "tick"], "Checkpoint", "Checkpoint_q.cfg" if q else "Checkpoint_t.cfg", workers=8 if q else 16, timeout=3000)
    if not r.ok:
        raise core.Broken("Checkpoint.tla violates %s %s" % (r.violated, r.error))
    for neg in ("Checkpoint_neg_timeorder.cfg", "Checkpoint_neg_noguard.cfg", "Checkpoint_neg_noseq.cfg"):
        n = ck.run_tlc(["ckpt", "tick"], "Checkpoint", neg, workers=4, timeout=900)
        if n.ok:
            raise core.Broken("negative control %s was accepted: the model cannot see a wrong restore" % neg)
    # model scripts + random + memory systems on the real code
    lost, ok = tickcheck.model_behaviours(ck, ["TickImpl_q2.cfg", "TickImpl_q4.cfg"] if q else ["TickImpl_t2.cfg", "TickImpl_t4.cfg", "TickImpl_q1.cfg"],
                                          workers=8 if q else 16, cap=6 if q else 80)
    systems = [tickcheck.system_from_behaviour(b) for b in lost + ok]
    binary = ck.binary("tick")
    d = core.scratch("c06-")
    path = os.path.join(d, "spliced.ndjson")
    out = core.harness(binary, "ckpt_cuts", dict(seed=ck.seed, systems=systems, random=5 if q else 40, mem=4 if q else 30, collide=6 if q else 25,
                                                 max_cuts=4 if q else 10, trace_out=path), timeout=3000)
    ck.cov["traces_validated_against_impl"] += out["cuts"]
    ck.cov["evaluations"] += out["events"]
    ck.cov["distinct_nontrivial"] += out["cuts"]
    ck.cov["entities_compared_per_run_total"] = out["entities"]
    if out.get("sample"):
        ck.sample(out["sample"])
    for m in out["mismatches"] or []:
        key = {"kind": m["kind"], "class": m.get("class", ""), "msg_in_buffer_at_cut": m.get("msg_in_buffer_at_cut", False)}
        if m["kind"] == "final":
            key["entity_is_idgen"] = m.get("entity") == "entities/IDGenerator"
        ck.report(key, "system %d cut at %d ps: %s %s: %s" % (m["system"], m["cut"], m["kind"], m.get("entity") or "", m["detail"]),
                  {"driver": "ckpt_cuts", "system": m["config"], "cut": m["cut"]})
    ck.note("%d systems, %d cuts, %d records after cuts compared, %d mismatches" % (out["systems"], out["cuts"], out["events"], len(out["mismatches"] or [])))
    # spliced traces (before the cut from the saved run, after it from the resumed run) under the monitor
    v = tracecheck.validate(ck, ["tick", "common"], "TickTrace", "TickTrace.cfg", path, timeout=3000)
    if not v.accepted:
        raise core.Broken("spliced traces do not fit TickTrace: matched %s next %s" % (v.matched, v.next))
    for c in v.tlc.tagged.get("CASE", []):
        ck.report({"kind": "monitor", "class": c["class"]}, "spliced run violates %s: %s" % (c["class"], c.get("d")), {"case": c})
    # networks (meshes, PCIe trees, hybrids, connector graphs): every cut, own process per simulation
    netckpt.run_c06(ck)
    # translation stacks (AT, TLBs, MMU cache, GMMU, MMU, page table, storage)
    vmckpt.run_c06(ck)
    memckpt.run_c06(ck)
    ck.cov["exhaustive"] = True
