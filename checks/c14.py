"""C14 — buffers behave as bounded FIFO queues (spec/container/Buffer.tla)."""
from vlib import objcheck

LEVEL = "model_checking"


def run(ck):
    cfg = "Buffer_q.cfg" if ck.tier == "quick" else "Buffer_t.cfg"
    g, r = objcheck.graph_from_tlc(ck, ["container"], "Buffer", cfg, workers=4 if ck.tier == "quick" else 8)
    ck.cov["exhaustive"] = True
    ck.cov["rule"] = ("TLC enumerates the complete state graph of Buffer.tla (capacity 0..MaxCap, values Vals, all "
                      "operations incl. refusals, snapshot/restore and JSON round trips); every transition is replayed on "
                      "queueing.Buffer[int] (result + projected contents compared after each step), then seeded random "
                      "walks. Non-trivial = distinct history containing a refusal, an empty-pop/peek, or a round trip.")
    ck.assumptions += ["element types int and a struct with omitempty fields; the zero value is not in Vals", "hooks on the buffer are not attached"]

    def nontrivial(h):
        return any(s["a"]["res"] == "refused" or s["a"]["op"] in ("snaprestore", "jsonrt", "restore", "updatefront") or
                   (s["a"]["op"] in ("pop", "peek") and s["a"]["res"] == 0) for s in h["steps"])
    walks, wl = (100, 60) if ck.tier == "quick" else (2000, 200)
    objcheck.replay_graph(ck, g, "container", "buffer", walks=walks, walk_len=wl, nontrivial=nontrivial)
    # the same graph on a struct element type whose JSON omits zero fields (stale fields of a
    # reused backing array would show), incl. unmarshalling into a live non-empty buffer
    objcheck.replay_graph(ck, g, "container", "buffer_struct", walks=walks, walk_len=wl, nontrivial=nontrivial)
